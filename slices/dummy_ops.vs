// slice `dummy_ops`: the three schedule modifications that create / delete dummy tours as a whole
// (solution/src/schedule/modifications.rs), verbatim bodies, wiring-level proofs over the contracts of their callees:
//   Schedule::replace_vehicle_by_dummy, Schedule::delete_dummy, Schedule::spawn_vehicle_to_replace_dummy_tour.
//
// (1) replace_vehicle_by_dummy(&self, v)  ("Delete vehicle (and its tour) from schedule"; t = self.tours[v]); vocabulary in
//     env/dummy_ops_shim.vs.  C13 "a vehicle left without activities disappears … displaced or removed service trips are handed
//     back (… in a new dummy tour) … all other vehicles' tours, formations elsewhere … stay untouched":
//   * Err iff v is not a real vehicle ("# Errors: If the vehicle is not a real vehicle an error is returned"), or (D11) the
//     tour holds a service trip and all 2^16 ids have been handed out (vehicle_counter > 0xffff);
//   * on Ok(s1): vehicle_gone -- no vehicle / no tour under v, exactly one occurrence of v leaves the sorted id list of its type,
//     which stays sorted (and does not hold v any more if it was duplicate-free);
//     trips_in_new_dummy (if t holds a service trip) -- ONE new dummy tour under the unused id Dummy(self.vehicle_counter) holds
//     exactly the service trips of t in order (is_dummy, over the schedule's network, caches exact), the sorted list of dummy ids
//     gains exactly this id and stays sorted, the counter advances by one; no_new_dummy otherwise (dummy tours, listing, counter
//     unchanged);
//     others_untouched -- s1.vehicles == self.vehicles - v, s1.tours == self.tours - v (map equalities), the id lists of the
//     other types, every dummy tour that was there, the network are untouched;
//     rd_formations_follow -- the postcondition of update_train_formation(Some(v), None, nodes of t): same key set, only the
//     activities of t change, there v leaves (first occurrence, order kept); rd_unserved_follow: exact delta;
//     C09: costs == self.costs - t.costs; depot usage exact for v (now absent), unchanged for all others, hence exact for s1;
//     C10 / C15 / C09: transitions_follow(type of v) -- the postcondition of update_transitions_and_violation_fast (consistent
//     with the new tours, membership, violation sum, other types untouched); ids_ok preserved.
// (2) delete_dummy(&self, d): Err iff d is not a dummy; on Ok(s1): dummy_gone -- s1.dummy_tours == self.dummy_tours - d (map
//     equality: every other dummy tour stays), exactly one occurrence of d leaves dummy_ids_sorted, which stays sorted (and
//     does not hold d any more if it was duplicate-free); same_but_dummies -- every other component is the same.
// (3) spawn_vehicle_to_replace_dummy_tour(&self, d, vt): Err if d is not a dummy; C01: Err if a node of the dummy tour is not
//     compatible with the type; D11: Err if all 2^16 ids have been handed out; on Ok there is an intermediate schedule `mid` = self without the dummy (dummy_deleted, the
//     Ok-postcondition of delete_dummy) such that the result satisfies the whole postcondition of
//     mid.spawn_vehicle_for_path(vt, nodes of the dummy tour) (spawn_post: text of the ensures of slices/spawn_vehicle.vs,
//     including C02 / C13: the start depot chosen is the nearest start depot node with room w.r.t. the old usage table, its limits
//     hold for the new table, the end depot chosen is the nearest end depot node);
//     corollaries stated directly: the dummy is gone and no other dummy tour changed, one new vehicle of the type under
//     Vehicle(self.vehicle_counter) whose tour is compatible with the type and keeps every trip of the dummy tour.
//
// ASSUMPTIONS introduced / used by this slice:
//   A-stub   none new.  Stubs with the contract text of the slice that verifies them (R7a; `python3 tools/stub_sync.py dummy_ops`
//            reports 0 differences): Schedule::vehicle_type_of, Network::compatible_with_vehicle_type (sched_guard),
//            Tour::sub_path (tour_pos, env/tour_pos_fns.vs), Tour::new_dummy, Schedule::add_dummy_tour (remove_segment),
//            Schedule::update_train_formation (train_formation_update; R12 parameter type SeqIter<NodeIdx>),
//            Schedule::update_depot_usage (depot_usage), Schedule::update_transitions_and_violation_fast (sched_guard),
//            Schedule::spawn_vehicle_for_path (spawn_vehicle; WITH the preconditions it got from find_best_start_depot_for_spawning:
//            start_depots_ok, usage_counts_small, some_depot_has_room -- their vocabulary is the last block of
//            env/spawn_vehicle_shim.vs)
//   A-iter   Tour::all_nodes_iter yields the tour's nodes in order (stub returning SeqIter, text as in slices/spawn_vehicle.vs /
//            json_writer.vs; R7b), env/seqiter.vs (`viter`, `any`, `collect`), R5 on `nodes.iter()`
//   from env/spawn_vehicle_shim.vs (included, nothing new): A-std7 <[T]>::binary_search, Result::unwrap_or_else; A-std8
//            mem::replace; A-derive Ord of VehicleIdx (variant order, then index), Vehicle::clone structural; A-im `map[&k]` /
//            `map[&k] = ..` of im::HashMap; A-fmt Display of VehicleTypeIdx, Debug of Vec<NodeIdx>
//   plus the shared ones: env/im_shim.vs (im::HashMap get / remove / contains_key / clone), env/schedule_shim.vs (im::HashSet,
//            sched_vehicles), env/seqiter.vs, env/model_fns.vs / time_ops.vs / dist_ops.vs included trusted, key model of the
//            index types (env/broadcast_model.vs); vstd: Vec::remove, Vec::clone, Arc::clone, Option::ok_or, Result::unwrap,
//            Option::unwrap, slice first / last.
//   env/dummy_ops_shim.vs introduces NO assumption; it copies definitions of env/remove_segment_shim.vs and
//   env/update_tours_shim.vs that cannot be included next to env/spawn_vehicle_shim.vs (duplicate definitions): see its header.
//
// PRECONDITIONS (caller side):
//   (1) rs_ok       the precondition of remove_segment (text copied): sched_ok (env/schedule_shim.vs) + ids_ok (vehicles stored
//                   under their own `Vehicle` id and have a tour, dummy ids are `Dummy` ids below the counter, sorted dummy id
//                   list) + formations_ok (every activity has a formation; it lists the vehicles whose tours contain the node)
//                   + transitions_ok (the old-schedule clauses of upd_pre, fewer than 2^17 vehicles) + usage_exact
//       listed_ok   C10 listings, as far as the body needs them: the type of v has an id list, sorted, holding v
//       tfu_pre     the precondition of update_train_formation for (Some(v), None, nodes of the tour): u32 magnitudes of the
//                   formations' capacities, the trips' vehicle types, C09 for the unserved-passenger pair; required as is, not
//                   derived from rs_ok (as in slices/remove_segment.vs)
//   (2) dummy_listed_ok  C10 listings: dummy_ids_sorted is sorted and holds d (if d is a dummy)
//   (3) sv_ok + type_known(vt): the preconditions of spawn_vehicle_for_path (slices/spawn_vehicle.vs), stated for `self`
//       (lemma_spawn_pre_without_dummy carries them over to the intermediate schedule); for a dummy d: dummy_listed_ok,
//       dummy_tour_ok (a well-formed dummy tour over the schedule's network, A-len) and A-counter: spawn_counter_ok(nodes);
//       NEW (what spawn_vehicle_for_path needs for the choice of the start depot, handed up):
//       - A-index (instance validity): Network::start_depots_ok -- the start depot node list holds StartDepot nodes of the
//         network whose depot is in the depot table (how Network::new fills it; not part of sv_ok);
//       - C06 / C17 (for a dummy d whose tour does not start with a depot, i.e. always): some_depot_has_room(vt, own usage
//         table) -- SOME start depot node has room for one more vehicle of the type; otherwise `expect("There should be at least
//         the overflow depot available.")` panics.  Not derivable from sv_ok (the overflow depot's total capacity is a computed
//         number: slices/network_new.vs, C17, D5); lemma_depot_without_type_limit_suffices says what suffices;
//       - the magnitude usage_counts_small is NOT a precondition here: derived from sv_ok (lemma_usage_counts_small: an exact
//         usage table counts real vehicles only, ids are 16 bit).
//
// CLOSURE (C10 "After any sequence of schedule modifications …", C09 / C11 "… for every reachable schedule": the INDUCTION STEP --
//   on Ok the result satisfies the schedule-invariant part of the function's own precondition bundle AGAIN; obligations tagged
//   C10.<function>.result_satisfies_the_schedule_invariants_again; vocabulary and lemmas: last three sections of
//   env/dummy_ops_shim.vs, rd_closed / dd_closed / sd_closed list the conjuncts):
//   (1) schedule invariants of the precondition = rs_ok = sched_ok + ids_ok + formations_ok + transitions_ok + usage_exact; "about the
//       arguments" = listed_ok(v), tfu_pre(.., nodes of the tour of v).  Proved for the result, unconditionally: ids_ok, formations_ok
//       (lemma_rd_closure_formations: v leaves the formations of its tour, "removals keep the order", every other vehicle stays
//       listed), transitions_ok (lemma_rd_closure_transitions; the magnitude clause `fewer than 2^17 vehicles in the cycles` by
//       counting: the cycles hold exactly the vehicles, `Vehicle` ids are 16 bit), usage_exact.  sched_ok -- network, number of
//       vehicles, vehicle_ok for every vehicle, `sum of the tours' costs <= costs <= 2^61` (costs shrink by exactly the costs of
//       the tour that went) -- and with it rs_ok as a whole: ALSO unconditionally (lemma_rd_closure_sched).  The former premise
//       rd_listing_exact(result) -- the two conjuncts of sched_ok that say what `sched_vehicles(result)` IS (duplicate-free, lists
//       exactly the vehicles with a tour) -- is DISCHARGED (lemma_rd_listing_exact): sched_vehicles is DEFINED now
//       (env/schedule_shim.vs: listing_of(vehicle types of the network, grouped id lists), the id lists concatenated in type order);
//       the network is the same, the id list of the vehicle's type loses exactly one occurrence of the id and the other lists are
//       the same (vehicle_gone, others_untouched), the type is listed exactly once (it has a rotation-cycle structure: vehicle_ok;
//       transitions_ok -- part of rs_ok -- says the structures' keys are the listed types and the type list is duplicate-free), so
//       the listing loses exactly one occurrence of the id (lemma_listing_lose) and the listing of `self` was exact (sched_ok).
//       The schedule-invariant readings of the argument clauses: listed_ok holds for every OTHER vehicle for which it held; lists
//       that matched the vehicles of their type (the one of v: once) still match (listings_match); every dummy that was listed
//       still is and the new one is (dummy_listed_ok); every dummy tour that was dummy_tour_ok still is; an exact dummy listing
//       (dd_dummy_listing_exact: sorted, duplicate-free, exactly the ids of the dummy tours) stays exact.  tfu_pre is not treated
//       (u32 magnitudes and C09 for the unserved-passenger pair w.r.t. the nodes of ONE tour: required as is by (1)).
//   (2) the precondition has one schedule invariant, sorted_cmp(dummy_ids_sorted) (the rest of dummy_listed_ok(d) is about d):
//       proved, with ids_ok, dummy_listed_ok / dummy_tour_ok for every OTHER dummy, dd_dummy_listing_exact.  Every other component is
//       the same, so every other invariant is INHERITED, stated one by one: formations_ok, transitions_ok, usage_exact,
//       listings_match, listed_ok for every vehicle, type_known for every type, and the bundles sv_ok (lemma_dd_sv_ok) and rs_ok
//       (lemma_dd_rs_ok; unconditionally now: network and grouped id lists are the same, so sched_vehicles(result) ==
//       sched_vehicles(self) -- lemma_sched_vehicles_frame --, and rd_listing_exact(result) holds: lemma_dd_listing_exact).
//   (3) schedule invariants of the precondition = sv_ok = Network::wf + depot_lists_ok + sv_ids_ok + sv_formations_ok +
//       transitions_ok + usage_exact + `costs <= 2^61`; instance validity: start_depots_ok, type_known (for every type); "about
//       the arguments" = type_known(vt), dummy_listed_ok / dummy_tour_ok / spawn_counter_ok for d, some_depot_has_room(vt) (C06 /
//       C17: NOT an invariant -- a spawn uses room up).  From delete_dummy's closure and the closure lemma of
//       spawn_vehicle_for_path (spcl_lemma_closure, env/spawn_vehicle_shim.vs: proved from the effect clauses of its contract,
//       which this slice stubs), proved unconditionally: network clauses, sv_ids_ok, three of the five clauses of sv_formations_ok
//       (every activity has a formation; the trips' types; C09 the cached unserved pair covers every duplicate-free node list),
//       transitions_ok, usage_exact.  NOT invariants of a spawn, proved under the weakest hypothesis on the RESULT: the two
//       magnitude clauses of sv_formations_ok (a formation lists at most 2^17 vehicles; its u32 capacity / seat sums fit with one
//       more vehicle of any type) GIVEN the same clause for the formations that grew (spcl_grown_len_small / spcl_grown_sums_fit
//       for the activities of the new tour); sv_ok as a whole GIVEN these two and `result.costs <= 2^61` (the costs grow by the new
//       tour's costs).  Also: known types stay known, matching listings still match, every listed vehicle is still listed and
//       the new one is, every OTHER dummy is still listed / dummy_tour_ok, an exact dummy listing stays exact.
//
// NOT covered: (1) connectedness of the new dummy tour (A-path / D9, as in slices/remove_segment.vs), hence dummy_tour_ok for
//   the NEW dummy tour (the precondition (3) has for the dummy it replaces) is not re-established; closure of tfu_pre; the error
//   messages.  (The premise rd_listing_exact(result) of the closure of sched_ok / rs_ok in (1), (2) is gone: see CLOSURE.)
//   (3) WHEN the result is Ok beyond the three Err clauses (inherited from
//   spawn_vehicle_for_path, whose contract does not characterise it); that the callers establish the preconditions, in
//   particular some_depot_has_room (C17 is not connected to it); the magnitude clauses of sv_ok without hypotheses on the result.
//   Other slices stub these three functions with the contract text WITHOUT the closure clauses (a weaker, sound stub).
//   env/transition_spec.vs is included `-proved` (its lemma bodies are checked in its home slices: transition, sched_guard,
//   remove_segment, ...): none of them is specific to this slice, and one of them (lemma_three_opt_edge_sum) is seed-sensitive
//   in this slice's context.
#![feature(allocator_api)]
use vstd::prelude::*;
use std::ops::Add;
use std::ops::Sub;
use std::collections::{BTreeMap, HashMap};
use std::sync::Arc;
//@include env/display_time.rs
//@include env/display_model.rs
impl std::fmt::Display for VehicleTypeIdx { fn fmt(&self, _f: &mut std::fmt::Formatter) -> std::fmt::Result { Ok(()) } }
impl std::fmt::Debug for NodeIdx { fn fmt(&self, _f: &mut std::fmt::Formatter) -> std::fmt::Result { Ok(()) } }
verus! {
//@include env/std_specs.vs
//@include env/seqiter.vs
//@include env/time_types.vs
//@include-trusted env/time_ops.vs
//@include env/model_types.vs
//@include env/broadcast_model.vs
//@include env/model_network_types.vs
//@include env/model_spec.vs
//@include-trusted env/model_fns.vs
//@include env/solution_types.vs
//@include env/tour_spec.vs
//@include env/sums.vs
//@include-trusted env/dist_ops.vs
//@include env/vsum_impls.vs
//@include env/cache_spec.vs
//@include-proved env/cache_lemmas.vs

pub mod tr {
use super::*;
use vstd::prelude::*;
use self::im::HashMap;
use self::im_set::HashSet;
//@include env/im_shim.vs

//@item solution/src/transition.rs type CycleIdx : plain
//@end
//@item solution/src/transition/transition_cycle.rs struct TransitionCycle : plain
//@drop-derive Clone
//@end
impl Clone for TransitionCycle {
    #[verifier::external_body]
    fn clone(&self) -> (r: Self)
        ensures r == *self
    { unimplemented!() }
}
//@item solution/src/transition.rs struct Transition : plain
//@end
//@include-proved env/transition_spec.vs
//@include env/schedule_shim.vs
//@include env/sched_guard_shim.vs
//@include env/spawn_vehicle_shim.vs
//@include env/dummy_ops_shim.vs

// ---- small functions verified here (verbatim bodies; contract text as in the slices named) ------------------
//@item model/src/base_types.rs VehicleIdx::dummy_from
//@retname r
//@sig
    ensures r == VehicleIdx::Dummy(idx),
//@end
// text as in slices/sched_guard.vs / remove_segment.vs
//@item solution/src/schedule.rs Schedule::is_vehicle
//@retname r
//@sig
    ensures r == self.vehicles@.contains_key(vehicle),
//@end
// text as in slices/depot_usage.vs
//@item solution/src/schedule.rs Schedule::is_dummy
//@retname r
//@sig
    ensures r == self.sp_is_dummy(vehicle),
//@end
// text as in slices/depot_usage.vs
//@item solution/src/tour.rs Tour::first_node
//@retname r
//@sig
    requires self.nodes@.len() >= 1,
    ensures r == self.nodes@[0],
//@end
//@item solution/src/tour.rs Tour::last_node
//@retname r
//@sig
    requires self.nodes@.len() >= 1,
    ensures r == self.nodes@[self.nodes@.len() - 1],
//@end
//@item solution/src/tour.rs Tour::costs
//@retname r
//@sig
    ensures r == self.costs,
//@end
//@item solution/src/schedule.rs Schedule::new
//@retname r
//@sig
    ensures
        r.vehicles == vehicles, r.tours == tours, r.next_period_transitions == next_period_transitions,
        r.train_formations == train_formations, r.depot_usage == depot_usage, r.dummy_tours == dummy_tours,
        r.vehicle_counter == vehicle_counter, r.vehicle_ids_grouped_and_sorted == vehicle_ids_grouped_and_sorted,
        r.dummy_ids_sorted == dummy_ids_sorted, r.unserved_passengers == unserved_passengers,
        r.maintenance_violation == maintenance_violation, r.costs == costs, r.network == network,
//@end

// ---- model / Tour / Path: trusted stubs (contract text copied from the slice that verifies the body) --------
// verified in slice sched_guard (and spawn_vehicle)
//@item model/src/network.rs Network::compatible_with_vehicle_type : trusted
//@retname r
//@sig
    requires self.has(node),
    ensures r == self.sp_compatible(node, vehicle_type), // @obl C01.compatible_with_vehicle_type.not_a_trip_of_another_type
//@end
// verified in slice sched_guard
//@item solution/src/schedule.rs Schedule::vehicle_type_of : trusted
//@retname r
//@sig
    ensures
        self.vehicles@.contains_key(vehicle) ==> r == Ok::<VehicleTypeIdx, String>(self.type_of(vehicle)),
        !self.vehicles@.contains_key(vehicle) ==> r is Err,
//@end
/// A-iter: `Tour::all_nodes_iter` yields the nodes of the tour in order (`self.nodes.iter().copied()`)
//@item solution/src/tour.rs Tour::all_nodes_iter : trusted
//@ret SeqIter<NodeIdx>
//@retname r
//@sig
    ensures r@ == self.nodes@,
//@end
// verified in slice tour_pos (env/tour_pos_fns.vs)
//@item solution/src/tour.rs Tour::sub_path : trusted
//@retname r
//@sig
    requires self.wf(), self.network.has(segment.start), self.network.has(segment.end), tour_len_ok(self.nodes@),
        // "A segment is a pair of non-depot node ids": at least not one depot taken alone
        !(self.network.sp_node(segment.start).sp_is_depot() && segment.start == segment.end),
    ensures
        // C12: "extracting a sub-path of an existing segment always succeeds"
        forall|i: int, j: int| 0 <= i <= j < self.len() && #[trigger] self.nodes@[i] == segment.start && #[trigger] self.nodes@[j] == segment.end
            && !all_depots(&self.network, self.nodes@.subrange(i, j + 1))
            ==> r is Ok && r.unwrap().node_sequence@ == self.nodes@.subrange(i, j + 1), // @obl C12.sub_path.always_succeeds
        r is Ok ==> exists|i: int, j: int| 0 <= i <= j < self.len() && self.nodes@[i] == segment.start && self.nodes@[j] == segment.end
            && r.unwrap().node_sequence@ == #[trigger] self.nodes@.subrange(i, j + 1),
//@end
// verified in slice remove_segment.  Nothing is claimed about the dummy tour being connected (A-path / D9)
//@item solution/src/tour.rs Tour::new_dummy : trusted
//@retname r
//@sig
    requires network.wf(), all_in_net(&network, path.node_sequence@), len_ok(path.node_sequence@),
    ensures
        // "Dummy tour needs to have at least one service nodes."
        r is Ok <==> has_service(&network, path.node_sequence@), // @obl C13.new_dummy.ok_iff_some_service_trip
        // C13: "removed service trips are handed back": exactly the service trips of the path, in order
        r is Ok ==> r->Ok_0.nodes@ == svc_filter(&network, path.node_sequence@) && r->Ok_0.is_dummy && r->Ok_0.network == network, // @obl C13.new_dummy.exactly_the_service_trips_in_order
        r is Ok ==> r->Ok_0.caches_ok(), // @obl C09.new_dummy.caches
//@end

// ---- Schedule: trusted stubs ----------------------------------------------------------------------------
// verified in slice remove_segment
//@item solution/src/schedule/modifications.rs Schedule::add_dummy_tour : trusted
//@sig
    requires
        // `binary_search` is meaningful on a sorted list only
        sorted_cmp(old(dummy_ids_sorted)@),
    ensures
        final(dummy_tours)@ == old(dummy_tours)@.insert(new_dummy_idx, new_dummy_tour), // @obl C13.add_dummy_tour.tour_stored_under_id
        ids_gain(old(dummy_ids_sorted)@, final(dummy_ids_sorted)@, new_dummy_idx), // @obl C13.add_dummy_tour.id_list_gains_exactly_id
        sorted_cmp(final(dummy_ids_sorted)@), // @obl C13.add_dummy_tour.id_list_stays_sorted
        // CLOSURE: the only schedule invariant among the preconditions (the id list is sorted) holds again
        sorted_cmp(final(dummy_ids_sorted)@), // @obl C10.add_dummy_tour.result_satisfies_the_schedule_invariants_again
//@end
// verified in slice train_formation_update; contract text copied from there (R12: the parameter
// `moved_nodes: impl Iterator<Item = NodeIdx>` is retyped to the shim iterator SeqIter<NodeIdx>)
//@item solution/src/schedule/modifications.rs Schedule::update_train_formation : trusted
//@param-type moved_nodes SeqIter<NodeIdx>
//@retname r
//@sig
    requires
        self.tfu_pre(old(train_formations)@, *old(unserved_passengers), provider, receiver_vehicle, moved_nodes@),
    ensures
        // C13: "Each schedule modification has its documented effect and nothing else … formations elsewhere … stay untouched"
        r is Ok ==> self.formations_elsewhere_untouched(moved_nodes@, old(train_formations)@, final(train_formations)@), // @obl C13.update_train_formation.formations_elsewhere_untouched
        // C13: "In a formation a replacing vehicle takes the replaced one's position, additions go to the tail and
        // removals keep the order": every moved non-depot node gets the replacement of its OLD formation
        r is Ok ==> self.moved_get_replacement(moved_nodes@, old(train_formations)@, final(train_formations)@, provider, receiver_vehicle), // @obl C13.update_train_formation.moved_nodes_get_the_replacement
        // C02 / C10: "formation, track and depot limits hold"
        r is Ok ==> self.grown_within_limits(moved_nodes@, final(train_formations)@, provider, receiver_vehicle), // @obl C02.update_train_formation.grown_formations_within_limits
        // C09: "cached aggregates equal recomputation": the delta is exact
        r is Ok ==> final(unserved_passengers).0 == old(unserved_passengers).0
            - self.un_sum(old(train_formations)@, provider, receiver_vehicle, moved_nodes@, moved_nodes@.len() as int, false, 0)
            + self.un_sum(old(train_formations)@, provider, receiver_vehicle, moved_nodes@, moved_nodes@.len() as int, true, 0)
          && final(unserved_passengers).1 == old(unserved_passengers).1
            - self.un_sum(old(train_formations)@, provider, receiver_vehicle, moved_nodes@, moved_nodes@.len() as int, false, 1)
            + self.un_sum(old(train_formations)@, provider, receiver_vehicle, moved_nodes@, moved_nodes@.len() as int, true, 1), // @obl C09.update_train_formation.unserved_passengers_delta_exact
        // the modification is refused iff the replacement fails for some moved non-depot node
        r is Ok <==> self.all_ok(old(train_formations)@, provider, receiver_vehicle, moved_nodes@, moved_nodes@.len() as int), // @obl C13.update_train_formation.refused_iff_a_replacement_fails
//@end
// verified in slice depot_usage; contract text copied from there
//@item solution/src/schedule/modifications.rs Schedule::update_depot_usage : trusted
//@sig
    requires
        // part of C10 for the old schedule and for the new maps: a vehicle is stored under its own id, a
        // real vehicle has a real tour, and an id keeps its vehicle type
        self.sp_is_vehicle(vehicle_idx) ==> self.vehicles@[vehicle_idx].idx == vehicle_idx && self.real_tour_ok(vehicle_idx),
        vehicles@.contains_key(vehicle_idx) ==> vehicles@[vehicle_idx].idx == vehicle_idx,
        vehicles@.contains_key(vehicle_idx) && tours@.contains_key(vehicle_idx) ==> tour_of_net(&self.network, &tours@[vehicle_idx]),
        vehicles@.contains_key(vehicle_idx) && self.sp_is_vehicle(vehicle_idx) ==>
            vehicles@[vehicle_idx].vehicle_type.idx == self.vehicles@[vehicle_idx].vehicle_type.idx,
        // C09 before the step: the table is exact for this vehicle in the OLD schedule (`self`); in
        // particular this bookkeeping step runs once per vehicle and modification
        usage_exact_for(old(depot_usage)@, &self.network, self.vehicles@, self.tours@, vehicle_idx),
    ensures
        usage_exact_for(final(depot_usage)@, &self.network, vehicles@, tours@, vehicle_idx), // @obl C09.depot_usage.exact_for_vehicle_in_new_schedule
        usage_same_except(old(depot_usage)@, final(depot_usage)@, vehicle_idx), // @obl C09.depot_usage.other_vehicles_untouched
//@end
// verified in slice sched_guard; contract text copied from there
//@item solution/src/schedule/modifications.rs Schedule::update_transitions_and_violation_fast : trusted
//@sig
    requires
        // the old schedule is consistent (C15, C10, C09), no real vehicle is listed twice, every listed real
        // vehicle is an old and / or a new vehicle with an admissible new tour, magnitudes: see upd_pre
        self.upd_pre(old(transitions)@, *old(maintenance_violation) as int, changed_vehicles@, vehicles@, tours@),
        // (clause of upd_pre, repeated: the caller-side assumption the transition slice names) no real vehicle
        // is listed twice: update_vehicle / remove_vehicle read the previous tour of the vehicle from self.tours
        forall|i: int, j: int| 0 <= i < j < changed_vehicles@.len() && changed_vehicles@[i] is Vehicle
            ==> #[trigger] changed_vehicles@[i] != #[trigger] changed_vehicles@[j],
    ensures
        forall|vt: VehicleTypeIdx| old(transitions)@.contains_key(vt) <==> #[trigger] final(transitions)@.contains_key(vt),
        // C15 / C10: every transition is consistent with the NEW tours ...
        forall|vt: VehicleTypeIdx| #[trigger] final(transitions)@.contains_key(vt) ==> final(transitions)@[vt].wf(&self.network, tours@), // @obl C10.update_transitions.consistent_with_new_tours
        // ... and its cycles hold exactly the NEW vehicles of its type ("every real vehicle belongs to
        // exactly one rotation cycle of its type": one cycle by wf_cycles / wf_lookup)
        forall|vt: VehicleTypeIdx, v: VehicleIdx| #![trigger final(transitions)@[vt].has_vehicle(v)] final(transitions)@.contains_key(vt)
            ==> (final(transitions)@[vt].has_vehicle(v) <==> (vehicles@.contains_key(v) && vtype(vehicles@[v]) == vt)), // @obl C10.update_transitions.membership
        // C09: "the schedule's maintenance violation equals its from-scratch value"
        *final(maintenance_violation) == viol_sum(final(transitions)@, sched_types(self)), // @obl C09.update_transitions.violation_sum
        // the transitions of the other types are untouched
        forall|vt: VehicleTypeIdx| #[trigger] final(transitions)@.contains_key(vt) && !self.touches_type(vehicles@, changed_vehicles@, vt)
            ==> final(transitions)@[vt] == old(transitions)@[vt], // @obl C10.update_transitions.other_types_untouched
//@end
// verified in slice spawn_vehicle; contract text copied from there
//@item solution/src/schedule/modifications.rs Schedule::spawn_vehicle_for_path : trusted
//@retname r
//@sig
    requires
        self.sv_ok(),
        self.type_known(vehicle_type_idx),
        // `*nodes.first().unwrap()`; the nodes of the path are nodes of the network (`self.network.node(..)`); A-len
        path_as_vec@.len() >= 1, all_in_net(&self.network, path_as_vec@), tour_len_ok(path_as_vec@),
        // A-counter (magnitude)
        self.spawn_counter_ok(path_as_vec@),
        // what the choice of the depots needs (find_best_start_depot_for_spawning, slices/depot_choice.vs; not part of sv_ok):
        // A-index (how Network::new fills the list; not proved in slice network_new): the start depot node list holds StartDepot
        // nodes of the network whose depot is in the network's depot table
        self.network.start_depots_ok(),
        // only if a start depot has to be chosen (the path does not start with a depot):
        // magnitude: the counts of the schedule's usage table fit u32 (vehicle ids are 16 bit)
        !self.network.sp_node(path_as_vec@[0]).sp_is_depot() ==> self.usage_counts_small(vehicle_type_idx, self.depot_usage@),
        // C06 / C17: some start depot node of the network has room for the type w.r.t. the schedule's usage table ("There should
        // be at least the overflow depot available."; that the overflow depot's capacity suffices is C17, slices/network_new.vs,
        // D5; lemma_depot_without_type_limit_suffices: a start depot node whose depot lists the type without per-type limit and
        // where fewer vehicles start in total than its total capacity suffices).  Otherwise `expect` panics.
        !self.network.sp_node(path_as_vec@[0]).sp_is_depot() ==> self.some_depot_has_room(vehicle_type_idx, self.depot_usage@), // @obl C06.spawn_vehicle.expect_needs_a_depot_with_room
    ensures
        // C01 / C10 "a vehicle only serves service trips of the vehicle's type": "If some node on the path is not
        // compatible with the vehicle type an error is returned", and every node of the new vehicle's tour is compatible
        !all_compatible(&self.network, path_as_vec@, vehicle_type_idx) ==> r is Err, // @obl C01.spawn_vehicle.only_compatible_nodes
        // D11: ids are 16 bit and never reused: when all 2^16 have been handed out the spawn is refused (the unfixed code
        // wrapped around and overwrote the vehicle stored under id 0)
        self.vehicle_counter > 0xffff ==> r is Err, // @obl C13.spawn_vehicle.refuses_instead_of_reusing_an_id
        r is Ok ==> all_compatible(&self.network, r->Ok_0.0.tours@[r->Ok_0.1].nodes@, vehicle_type_idx), // @obl C01.spawn_vehicle.only_compatible_nodes
        // C13 "documented effect and nothing else"
        r is Ok ==> self.spawned(vehicle_type_idx, path_as_vec@, &r->Ok_0.0, r->Ok_0.1), // @obl C13.spawn_vehicle.adds_exactly_one_vehicle_with_the_given_path
        // ... no activity of the path is lost, unless the path starts with a depot and ends with an activity (see "NOT
        // covered / finding" in the header)
        r is Ok ==> activities_kept(&self.network, path_as_vec@, r->Ok_0.0.tours@[r->Ok_0.1].nodes@), // @obl C13.spawn_vehicle.adds_exactly_one_vehicle_with_the_given_path
        r is Ok ==> self.listed(vehicle_type_idx, &r->Ok_0.0, r->Ok_0.1), // @obl C13.spawn_vehicle.adds_exactly_one_vehicle_with_the_given_path
        // C02 "the number of vehicles starting there stays within the depot's total capacity and within the per-type capacity
        // (types not listed for a depot never start there)": if the path does not start with a depot, the new vehicle's start depot
        // node is a start depot node of the network whose depot lists the type and had room for one more vehicle of it, per
        // type and in total, in the OLD usage table ...
        r is Ok && !self.network.sp_node(path_as_vec@[0]).sp_is_depot()
            ==> self.network.start_depot_nodes@.contains(r->Ok_0.0.tours@[r->Ok_0.1].nodes@[0])
                && self.sp_can_spawn(r->Ok_0.0.tours@[r->Ok_0.1].nodes@[0], vehicle_type_idx, self.depot_usage@), // @obl C02.spawn_vehicle.start_depot_had_room
        // ... hence the depot's limits hold for the NEW usage table (lemma_spawn_keeps_depot_limits)
        r is Ok && !self.network.sp_node(path_as_vec@[0]).sp_is_depot()
            ==> self.depot_limits_hold(r->Ok_0.0.tours@[r->Ok_0.1].nodes@[0], vehicle_type_idx, r->Ok_0.0.depot_usage@), // @obl C02.spawn_vehicle.depot_limits_hold_after_the_spawn
        // C13 "the vehicle is spawned from the nearest availabe depot": ... and it is the nearest such node (dead-head distance
        // from the depot to the start location of the first node of the path; ties: the one listed first)
        r is Ok && !self.network.sp_node(path_as_vec@[0]).sp_is_depot()
            ==> self.best_start_depot(r->Ok_0.0.tours@[r->Ok_0.1].nodes@[0], vehicle_type_idx, self.network.sp_node(path_as_vec@[0]).sp_start_location(), self.depot_usage@), // @obl C13.spawn_vehicle.nearest_start_depot_with_room
        // C13 "Similarly, if path does not end with a depot the vehicle is spawned to the nearest depot (from the end location of
        // the last trip)": if the path neither starts nor ends with a depot, the tour ends at the nearest end depot node
        // (capacities ignored; ties: the one listed first)
        r is Ok && !self.network.sp_node(path_as_vec@[0]).sp_is_depot() && !self.network.sp_node(path_as_vec@[path_as_vec@.len() - 1]).sp_is_depot()
            ==> self.network.nearest_end_depot(r->Ok_0.0.tours@[r->Ok_0.1].nodes@[r->Ok_0.0.tours@[r->Ok_0.1].nodes@.len() - 1],
                    self.network.sp_node(path_as_vec@[path_as_vec@.len() - 1]).sp_end_location()), // @obl C13.spawn_vehicle.nearest_end_depot
        // C10 "listings sorted and match": if every type's id list held exactly the vehicles of the type, it still does
        r is Ok && self.listings_match() ==> r->Ok_0.0.listings_match(), // @obl C10.spawn_vehicle.listings_still_match
        r is Ok ==> self.formations_follow(&r->Ok_0.0, r->Ok_0.1), // @obl C13.spawn_vehicle.formations_follow_update_train_formation
        // C09 "cached aggregates equal recomputation"
        r is Ok ==> r->Ok_0.0.costs == self.costs + r->Ok_0.0.tours@[r->Ok_0.1].costs, // @obl C09.spawn_vehicle.costs_plus_tour_costs
        r is Ok ==> usage_exact_for(r->Ok_0.0.depot_usage@, &self.network, r->Ok_0.0.vehicles@, r->Ok_0.0.tours@, r->Ok_0.1)
            && usage_same_except(self.depot_usage@, r->Ok_0.0.depot_usage@, r->Ok_0.1)
            && usage_exact(r->Ok_0.0.depot_usage@, &self.network, r->Ok_0.0.vehicles@, r->Ok_0.0.tours@), // @obl C09.spawn_vehicle.depot_usage_exact
        // C15 / C10 / C09: rotation cycles and maintenance violation
        r is Ok ==> self.transitions_follow(vehicle_type_idx, &r->Ok_0.0), // @obl C10.spawn_vehicle.transitions_follow_new_tours
        // ---- CLOSURE (C10 "after any sequence of schedule modifications", C09 / C11 "for every reachable schedule"): the result
        // satisfies the schedule-invariant bundle sv_ok() of the precondition AGAIN, conjunct by conjunct (spcl_lemma_closure,
        // env/spawn_vehicle_shim.vs).  Instance validity: the network is the same
        r is Ok ==> r->Ok_0.0.network.wf() && depot_lists_ok(&r->Ok_0.0.network), // @obl C10.spawn_vehicle.result_satisfies_the_schedule_invariants_again
        // ids / listings: vehicles under their own `Vehicle` id below the counter, with a tour; dummies under `Dummy` ids; id lists sorted
        r is Ok ==> r->Ok_0.0.sv_ids_ok(), // @obl C10.spawn_vehicle.result_satisfies_the_schedule_invariants_again
        // formations: every activity has an entry; the instance clause (A-types); C09: the cached unserved-passengers pair covers
        // every duplicate-free list of nodes w.r.t. the NEW table (re-established from the clause itself and the exact delta)
        r is Ok ==> r->Ok_0.0.spcl_forms_cover_activities() && r->Ok_0.0.spcl_trips_typed() && r->Ok_0.0.spcl_unserved_covers(), // @obl C10.spawn_vehicle.result_satisfies_the_schedule_invariants_again
        // formations, MAGNITUDE clauses (at most 2^17 vehicles per formation; the u32 capacity / seat sums fit with one more vehicle):
        // NOT invariants of the operation (every formation along the new tour grows by one vehicle, and sv_ok does not relate the
        // length of a formation to the number of vehicles); they hold again under the weakest hypothesis on the RESULT: the clause
        // itself for the formations that grew (the activities of the new tour) -- everywhere else it is inherited
        r is Ok && r->Ok_0.0.spcl_grown_len_small(r->Ok_0.0.tours@[r->Ok_0.1].nodes@) ==> r->Ok_0.0.spcl_forms_len_small(), // @obl C10.spawn_vehicle.result_satisfies_the_schedule_invariants_again
        r is Ok && r->Ok_0.0.spcl_grown_sums_fit(r->Ok_0.0.tours@[r->Ok_0.1].nodes@) ==> r->Ok_0.0.spcl_forms_sums_fit(), // @obl C10.spawn_vehicle.result_satisfies_the_schedule_invariants_again
        r is Ok && r->Ok_0.0.spcl_grown_len_small(r->Ok_0.0.tours@[r->Ok_0.1].nodes@) && r->Ok_0.0.spcl_grown_sums_fit(r->Ok_0.0.tours@[r->Ok_0.1].nodes@)
            ==> r->Ok_0.0.sv_formations_ok(), // @obl C10.spawn_vehicle.result_satisfies_the_schedule_invariants_again
        // rotation cycles: every clause of transitions_ok, INCLUDING its magnitude clause (fewer than 2^17 vehicles in the cycles:
        // they hold exactly the vehicles, and ids are 16 bit)
        r is Ok ==> r->Ok_0.0.transitions_ok(), // @obl C10.spawn_vehicle.result_satisfies_the_schedule_invariants_again
        // depot usage: exact w.r.t. the result's own network
        r is Ok ==> usage_exact(r->Ok_0.0.depot_usage@, &r->Ok_0.0.network, r->Ok_0.0.vehicles@, r->Ok_0.0.tours@), // @obl C10.spawn_vehicle.result_satisfies_the_schedule_invariants_again
        // the bundle.  `costs <= 2^61` is a magnitude clause, too, and not an invariant (costs grow by the costs of the new tour):
        // it is a hypothesis on the result
        r is Ok && r->Ok_0.0.spcl_grown_len_small(r->Ok_0.0.tours@[r->Ok_0.1].nodes@) && r->Ok_0.0.spcl_grown_sums_fit(r->Ok_0.0.tours@[r->Ok_0.1].nodes@)
            && r->Ok_0.0.costs <= sched_cost_bound() ==> r->Ok_0.0.sv_ok(), // @obl C10.spawn_vehicle.result_satisfies_the_schedule_invariants_again
        // the preconditions outside sv_ok that are not about the path: a known vehicle type stays known; A-index for the start depots
        r is Ok ==> forall|t: VehicleTypeIdx| self.type_known(t) ==> #[trigger] r->Ok_0.0.type_known(t), // @obl C10.spawn_vehicle.result_satisfies_the_schedule_invariants_again
        r is Ok ==> r->Ok_0.0.network.start_depots_ok(), // @obl C10.spawn_vehicle.result_satisfies_the_schedule_invariants_again
//@end

// D11 (fixed in /repo): the index of the next vehicle or dummy; refuses when all 2^16 indices have been handed out.
// `//@item?`: on a tree without this function (the unfixed code casts `self.vehicle_counter as Idx`) the item is skipped
// and the obligations of replace_vehicle_by_dummy that need a fresh id fail.
//@item? solution/src/schedule/modifications.rs Schedule::next_free_idx
//@retname r
//@fmt-nonempty
//@sig
    ensures
        vehicle_counter <= 0xffff ==> r == Ok::<Idx, String>(vehicle_counter as u16),
        vehicle_counter > 0xffff ==> r is Err, // @obl C13.next_free_idx.refuses_when_all_indices_are_used
//@end

// ---- (1) the whole vehicle is replaced by a dummy tour -----------------------------------------------------
//@item solution/src/schedule/modifications.rs Schedule::replace_vehicle_by_dummy
//@retname r
//@sig
    requires
        self.rs_ok(),
        // C10 listings, as far as the body needs them (`[&vehicle_type_id]`, `binary_search(..).unwrap()`)
        self.vehicles@.contains_key(vehicle_idx) ==> self.listed_ok(vehicle_idx),
        // caller-side: the precondition of the formation bookkeeping for the nodes of the tour (u32 magnitudes of the
        // formations' capacities, the trips' vehicle types are types of the network, and C09 for the
        // unserved-passenger pair: it covers the tour's contribution) -- not derived from rs_ok
        self.vehicles@.contains_key(vehicle_idx) ==> self.tfu_pre(self.train_formations@, self.unserved_passengers,
            Some(vehicle_idx), None::<Vehicle>, self.tours@[vehicle_idx].nodes@),
    ensures
        // "# Errors: If the vehicle is not a real vehicle an error is returned." -- and in no other case ...
        !self.vehicles@.contains_key(vehicle_idx) ==> r is Err, // @obl C13.replace_by_dummy.err_iff_not_a_real_vehicle
        self.vehicles@.contains_key(vehicle_idx) && self.rd_id_left(vehicle_idx) ==> r is Ok, // @obl C13.replace_by_dummy.err_iff_not_a_real_vehicle
        // ... but D11: ids are 16 bit and never reused: when all 2^16 have been handed out and the trips of the tour need a
        // new dummy tour, the modification is refused (the unfixed code wrapped around and overwrote the tour under id 0)
        self.vehicles@.contains_key(vehicle_idx) && !self.rd_id_left(vehicle_idx) ==> r is Err, // @obl C13.replace_by_dummy.refuses_instead_of_reusing_an_id
        // C13 "a vehicle left without activities disappears … service trips are handed back (… in a new dummy tour)"
        r is Ok ==> self.vehicle_gone(vehicle_idx, &r->Ok_0), // @obl C13.replace_by_dummy.vehicle_disappears_trips_go_to_one_new_dummy
        r is Ok && self.needs_dummy(vehicle_idx) ==> self.trips_in_new_dummy(vehicle_idx, &r->Ok_0), // @obl C13.replace_by_dummy.vehicle_disappears_trips_go_to_one_new_dummy
        r is Ok && !self.needs_dummy(vehicle_idx) ==> self.no_new_dummy(&r->Ok_0), // @obl C13.replace_by_dummy.vehicle_disappears_trips_go_to_one_new_dummy
        // C13 "all other vehicles' tours … stay untouched"
        r is Ok ==> self.others_untouched(vehicle_idx, &r->Ok_0), // @obl C13.replace_by_dummy.everything_else_untouched
        // C13 "formations elsewhere … stay untouched": the vehicle leaves the formation of every activity of its tour
        r is Ok ==> self.rd_formations_follow(vehicle_idx, &r->Ok_0), // @obl C13.replace_by_dummy.formations_follow_update_train_formation
        // C09 "cached aggregates equal recomputation"
        r is Ok ==> self.rd_unserved_follow(vehicle_idx, &r->Ok_0), // @obl C09.replace_by_dummy.unserved_passengers_delta_exact
        r is Ok ==> r->Ok_0.costs == self.costs - self.tours@[vehicle_idx].costs, // @obl C09.replace_by_dummy.costs_minus_tour_costs
        r is Ok ==> usage_exact_for(r->Ok_0.depot_usage@, &self.network, r->Ok_0.vehicles@, r->Ok_0.tours@, vehicle_idx)
            && usage_same_except(self.depot_usage@, r->Ok_0.depot_usage@, vehicle_idx)
            && usage_exact(r->Ok_0.depot_usage@, &self.network, r->Ok_0.vehicles@, r->Ok_0.tours@), // @obl C09.replace_by_dummy.depot_usage_exact
        // C15 / C10 / C09: rotation cycles and maintenance violation
        r is Ok ==> self.rd_transitions_follow(vehicle_idx, &r->Ok_0), // @obl C10.replace_by_dummy.transitions_follow
        // C10: the ids stay valid (in particular every dummy id is below the counter: the next id is fresh again)
        r is Ok ==> r->Ok_0.ids_ok(), // @obl C10.replace_by_dummy.ids_stay_valid
        // ---- CLOSURE (C10 / C09 induction step): the result satisfies the schedule invariants of the precondition (rs_ok) again,
        // conjunct by conjunct (rd_closed, env/dummy_ops_shim.vs).  ids_ok: the line above; usage_exact: C09.replace_by_dummy.
        // depot_usage_exact above, repeated here w.r.t. the result's own network.
        r is Ok ==> usage_exact(r->Ok_0.depot_usage@, &r->Ok_0.network, r->Ok_0.vehicles@, r->Ok_0.tours@), // @obl C10.replace_vehicle_by_dummy.result_satisfies_the_schedule_invariants_again
        // formations: every activity has a formation, which lists the vehicles whose tours contain the node
        r is Ok ==> r->Ok_0.formations_ok(), // @obl C10.replace_vehicle_by_dummy.result_satisfies_the_schedule_invariants_again
        // transitions: one transition per type, consistent with the tours, holding exactly the vehicles of the type, the violation
        // is their sum; the magnitude clause (fewer than 2^17 vehicles in the cycles) by counting: ids are 16 bit
        r is Ok ==> r->Ok_0.transitions_ok(), // @obl C10.replace_vehicle_by_dummy.result_satisfies_the_schedule_invariants_again
        // sched_ok (network, the listing sched_vehicles(result) is duplicate-free and lists exactly the vehicles with a tour --
        // rd_listing_exact, NO LONGER a premise: the listing is defined as the concatenation of the grouped id lists, and exactly one
        // occurrence of the id leaves the list of the vehicle's type --, number of vehicles, vehicle_ok for every vehicle, the cost figure
        // covers the tours' costs and stays below 2^61) and with it the whole bundle, unconditionally
        r is Ok ==> rd_listing_exact(&r->Ok_0), // @obl C10.replace_vehicle_by_dummy.result_satisfies_the_schedule_invariants_again
        r is Ok ==> r->Ok_0.sched_ok(), // @obl C10.replace_vehicle_by_dummy.result_satisfies_the_schedule_invariants_again
        r is Ok ==> r->Ok_0.rs_ok(), // @obl C10.replace_vehicle_by_dummy.result_satisfies_the_schedule_invariants_again
        // listings (the schedule-invariant reading of listed_ok: it holds for every vehicle): every other listed vehicle is still
        // listed; lists that held exactly the vehicles of their type (the one of v: once) still do
        r is Ok ==> forall|u: VehicleIdx| u != vehicle_idx && self.vehicles@.contains_key(u) && self.listed_ok(u) ==> #[trigger] r->Ok_0.listed_ok(u), // @obl C10.replace_vehicle_by_dummy.result_satisfies_the_schedule_invariants_again
        r is Ok && self.listings_match() && self.listing(self.type_of(vehicle_idx)).no_duplicates() ==> r->Ok_0.listings_match(), // @obl C10.replace_vehicle_by_dummy.result_satisfies_the_schedule_invariants_again
        // dummy listings (the schedule-invariant reading of the preconditions (2) / (3) have for a dummy: they hold for every dummy):
        // every dummy that was listed still is, and the new one is; every dummy tour that was a well-formed dummy tour of the network
        // still is (NOT shown for the NEW dummy tour: Tour::new_dummy's contract says nothing about connectedness, A-path / D9); a
        // list that held exactly the ids of the dummy tours, once each, still does
        r is Ok ==> forall|d2: VehicleIdx| self.dummy_listed_ok(d2) ==> #[trigger] r->Ok_0.dummy_listed_ok(d2), // @obl C10.replace_vehicle_by_dummy.result_satisfies_the_schedule_invariants_again
        r is Ok && self.needs_dummy(vehicle_idx) ==> r->Ok_0.dummy_listed_ok(self.next_dummy_id()), // @obl C10.replace_vehicle_by_dummy.result_satisfies_the_schedule_invariants_again
        r is Ok ==> forall|d2: VehicleIdx| self.dummy_tours@.contains_key(d2) && self.dummy_tour_ok(d2)
            ==> r->Ok_0.dummy_tours@.contains_key(d2) && #[trigger] r->Ok_0.dummy_tour_ok(d2), // @obl C10.replace_vehicle_by_dummy.result_satisfies_the_schedule_invariants_again
        r is Ok && self.dd_dummy_listing_exact() ==> r->Ok_0.dd_dummy_listing_exact(), // @obl C10.replace_vehicle_by_dummy.result_satisfies_the_schedule_invariants_again
//@first
        hide(Schedule::rs_ok);
        hide(Schedule::sched_ok);
        hide(Schedule::formations_ok);
        hide(Schedule::listings_match);
        hide(rd_listing_exact);
        hide(rd_effect);
        hide(Schedule::dummy_listed_ok);
        hide(Schedule::dummy_tour_ok);
        hide(Schedule::dd_dummy_listing_exact);
        hide(Schedule::transitions_ok);
        hide(Schedule::listed_ok);
        hide(Schedule::upd_pre);
        hide(Schedule::touches_type);
        hide(Schedule::tfu_pre);
        hide(Schedule::all_ok);
        hide(Schedule::formations_elsewhere_untouched);
        hide(Schedule::moved_get_replacement);
        hide(Schedule::grown_within_limits);
        hide(usage_exact);
        hide(usage_exact_for);
        hide(usage_same_except);
        hide(ids_valid);
        hide(tour_wf);
        hide(all_depots);
        hide(all_in_net);
        hide(len_ok);
        hide(has_service);
        hide(svc_filter);
        hide(ids_gain);
        hide(sorted_cmp);
        hide(bsearch_post);
        hide(Schedule::vehicle_gone_c);
        hide(Schedule::trips_in_new_dummy_c);
        hide(Schedule::others_untouched_c);
        hide(Schedule::rd_formations_follow_c);
        hide(Schedule::rd_transitions_follow_c);
        let ghost v = vehicle_idx;
        let ghost t0 = self.tours@[vehicle_idx];
        let ghost ty = self.type_of(vehicle_idx);
        let ghost l0 = self.listing(ty);
        let ghost mut nd: Option<Tour> = None;
        proof { if self.vehicles@.contains_key(v) { lemma_rd_setup(self, v); } }
//@after "let position"
        let ghost pos = position as int;
//@after "self.update_train_formation"
        proof {
            // (the lemmas are guarded: a wrong argument shows up at the tagged postconditions, not at a lemma's precondition)
            if self.formations_elsewhere_untouched(t0.nodes@, self.train_formations@, train_formations@)
                && self.moved_get_replacement(t0.nodes@, self.train_formations@, train_formations@, Some(v), None::<Vehicle>) {
                lemma_rd_formations(self, v, train_formations@); // @obl C13.replace_by_dummy.formations_follow_update_train_formation
            }
        }
//@before "self.add_dummy_tour"
            proof { nd = Some(dummy_tour); }
//@before "self.update_transitions_and_violation_fast"
        proof {
            if vehicles@ == self.vehicles@.remove(v) && tours@ == self.tours@.remove(v) {
                lemma_rd_upd_pre(self, v, vehicles@, tours@);
            }
        }
//@before "Ok(Schedule::new("
        proof {
            let g1 = vehicle_ids_grouped_and_sorted@;
            let added = self.needs_dummy(v);
            if vehicles@ == self.vehicles@.remove(v) && tours@ == self.tours@.remove(v) && g1.contains_key(ty) && g1[ty]@ == l0.remove(pos) {
                lemma_rd_gone(self, v, vehicles@, tours@, g1, pos); // @obl C13.replace_by_dummy.vehicle_disappears_trips_go_to_one_new_dummy
            }
            if added && nd is Some && self.vehicle_counter <= 0xffff && dummy_tours@ == self.dummy_tours@.insert(self.next_dummy_id(), nd.unwrap())
                && ids_gain(self.dummy_ids_sorted@, dummy_ids_sorted@, self.next_dummy_id()) && vehicle_counter == self.vehicle_counter + 1 {
                lemma_rd_trips(self, v, nd.unwrap(), dummy_tours@, dummy_ids_sorted@, vehicle_counter); // @obl C13.replace_by_dummy.vehicle_disappears_trips_go_to_one_new_dummy
            }
            if vehicles@ == self.vehicles@.remove(v) && tours@ == self.tours@.remove(v) && g1 == self.vehicle_ids_grouped_and_sorted@.insert(ty, g1[ty])
                && (added ==> self.vehicle_counter <= 0xffff && dummy_tours@ == self.dummy_tours@.insert(self.next_dummy_id(), dummy_tours@[self.next_dummy_id()]))
                && (!added ==> dummy_tours@ == self.dummy_tours@) {
                lemma_rd_others(self, v, vehicles@, tours@, g1, dummy_tours@, added); // @obl C13.replace_by_dummy.everything_else_untouched
            }
            // C09: the usage table was brought up to date for the vehicle that went and left alone for everybody else
            if usage_exact_for(depot_usage@, &self.network, vehicles@, tours@, v) && usage_same_except(self.depot_usage@, depot_usage@, v)
                && vehicles@ == self.vehicles@.remove(v) && tours@ == self.tours@.remove(v) {
                lemma_usage_exact_step(self.depot_usage@, depot_usage@, &self.network, self.vehicles@, self.tours@, vehicles@, tours@, v); // @obl C09.replace_by_dummy.depot_usage_exact
            }
            if vehicles@ == self.vehicles@.remove(v) && tours@ == self.tours@.remove(v) {
                lemma_rd_transitions(self, v, next_period_transitions@, maintenance_violation, vehicles@, tours@); // @obl C10.replace_by_dummy.transitions_follow
            }
            if rd_ids_step(self, v, vehicles@, tours@, dummy_tours@, dummy_ids_sorted@, vehicle_counter, added) {
                lemma_rd_ids_valid(self, v, vehicles@, tours@, dummy_tours@, dummy_ids_sorted@, vehicle_counter, added); // @obl C10.replace_by_dummy.ids_stay_valid
            }
            // CLOSURE: the schedule that is about to be built, as a ghost value; the effect clauses shown above hold for it, hence
            // (lemma_rd_closure) the invariants
            let ghost s1 = Schedule {
                vehicles: vehicles, tours: tours, next_period_transitions: next_period_transitions, train_formations: train_formations,
                depot_usage: depot_usage, dummy_tours: dummy_tours, vehicle_counter: vehicle_counter,
                vehicle_ids_grouped_and_sorted: vehicle_ids_grouped_and_sorted, dummy_ids_sorted: dummy_ids_sorted,
                unserved_passengers: unserved_passengers, maintenance_violation: maintenance_violation, costs: costs, network: self.network,
            };
            reveal(rd_effect);
            if rd_effect(self, v, &s1) {
                lemma_rd_closure(self, v, &s1); // @obl C10.replace_vehicle_by_dummy.result_satisfies_the_schedule_invariants_again
            }
        }
//@end

// ---- (2) a dummy tour is deleted -----------------------------------------------------------------------------
//@item solution/src/schedule/modifications.rs Schedule::delete_dummy
//@retname r
//@sig
    requires
        // C10 listings, as far as the body needs them (`binary_search(&dummy).unwrap()`)
        self.dummy_tours@.contains_key(dummy) ==> self.dummy_listed_ok(dummy),
    ensures
        // "Cannot delete vehicle {} from schedule. It is not a dummy vehicle."
        r is Err <==> !self.dummy_tours@.contains_key(dummy), // @obl C13.delete_dummy.err_iff_not_a_dummy
        // C13 "documented effect": the dummy tour and its id disappear, the list stays sorted
        r is Ok ==> self.dummy_gone(dummy, &r->Ok_0), // @obl C13.delete_dummy.dummy_tour_and_id_disappear
        // "… and nothing else"
        r is Ok ==> self.same_but_dummies(&r->Ok_0), // @obl C13.delete_dummy.nothing_else_changes
        // (the three clauses above in one: the Ok-postcondition as the composition in (3) and the closure lemmas name it)
        r is Ok ==> self.dummy_deleted(dummy, &r->Ok_0), // @obl C13.delete_dummy.dummy_tour_and_id_disappear
        // ---- CLOSURE (C10 / C09 induction step), conjunct by conjunct (dd_closed, env/dummy_ops_shim.vs).  The listing / id
        // invariants the operation touches: the list of dummy ids stays sorted; ids_ok again; every OTHER dummy that was listed
        // (dummy_listed_ok, the schedule-invariant reading: for every dummy) still is, and is still a well-formed dummy tour of the
        // network; a list that held exactly the ids of the dummy tours, once each, still does
        r is Ok ==> sorted_cmp(r->Ok_0.dummy_ids_sorted@), // @obl C10.delete_dummy.result_satisfies_the_schedule_invariants_again
        r is Ok && self.ids_ok() ==> r->Ok_0.ids_ok(), // @obl C10.delete_dummy.result_satisfies_the_schedule_invariants_again
        r is Ok ==> forall|d2: VehicleIdx| d2 != dummy && self.dummy_listed_ok(d2) ==> #[trigger] r->Ok_0.dummy_listed_ok(d2), // @obl C10.delete_dummy.result_satisfies_the_schedule_invariants_again
        r is Ok ==> forall|d2: VehicleIdx| d2 != dummy && self.dummy_tours@.contains_key(d2) && self.dummy_tour_ok(d2)
            ==> r->Ok_0.dummy_tours@.contains_key(d2) && #[trigger] r->Ok_0.dummy_tour_ok(d2), // @obl C10.delete_dummy.result_satisfies_the_schedule_invariants_again
        r is Ok && self.dd_dummy_listing_exact() ==> r->Ok_0.dd_dummy_listing_exact(), // @obl C10.delete_dummy.result_satisfies_the_schedule_invariants_again
        // everything else is unchanged (same_but_dummies), so every other invariant is INHERITED: formations, rotation cycles, depot
        // usage, vehicle listings, known types ...
        r is Ok && self.formations_ok() ==> r->Ok_0.formations_ok(), // @obl C10.delete_dummy.result_satisfies_the_schedule_invariants_again
        r is Ok && self.transitions_ok() ==> r->Ok_0.transitions_ok(), // @obl C10.delete_dummy.result_satisfies_the_schedule_invariants_again
        r is Ok && usage_exact(self.depot_usage@, &self.network, self.vehicles@, self.tours@)
            ==> usage_exact(r->Ok_0.depot_usage@, &r->Ok_0.network, r->Ok_0.vehicles@, r->Ok_0.tours@), // @obl C10.delete_dummy.result_satisfies_the_schedule_invariants_again
        r is Ok && self.listings_match() ==> r->Ok_0.listings_match(), // @obl C10.delete_dummy.result_satisfies_the_schedule_invariants_again
        r is Ok ==> forall|v: VehicleIdx| self.listed_ok(v) ==> #[trigger] r->Ok_0.listed_ok(v), // @obl C10.delete_dummy.result_satisfies_the_schedule_invariants_again
        r is Ok ==> forall|t: VehicleTypeIdx| self.type_known(t) ==> #[trigger] r->Ok_0.type_known(t), // @obl C10.delete_dummy.result_satisfies_the_schedule_invariants_again
        // ... and the two bundles: sv_ok (the precondition bundle of spawn_vehicle_for_path / (3)) and rs_ok (the one of
        // remove_segment / (1)); the latter unconditionally now: the listing sched_vehicles(result) is computed from components the
        // operation leaves alone (network, grouped id lists), so it is the listing of `self` and still exact (rd_listing_exact)
        r is Ok && self.sv_ok() ==> r->Ok_0.sv_ok(), // @obl C10.delete_dummy.result_satisfies_the_schedule_invariants_again
        r is Ok && self.rs_ok() ==> rd_listing_exact(&r->Ok_0) && r->Ok_0.rs_ok(), // @obl C10.delete_dummy.result_satisfies_the_schedule_invariants_again
//@first
        hide(Schedule::sv_ok);
        hide(Schedule::rs_ok);
        hide(Schedule::ids_ok);
        hide(Schedule::formations_ok);
        hide(Schedule::transitions_ok);
        hide(usage_exact);
        hide(Schedule::listings_match);
        hide(Schedule::listed_ok);
        hide(Schedule::type_known);
        hide(Schedule::dummy_tour_ok);
        hide(Schedule::dd_dummy_listing_exact);
        hide(rd_listing_exact);
        // CLOSURE: whatever schedule satisfies the Ok-postcondition (dummy_deleted) satisfies dd_closed
        proof { lemma_dd_closure(self, dummy); } // @obl C10.delete_dummy.result_satisfies_the_schedule_invariants_again
        let ghost ids0 = self.dummy_ids_sorted@;
        proof { if self.dummy_tours@.contains_key(dummy) { lemma_unlist(ids0, dummy); } }
//@end

// ---- (3) a dummy tour becomes the tour of a new vehicle ---------------------------------------------------------
//@item solution/src/schedule/modifications.rs Schedule::spawn_vehicle_to_replace_dummy_tour
//@viter
//@retname r
//@sig
    requires
        // the preconditions of spawn_vehicle_for_path (slices/spawn_vehicle.vs) ...
        self.sv_ok(),
        self.type_known(vehicle_type_idx),
        // ... instance validity, A-index (how Network::new fills the list; not proved in slice network_new): the start depot node
        // list holds StartDepot nodes of the network whose depot is in the network's depot table (not part of sv_ok)
        self.network.start_depots_ok(),
        // ... and for the dummy tour: C10 listings (delete_dummy), a well-formed dummy tour over the schedule's network,
        // A-len, A-counter (magnitude)
        self.dummy_tours@.contains_key(dummy_idx) ==> self.dummy_listed_ok(dummy_idx) && self.dummy_tour_ok(dummy_idx)
            && self.spawn_counter_ok(self.dummy_tours@[dummy_idx].nodes@),
        // ... C06 / C17 (schedule validity w.r.t. the instance's depots; NOT derivable from sv_ok): a start depot is chosen for the
        // new vehicle if the dummy tour does not start with a depot (a dummy tour holds service trips), so SOME start depot node
        // of the network must have room for one more vehicle of the type, per type and in total, w.r.t. the schedule's usage table --
        // otherwise `expect("There should be at least the overflow depot available.")` in find_best_start_depot_for_spawning
        // panics.  "At least the overflow depot": it lists every type without per-type limit, so fewer vehicles starting there
        // than its (computed: slices/network_new.vs, C17, D5) total capacity suffice (lemma_depot_without_type_limit_suffices).
        // (The third new precondition of spawn_vehicle_for_path, the magnitude usage_counts_small, IS derived from sv_ok:
        // lemma_usage_counts_small.)
        self.dummy_tours@.contains_key(dummy_idx) && !self.network.sp_node(self.dummy_tours@[dummy_idx].nodes@[0]).sp_is_depot()
            ==> self.some_depot_has_room(vehicle_type_idx, self.depot_usage@), // @obl C06.spawn_to_replace_dummy.expect_needs_a_depot_with_room
    ensures
        // "Cannot spawn vehicle to replace dummy tour {}. Dummy tour does not exist."
        !self.dummy_tours@.contains_key(dummy_idx) ==> r is Err, // @obl C13.spawn_to_replace_dummy.err_if_not_a_dummy
        // C01 / C10 "a vehicle only serves service trips of the vehicle's type": "Nodes are not compatible with vehicle type"
        self.dummy_tours@.contains_key(dummy_idx) && !all_compatible(&self.network, self.dummy_tours@[dummy_idx].nodes@, vehicle_type_idx) ==> r is Err, // @obl C01.spawn_to_replace_dummy.only_compatible_nodes
        // D11: ids are 16 bit and never reused: when all 2^16 have been handed out the spawn is refused
        self.vehicle_counter > 0xffff ==> r is Err, // @obl C13.spawn_to_replace_dummy.refuses_instead_of_reusing_an_id
        // C13: the composition -- the result is what spawn_vehicle_for_path(type, nodes of the dummy tour) yields on the
        // intermediate schedule `mid` = self without the dummy tour (delete_dummy's postcondition)
        r is Ok ==> exists|mid: Schedule| #[trigger] self.dummy_deleted(dummy_idx, &mid)
            && mid.spawn_pre(vehicle_type_idx, self.dummy_tours@[dummy_idx].nodes@)
            && mid.spawn_post(vehicle_type_idx, self.dummy_tours@[dummy_idx].nodes@, r), // @obl C13.spawn_to_replace_dummy.delete_dummy_then_spawn_vehicle_for_path
        // corollaries, stated directly: the dummy tour is gone, every other dummy tour is untouched; the old vehicles and tours
        // are untouched, ONE new vehicle of the type under the next id
        r is Ok ==> r->Ok_0.0.dummy_tours@ == self.dummy_tours@.remove(dummy_idx)
            && ids_lose(self.dummy_ids_sorted@, r->Ok_0.0.dummy_ids_sorted@, dummy_idx) && sorted_cmp(r->Ok_0.0.dummy_ids_sorted@), // @obl C13.spawn_to_replace_dummy.dummy_replaced_by_one_new_vehicle
        r is Ok ==> r->Ok_0.1 == self.next_vehicle_id() && !self.vehicles@.contains_key(r->Ok_0.1)
            && r->Ok_0.0.vehicles@ == self.vehicles@.insert(r->Ok_0.1, r->Ok_0.0.vehicles@[r->Ok_0.1])
            && r->Ok_0.0.tours@ == self.tours@.insert(r->Ok_0.1, r->Ok_0.0.tours@[r->Ok_0.1])
            && vtype(r->Ok_0.0.vehicles@[r->Ok_0.1]) == vehicle_type_idx
            && r->Ok_0.0.vehicle_counter == self.vehicle_counter + 1, // @obl C13.spawn_to_replace_dummy.dummy_replaced_by_one_new_vehicle
        // ... whose tour holds every trip of the dummy tour and only nodes compatible with its type (C01)
        r is Ok ==> activities_kept(&self.network, self.dummy_tours@[dummy_idx].nodes@, r->Ok_0.0.tours@[r->Ok_0.1].nodes@)
            && all_compatible(&self.network, r->Ok_0.0.tours@[r->Ok_0.1].nodes@, vehicle_type_idx), // @obl C01.spawn_to_replace_dummy.only_compatible_nodes
        // ---- CLOSURE (C10 / C09 induction step): the result satisfies the schedule invariants of the precondition (sv_ok) again,
        // conjunct by conjunct (sd_closed, env/dummy_ops_shim.vs): from the composition clause above, the closure of sv_ok under
        // delete_dummy (lemma_dd_sv_ok) and under spawn_vehicle_for_path (spcl_lemma_closure, env/spawn_vehicle_shim.vs).
        // instance validity: the network is the same
        r is Ok ==> r->Ok_0.0.network == self.network && r->Ok_0.0.network.wf() && depot_lists_ok(&r->Ok_0.0.network)
            && r->Ok_0.0.network.start_depots_ok(), // @obl C10.spawn_vehicle_to_replace_dummy_tour.result_satisfies_the_schedule_invariants_again
        // ids / listings sorted
        r is Ok ==> r->Ok_0.0.sv_ids_ok(), // @obl C10.spawn_vehicle_to_replace_dummy_tour.result_satisfies_the_schedule_invariants_again
        // formations (the five clauses of sv_formations_ok, named spcl_* in env/spawn_vehicle_shim.vs): every activity has a
        // formation, the trips' types are types of the network, C09: the cached unserved pair covers every duplicate-free node list
        r is Ok ==> r->Ok_0.0.spcl_forms_cover_activities() && r->Ok_0.0.spcl_trips_typed() && r->Ok_0.0.spcl_unserved_covers(), // @obl C10.spawn_vehicle_to_replace_dummy_tour.result_satisfies_the_schedule_invariants_again
        // ... the two MAGNITUDE clauses are not invariants of a spawn (the formations of the new tour's activities gain a vehicle):
        // they hold again under the weakest hypothesis on the RESULT -- the clause itself for the formations that grew
        r is Ok && r->Ok_0.0.spcl_grown_len_small(r->Ok_0.0.tours@[r->Ok_0.1].nodes@) ==> r->Ok_0.0.spcl_forms_len_small(), // @obl C10.spawn_vehicle_to_replace_dummy_tour.result_satisfies_the_schedule_invariants_again
        r is Ok && r->Ok_0.0.spcl_grown_sums_fit(r->Ok_0.0.tours@[r->Ok_0.1].nodes@) ==> r->Ok_0.0.spcl_forms_sums_fit(), // @obl C10.spawn_vehicle_to_replace_dummy_tour.result_satisfies_the_schedule_invariants_again
        // rotation cycles (the magnitude clause by counting: the cycles hold exactly the vehicles, ids are 16 bit), depot usage
        r is Ok ==> r->Ok_0.0.transitions_ok(), // @obl C10.spawn_vehicle_to_replace_dummy_tour.result_satisfies_the_schedule_invariants_again
        r is Ok ==> usage_exact(r->Ok_0.0.depot_usage@, &r->Ok_0.0.network, r->Ok_0.0.vehicles@, r->Ok_0.0.tours@), // @obl C10.spawn_vehicle_to_replace_dummy_tour.result_satisfies_the_schedule_invariants_again
        // the bundle: the cost figure grows by the new tour's costs, so `costs <= 2^61` is a hypothesis on the result, too
        r is Ok && r->Ok_0.0.spcl_grown_len_small(r->Ok_0.0.tours@[r->Ok_0.1].nodes@) && r->Ok_0.0.spcl_grown_sums_fit(r->Ok_0.0.tours@[r->Ok_0.1].nodes@)
            && r->Ok_0.0.costs <= sched_cost_bound() ==> r->Ok_0.0.sv_ok(), // @obl C10.spawn_vehicle_to_replace_dummy_tour.result_satisfies_the_schedule_invariants_again
        // the schedule-invariant readings of the other preconditions: known types stay known, matching listings still match, every
        // OTHER dummy is still listed / a well-formed dummy tour, an exact dummy listing stays exact
        r is Ok ==> forall|t: VehicleTypeIdx| self.type_known(t) ==> #[trigger] r->Ok_0.0.type_known(t), // @obl C10.spawn_vehicle_to_replace_dummy_tour.result_satisfies_the_schedule_invariants_again
        r is Ok && self.listings_match() ==> r->Ok_0.0.listings_match(), // @obl C10.spawn_vehicle_to_replace_dummy_tour.result_satisfies_the_schedule_invariants_again
        r is Ok ==> forall|u: VehicleIdx| self.vehicles@.contains_key(u) && self.listed_ok(u) ==> #[trigger] r->Ok_0.0.listed_ok(u), // @obl C10.spawn_vehicle_to_replace_dummy_tour.result_satisfies_the_schedule_invariants_again
        r is Ok ==> r->Ok_0.0.listed_ok(r->Ok_0.1), // @obl C10.spawn_vehicle_to_replace_dummy_tour.result_satisfies_the_schedule_invariants_again
        r is Ok ==> forall|d2: VehicleIdx| d2 != dummy_idx && self.dummy_listed_ok(d2) ==> #[trigger] r->Ok_0.0.dummy_listed_ok(d2), // @obl C10.spawn_vehicle_to_replace_dummy_tour.result_satisfies_the_schedule_invariants_again
        r is Ok ==> forall|d2: VehicleIdx| d2 != dummy_idx && self.dummy_tours@.contains_key(d2) && self.dummy_tour_ok(d2)
            ==> r->Ok_0.0.dummy_tours@.contains_key(d2) && #[trigger] r->Ok_0.0.dummy_tour_ok(d2), // @obl C10.spawn_vehicle_to_replace_dummy_tour.result_satisfies_the_schedule_invariants_again
        r is Ok && self.dd_dummy_listing_exact() ==> r->Ok_0.0.dd_dummy_listing_exact(), // @obl C10.spawn_vehicle_to_replace_dummy_tour.result_satisfies_the_schedule_invariants_again
//@closure any#0
    -> (b: bool) requires self.network.has(*n) ensures b == !self.network.sp_compatible(*n, vehicle_type_idx) /* @obl C01.spawn_to_replace_dummy.only_compatible_nodes */
//@first
        hide(Schedule::sv_ok);
        hide(Schedule::spcl_forms_cover_activities);
        hide(Schedule::spcl_trips_typed);
        hide(Schedule::spcl_unserved_covers);
        hide(Schedule::spcl_forms_len_small);
        hide(Schedule::spcl_forms_sums_fit);
        hide(Schedule::spcl_grown_len_small);
        hide(Schedule::spcl_grown_sums_fit);
        hide(Schedule::listings_match);
        hide(Schedule::listed_ok);
        hide(Schedule::dd_dummy_listing_exact);
        let ghost path = self.dummy_tours@[dummy_idx].nodes@;
//@after "let nodes"
        proof {
            assert(nodes@ == path);
            assert(all_in_net(&self.network, path));
        }
//@before "let intermediate_schedule"
        proof {
            // `any` returned false: every node of the dummy tour is compatible with the type
            assert forall|i: int| 0 <= i < path.len() implies self.network.sp_compatible(#[trigger] path[i], vehicle_type_idx) by {} // @obl C01.spawn_to_replace_dummy.only_compatible_nodes
        }
//@before "intermediate_schedule.spawn_vehicle_for_path"
        proof {
            if self.dummy_deleted(dummy_idx, &intermediate_schedule) {
                assert(self.spawn_pre(vehicle_type_idx, path)) by {
                    reveal(Schedule::sv_ok);
                    // magnitude: the counts of an exact usage table are at most the number of vehicles, at most 2^16
                    lemma_usage_counts_small(self, vehicle_type_idx);
                }
                lemma_spawn_pre_without_dummy(self, dummy_idx, &intermediate_schedule, vehicle_type_idx, path);
                assert(intermediate_schedule.sv_ok()) by { reveal(Schedule::sv_ok); }
                // CLOSURE: whatever the call below returns (its postcondition) satisfies sd_closed
                lemma_sd_closure(self, dummy_idx, &intermediate_schedule, vehicle_type_idx); // @obl C10.spawn_vehicle_to_replace_dummy_tour.result_satisfies_the_schedule_invariants_again
            }
        }
//@end

} // mod tr
} // verus!
fn main() {}
