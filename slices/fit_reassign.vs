// HEADER_PLACEHOLDER
#![feature(allocator_api)]
use vstd::prelude::*;
use std::ops::Add;
use std::ops::Sub;
use std::collections::{BTreeMap, HashMap};
use std::sync::Arc;
//@include env/display_time.rs
//@include env/display_model.rs
impl std::fmt::Display for Segment { fn fmt(&self, _f: &mut std::fmt::Formatter) -> std::fmt::Result { Ok(()) } }
verus! {
//@include env/std_specs.vs
//@include env/seqiter.vs
//@include env/time_types.vs
//@include-trusted env/time_ops.vs
//@include env/model_types.vs
//@include env/broadcast_model.vs
//@include env/model_network_types.vs
//@include env/model_spec.vs
//@include-trusted env/model_fns.vs
//@include env/solution_types.vs
//@include env/tour_spec.vs
//@include env/sums.vs
//@include-trusted env/dist_ops.vs
//@include env/vsum_impls.vs
//@include env/cache_spec.vs
//@include env/cache_lemmas.vs
//@include env/remove_lemmas.vs
//@include env/insert_lemmas.vs

pub mod tr {
use super::*;
use vstd::prelude::*;
use self::im::HashMap;
use self::im_set::HashSet;
//@include env/im_shim.vs
//@include env/depot_usage_shim.vs

//@item solution/src/transition.rs type CycleIdx : plain
//@end
//@item solution/src/transition/transition_cycle.rs struct TransitionCycle : plain
//@end
//@item solution/src/transition.rs struct Transition : plain
//@end
//@item solution/src/train_formation.rs struct TrainFormation : plain
//@end
//@item solution/src/schedule.rs type DepotUsage : plain
//@end
//@item solution/src/schedule.rs struct Schedule : plain
//@drop-derive Clone
//@end

pub mod trs {
use super::*;
use vstd::prelude::*;
//@include env/transition_spec.vs
} // mod trs
use self::trs::*;

//@include env/update_tours_shim.vs
//@include env/train_formation_update_shim.vs
//@include env/override_reassign_shim.vs
//@include env/fit_reassign_shim.vs

// verified here, text as in slices/remove_segment.vs / slices/override_reassign.vs
//@item solution/src/schedule.rs Schedule::new
//@retname r
//@sig
    ensures
        r.vehicles == vehicles, r.tours == tours, r.next_period_transitions == next_period_transitions,
        r.train_formations == train_formations, r.depot_usage == depot_usage, r.dummy_tours == dummy_tours,
        r.vehicle_counter == vehicle_counter, r.vehicle_ids_grouped_and_sorted == vehicle_ids_grouped_and_sorted,
        r.dummy_ids_sorted == dummy_ids_sorted, r.unserved_passengers == unserved_passengers,
        r.maintenance_violation == maintenance_violation, r.costs == costs, r.network == network,
//@end
//@item solution/src/schedule.rs Schedule::tour_of : trusted
//@retname r
//@sig
    ensures
        self.tours@.contains_key(vehicle) ==> r is Ok && *r->Ok_0 == self.tours@[vehicle],
        !self.tours@.contains_key(vehicle) && self.dummy_tours@.contains_key(vehicle) ==> r is Ok && *r->Ok_0 == self.dummy_tours@[vehicle],
        !self.tours@.contains_key(vehicle) && !self.dummy_tours@.contains_key(vehicle) ==> r is Err,
//@end
//@item solution/src/schedule/modifications.rs Schedule::check_receiver_type_compatibility : trusted
//@retname r
//@sig
    requires
        // what the callers guarantee (the two `unwrap`s): the provider has a tour, a well-formed tour of
        // the schedule's network, and the segment is a segment of that tour
        self.has_tour(provider),
        self.sp_tour_of(provider).wf(),
        *self.sp_tour_of(provider).network == *self.network,
        tour_len_ok(self.sp_tour_of(provider).nodes@),
        exists|i: int, j: int| #[trigger] Schedule::seg_at(&self.sp_tour_of(provider), segment, i, j)
            && !all_depots(&self.network, self.sp_tour_of(provider).nodes@.subrange(i, j + 1)),
    ensures
        // C01, type clause: the receiver is a real vehicle and the provider is a dummy or a vehicle of
        // another type: the guard only lets segments pass all of whose nodes the receiver's type may serve
        self.vehicles@.contains_key(receiver)
            && !(self.vehicles@.contains_key(provider) && self.type_of(provider) == self.type_of(receiver))
            && r
            ==> forall|i: int, j: int, p: int| #[trigger] Schedule::seg_at(&self.sp_tour_of(provider), segment, i, j) && i <= p <= j
                ==> self.network.sp_compatible(#[trigger] self.sp_tour_of(provider).nodes@[p], self.type_of(receiver)), // @obl C01.type_guard.true_only_if_compatible
//@end
//@item solution/src/schedule/modifications.rs Schedule::update_tours : trusted
//@param-type moved_nodes SeqIter<NodeIdx>
//@retname r
//@sig
    requires
        self.ut_pre(old(vehicles)@, old(tours)@, old(depot_usage)@, old(dummy_tours)@, old(vehicle_ids_grouped_and_sorted)@,
            old(dummy_ids_sorted)@, *old(costs), provider, new_tour_provider, receiver, new_tour_receiver),
        self.tfu_pre(old(train_formations)@, *old(unserved_passengers), provider, self.sp_receiver_vehicle(receiver), moved_nodes@),
    ensures
        final(vehicles)@ == self.vehicles_after(old(vehicles)@, provider, new_tour_provider), // @obl C13.update_tours.provider_and_receiver_tours_replaced_everything_else_untouched
        final(tours)@ == self.tours_after(old(tours)@, provider, new_tour_provider, receiver, new_tour_receiver), // @obl C13.update_tours.provider_and_receiver_tours_replaced_everything_else_untouched
        final(dummy_tours)@ == self.dummies_after(old(dummy_tours)@, provider, new_tour_provider, receiver, new_tour_receiver), // @obl C13.update_tours.provider_and_receiver_tours_replaced_everything_else_untouched
        self.lists_follow(old(vehicle_ids_grouped_and_sorted)@, final(vehicle_ids_grouped_and_sorted)@, old(dummy_ids_sorted)@, final(dummy_ids_sorted)@,
            provider, new_tour_provider), // @obl C13.update_tours.provider_and_receiver_tours_replaced_everything_else_untouched
        listings_ok(old(vehicles)@, old(dummy_tours)@, old(vehicle_ids_grouped_and_sorted)@, old(dummy_ids_sorted)@)
            ==> listings_ok(final(vehicles)@, final(dummy_tours)@, final(vehicle_ids_grouped_and_sorted)@, final(dummy_ids_sorted)@), // @obl C10.update_tours.listings_still_sorted_and_matching
        *final(costs) == *old(costs)
            - self.cost_out_provider(old(tours)@, provider) - self.cost_out_receiver(old(tours)@, receiver)
            + self.cost_in_provider(provider, new_tour_provider) + self.cost_in_receiver(receiver, new_tour_receiver), // @obl C09.update_tours.costs_delta_exact
        usage_exact_for(final(depot_usage)@, &self.network, final(vehicles)@, final(tours)@, receiver), // @obl C09.update_tours.depot_usage_exact_for_provider_and_receiver
        provider is Some ==> usage_exact_for(final(depot_usage)@, &self.network, final(vehicles)@, final(tours)@, provider.unwrap()), // @obl C09.update_tours.depot_usage_exact_for_provider_and_receiver
        usage_same_except_two(old(depot_usage)@, final(depot_usage)@, provider, receiver), // @obl C09.update_tours.depot_usage_exact_for_provider_and_receiver
        r is Ok ==> self.formations_elsewhere_untouched(moved_nodes@, old(train_formations)@, final(train_formations)@), // @obl C13.update_tours.formations_follow_update_train_formation
        r is Ok ==> self.moved_get_replacement(moved_nodes@, old(train_formations)@, final(train_formations)@, provider, self.sp_receiver_vehicle(receiver)), // @obl C13.update_tours.formations_follow_update_train_formation
        r is Ok ==> self.grown_within_limits(moved_nodes@, final(train_formations)@, provider, self.sp_receiver_vehicle(receiver)), // @obl C13.update_tours.formations_follow_update_train_formation
        r is Ok ==> final(unserved_passengers).0 == old(unserved_passengers).0
            - self.un_sum(old(train_formations)@, provider, self.sp_receiver_vehicle(receiver), moved_nodes@, moved_nodes@.len() as int, false, 0)
            + self.un_sum(old(train_formations)@, provider, self.sp_receiver_vehicle(receiver), moved_nodes@, moved_nodes@.len() as int, true, 0)
          && final(unserved_passengers).1 == old(unserved_passengers).1
            - self.un_sum(old(train_formations)@, provider, self.sp_receiver_vehicle(receiver), moved_nodes@, moved_nodes@.len() as int, false, 1)
            + self.un_sum(old(train_formations)@, provider, self.sp_receiver_vehicle(receiver), moved_nodes@, moved_nodes@.len() as int, true, 1), // @obl C13.update_tours.formations_follow_update_train_formation
        r is Ok <==> self.all_ok(old(train_formations)@, provider, self.sp_receiver_vehicle(receiver), moved_nodes@, moved_nodes@.len() as int), // @obl C13.update_tours.err_iff_update_train_formation_refuses
//@end
//@item solution/src/schedule/modifications.rs Schedule::update_transitions_and_violation_fast : trusted
//@sig
    requires
        // the old schedule is consistent (C15, C10, C09), no real vehicle is listed twice, every listed real
        // vehicle is an old and / or a new vehicle with an admissible new tour, magnitudes: see upd_pre
        self.upd_pre(old(transitions)@, *old(maintenance_violation) as int, changed_vehicles@, vehicles@, tours@),
        // (clause of upd_pre, repeated: the caller-side assumption the transition slice names) no real vehicle
        // is listed twice: update_vehicle / remove_vehicle read the previous tour of the vehicle from self.tours
        forall|i: int, j: int| 0 <= i < j < changed_vehicles@.len() && changed_vehicles@[i] is Vehicle
            ==> #[trigger] changed_vehicles@[i] != #[trigger] changed_vehicles@[j],
    ensures
        forall|vt: VehicleTypeIdx| old(transitions)@.contains_key(vt) <==> #[trigger] final(transitions)@.contains_key(vt),
        // C15 / C10: every transition is consistent with the NEW tours ...
        forall|vt: VehicleTypeIdx| #[trigger] final(transitions)@.contains_key(vt) ==> final(transitions)@[vt].wf(&self.network, tours@), // @obl C10.update_transitions.consistent_with_new_tours
        // ... and its cycles hold exactly the NEW vehicles of its type ("every real vehicle belongs to
        // exactly one rotation cycle of its type": one cycle by wf_cycles / wf_lookup)
        forall|vt: VehicleTypeIdx, v: VehicleIdx| #![trigger final(transitions)@[vt].has_vehicle(v)] final(transitions)@.contains_key(vt)
            ==> (final(transitions)@[vt].has_vehicle(v) <==> (vehicles@.contains_key(v) && vtype(vehicles@[v]) == vt)), // @obl C10.update_transitions.membership
        // C09: "the schedule's maintenance violation equals its from-scratch value"
        *final(maintenance_violation) == viol_sum(final(transitions)@, sched_types(self)), // @obl C09.update_transitions.violation_sum
        // the transitions of the other types are untouched
        forall|vt: VehicleTypeIdx| #[trigger] final(transitions)@.contains_key(vt) && !self.touches_type(vehicles@, changed_vehicles@, vt)
            ==> final(transitions)@[vt] == old(transitions)@[vt], // @obl C10.update_transitions.other_types_untouched
//@end
// verified in slice tour_pos (env/tour_pos_fns.vs)
//@item solution/src/tour.rs Tour::sub_path : trusted
//@retname r
//@sig
    requires self.wf(), self.network.has(segment.start), self.network.has(segment.end), tour_len_ok(self.nodes@),
        // "A segment is a pair of non-depot node ids": at least not one depot taken alone
        !(self.network.sp_node(segment.start).sp_is_depot() && segment.start == segment.end),
    ensures
        // C12: "extracting a sub-path of an existing segment always succeeds"
        forall|i: int, j: int| 0 <= i <= j < self.len() && #[trigger] self.nodes@[i] == segment.start && #[trigger] self.nodes@[j] == segment.end
            && !all_depots(&self.network, self.nodes@.subrange(i, j + 1))
            ==> r is Ok && r.unwrap().node_sequence@ == self.nodes@.subrange(i, j + 1), // @obl C12.sub_path.always_succeeds
        r is Ok ==> exists|i: int, j: int| 0 <= i <= j < self.len() && self.nodes@[i] == segment.start && self.nodes@[j] == segment.end
            && r.unwrap().node_sequence@ == #[trigger] self.nodes@.subrange(i, j + 1),
//@end

// ---- Schedule::fit_path_into_tour: STUB (Step 1); contract derived from C13, vocabulary in env/fit_reassign_shim.vs ----
//@item solution/src/schedule/modifications.rs Schedule::fit_path_into_tour : trusted
//@retname r
//@sig
    requires
        // "Assumes that path is a sub path of the tour of provider."; both tours are well-formed tours of the schedule's
        // network with exact caches (C01 / C10 / C09); A-len
        self.fit_pre(path.node_sequence@, provider, receiver),
    ensures
        // C13: "the provider loses exactly the moved nodes, the receiver gains … only the conflict-free ones without losing
        // any of its own (fit)"; "Returns: (new_tour_provider, new_tour_receiver, moved_nodes).  None for new_tour_provider
        // means there is no tour left."
        self.fit_outcome(path.node_sequence@, provider, receiver, r.0, r.1, r.2@), // @obl C13.fit_path_into_tour.provider_loses_receiver_gains_only_moved_nodes
//@end

// ---- the function under contract ------------------------------------------------------------------------------
//@item solution/src/schedule/modifications.rs Schedule::fit_reassign
//@viter
//@retname r
//@sig
    requires
        // schedule invariants (C10, C09, C15), provider != receiver, the segment is a segment of the provider's tour, A-len
        self.fr_pre(segment, provider, receiver),
        // caller-side: for every outcome the contract of fit_path_into_tour admits: the precondition of the formation update
        // (update_train_formation, see slices/train_formation_update.vs), u64 costs, small maintenance counters
        self.fr_pre_outcomes(segment, provider, receiver),
    ensures
        // (4) C01 / C10, type clause: "# Errors: If some node of the segment is not compatible with the receivers type an error
        // is returned": Ok only if every node of the offered segment -- hence every node the receiver gains -- may be served
        // by the receiver's type
        r is Ok ==> self.fr_compatible(segment, provider, receiver, tour_in(r->Ok_0.tours@, r->Ok_0.dummy_tours@, receiver)), // @obl C01.fit_reassign.refuses_incompatible_segment
        // `sub_path(segment)?`: Ok only if the segment is a segment of the provider's tour
        r is Ok ==> exists|i: int, j: int| #[trigger] Schedule::seg_at(&self.sp_tour_of(provider), segment, i, j), // @obl C13.fit_reassign.refuses_segment_outside_provider_tour
        // (1) C13: "the provider loses exactly the moved nodes, the receiver gains … only the conflict-free ones without losing
        // any of its own (fit) …, a vehicle left without activities disappears, … all other vehicles' tours … stay untouched"
        r is Ok ==> self.fr_tours_after(segment, provider, receiver, r->Ok_0.tours@, r->Ok_0.dummy_tours@), // @obl C13.fit_reassign.provider_loses_receiver_gains_only_moved_nodes
        r is Ok ==> self.fr_maps_after(provider, receiver, r->Ok_0.vehicles@, r->Ok_0.tours@, r->Ok_0.dummy_tours@), // @obl C13.fit_reassign.provider_loses_receiver_gains_only_moved_nodes
        r is Ok ==> self.lists_follow(self.vehicle_ids_grouped_and_sorted@, r->Ok_0.vehicle_ids_grouped_and_sorted@, self.dummy_ids_sorted@,
            r->Ok_0.dummy_ids_sorted@, Some(provider), tour_opt_in(r->Ok_0.tours@, r->Ok_0.dummy_tours@, provider)), // @obl C13.fit_reassign.provider_loses_receiver_gains_only_moved_nodes
        // no new dummy tour, no id is used up
        r is Ok ==> r->Ok_0.vehicle_counter == self.vehicle_counter && r->Ok_0.network == self.network, // @obl C13.fit_reassign.provider_loses_receiver_gains_only_moved_nodes
        // C10: "vehicle and dummy listings are sorted and match the stored tours"; the ids stay valid
        r is Ok ==> listings_ok(r->Ok_0.vehicles@, r->Ok_0.dummy_tours@, r->Ok_0.vehicle_ids_grouped_and_sorted@, r->Ok_0.dummy_ids_sorted@), // @obl C10.fit_reassign.listings_still_sorted_and_matching
        r is Ok ==> ids_valid(r->Ok_0.vehicles@, r->Ok_0.tours@, r->Ok_0.dummy_tours@, r->Ok_0.dummy_ids_sorted@, r->Ok_0.vehicle_counter), // @obl C10.fit_reassign.ids_stay_valid
        // (2) C10 / C03 / C13: formations, node by node
        r is Ok ==> self.fr_formations_elsewhere(provider, tour_opt_in(r->Ok_0.tours@, r->Ok_0.dummy_tours@, provider), r->Ok_0.train_formations@), // @obl C13.fit_reassign.formations_elsewhere_untouched
        r is Ok ==> self.fr_formations_moved(provider, receiver, tour_opt_in(r->Ok_0.tours@, r->Ok_0.dummy_tours@, provider), r->Ok_0.train_formations@), // @obl C10.fit_reassign.moved_nodes_provider_replaced_by_receiver
        // (3) C09: "cached aggregates equal recomputation"
        r is Ok ==> self.or_costs_after(provider, receiver, r->Ok_0.tours@, r->Ok_0.dummy_tours@, r->Ok_0.costs), // @obl C09.fit_reassign.costs_delta_exact
        r is Ok ==> usage_exact(r->Ok_0.depot_usage@, &self.network, r->Ok_0.vehicles@, r->Ok_0.tours@), // @obl C09.fit_reassign.depot_usage_exact
        r is Ok ==> self.fr_unserved_after(segment, provider, receiver, r->Ok_0.tours@, r->Ok_0.dummy_tours@, r->Ok_0.unserved_passengers), // @obl C09.fit_reassign.unserved_passengers_delta_exact
        r is Ok ==> self.or_transitions_after(provider, receiver, r->Ok_0.next_period_transitions@, r->Ok_0.maintenance_violation,
            r->Ok_0.vehicles@, r->Ok_0.tours@), // @obl C09.fit_reassign.maintenance_violation_exact
//@first
        // the big predicates stay folded in this body: the lemmas of env/fit_reassign_shim.vs unfold them
        hide(Schedule::fr_pre);
        hide(Schedule::fr_pre_outcomes);
        hide(Schedule::fr_fits);
        hide(Schedule::fit_pre);
        hide(Schedule::fit_outcome);
        hide(Schedule::ut_pre);
        hide(Schedule::tfu_pre);
        hide(Schedule::upd_pre);
        hide(Schedule::or_compatible);
        hide(Schedule::fr_compatible);
        hide(Schedule::fr_tours_after);
        hide(Schedule::fr_maps_after);
        hide(Schedule::fr_formations_elsewhere);
        hide(Schedule::fr_formations_moved);
        hide(Schedule::fr_unserved_after);
        hide(Schedule::or_costs_after);
        hide(Schedule::lists_follow);
        hide(Schedule::vehicles_after);
        hide(Schedule::tours_after);
        hide(Schedule::dummies_after);
        hide(listings_ok);
        hide(ids_valid);
        hide(usage_exact);
        hide(usage_exact_for);
        hide(usage_same_except_two);
        proof { lemma_fr_setup(self, segment, provider, receiver); }
//@before "let mut vehicles"
        proof {
            lemma_fr_guard(self, segment, provider, receiver);
            lemma_fr_cut(self, segment, provider, receiver);
        }
//@before "let (new_tour_provider"
        proof { lemma_fr_path(self, segment, provider, receiver); }
//@before "self.update_tours("
        let ghost ntp = new_tour_provider;
        let ghost ntr = new_tour_receiver;
        let ghost mv = moved_nodes@;
        proof {
            assert(self.fr_outcome(segment, provider, receiver, ntp, ntr, mv));
            assert(self.fr_fits(provider, receiver, ntp, ntr, mv)) by { reveal(Schedule::fr_pre_outcomes); }
            assert(self.tfu_pre(self.train_formations@, self.unserved_passengers, Some(provider), self.sp_receiver_vehicle(receiver), mv)) by { reveal(Schedule::fr_fits); }
            lemma_fr_ut_pre(self, segment, provider, receiver, ntp, ntr, mv);
            lemma_seq_ext_all(mv);
        }
//@before "self.update_transitions_and_violation_fast("
        proof {
            lemma_fr_upd_pre(self, segment, provider, receiver, ntp, ntr, mv, vehicles@, tours@);
        }
//@before "Ok(Schedule::new("
        proof {
            lemma_fr_tours_post(self, segment, provider, receiver, ntp, ntr, mv, vehicles@, tours@, dummy_tours@, costs);
            lemma_fr_compatible(self, segment, provider, receiver, ntp, ntr, mv);
            lemma_fr_ids_post(self, segment, provider, receiver, ntp, ntr, vehicles@, tours@, dummy_tours@, vehicle_ids_grouped_and_sorted@, dummy_ids_sorted@);
            lemma_fr_formations_post(self, segment, provider, receiver, ntp, ntr, mv, train_formations@);
            lemma_fr_unserved_post(self, segment, provider, receiver, ntp, ntr, mv, tours@, dummy_tours@, unserved_passengers);
            lemma_usage_exact_after(self, self.depot_usage@, depot_usage@, self.vehicles@, self.tours@, Some(provider), ntp, receiver, ntr); // @obl C09.fit_reassign.depot_usage_exact
        }
//@end

} // mod tr
} // verus!
fn main() {}