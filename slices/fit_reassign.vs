// slice `fit_reassign`: Schedule::fit_reassign (solution/src/schedule/modifications.rs), "Tries to insert all nodes of provider's
// segment into receiver's tour.  Nodes that causes conflcits are rejected and stay in provider's tour.  Nodes that do not cause a
// conflict are removed from provider's tour and assigned to the receiver.", and its helper Schedule::fit_path_into_tour ("go
// through the path that should be inserted without causing conflcits … cut the path into maximal segments that could be
// reassigned"): BOTH verbatim bodies are verified (fit_path_into_tour: `while let` loop with `continue`, iterator chain
// `path.iter().enumerate().map_while(..).filter(..).filter(..).last().unwrap_or(..)`, `Vec::split_off`, `Path::new_trusted`).
//   C13  "Each schedule modification has its documented effect and nothing else: the provider loses exactly the moved nodes,
//        the receiver gains … only the conflict-free ones without losing any of its own (fit) …, a vehicle left without
//        activities disappears, … and all other vehicles' tours, formations elsewhere and the input schedule itself stay untouched"
//   C10 / C03  "a vehicle is in the formation of a node exactly if its tour contains the node"
//   C09  "cached aggregates equal recomputation" (costs, depot usage, unserved passengers, maintenance violation)
//   C01  type clause: "a vehicle only serves departure segments whose route prescribes its own vehicle type"
// Vocabulary in env/fit_reassign_shim.vs (it reuses env/override_reassign_shim.vs, env/update_tours_shim.vs,
// env/train_formation_update_shim.vs).  p = provider, r = receiver, tp / tr = their old tours, P = fr_path = the nodes of the
// offered segment in tp (what `sub_path(segment)` yields), (ntp, ntr, m) = (new_tour_provider, new_tour_receiver, moved_nodes).
//
// Contract of fit_path_into_tour (fit_pre / fit_outcome; tag C13.fit_path_into_tour.provider_loses_receiver_gains_only_moved_nodes):
//   m is a duplicate-free sub-sequence of P (is_subseq: some of P's nodes in P's order);
//   fit_provider_ok: if ntp is Some it is a tour of tp's kind over tp's network, well-formed, caches exact, its nodes are a
//     sub-sequence of tp's nodes and exactly the nodes of tp that are not in m; ntp is None <==> every node of tp that is not in m
//     is a depot (dummy tour: everything is moved);
//   fit_receiver_ok: ntr is a tour of tr's kind over tr's network, well-formed (time order), caches exact; for every ACTIVITY n:
//     n in ntr <==> n in tr or n in m ("without losing any of its own" + "gains" exactly the moved ones); every node of ntr is a
//     node of tr or of m.  DEPOTS: a moved end depot replaces the receiver's end depot (Tour::insert_path), a dummy receiver
//     takes no depots, a provider without activities vanishes with its depots -- hence the activity / upper-bound wording.
//     CLOSURE (tag C10.fit_path_into_tour.result_satisfies_the_schedule_invariants_again): fit_outcome also states tour_len_ok(ntr)
//     (A-len is re-established; the loop invariant carried it already), and the tour invariants of fit_pre -- well-formed over the
//     schedule's network, exact caches, same kind of tour, at most 2^17 + 2 nodes -- hold again for BOTH new tours
//     (lemma_fit_tours_closed; the provider's new tour is a sub-sequence of its duplicate-free old one).
//   Proved with the loop invariant fit_inv (k nodes of P decided; m is a sub-sequence of P[..k]; fit_provider_ok; fit_receiver_ok;
//   while a path remains it is P[k..], has an activity, and is a contiguous BLOCK of the provider's current tour -- this is what
//   makes `new_tour_provider.as_ref().unwrap()` safe: a provider emptied to None has nothing but depots left, so the remaining
//   nodes are depots and Path::new_trusted has returned None).
// Contract of fit_reassign on Ok(res) -- every clause is an `ensures` line of its own (on Err nothing is claimed but (4)):
//   (4) C01.fit_reassign.refuses_incompatible_segment: fr_compatible: if r is real and p is not a real vehicle of the same type,
//       every node of the offered segment (or_compatible, the guarantee of check_receiver_type_compatibility) and so every node
//       the receiver's new tour has and its old tour had not is compatible with r's type;
//       C13.fit_reassign.refuses_segment_outside_provider_tour: Ok only if the segment is a segment of tp (`sub_path(segment)?`;
//       under the precondition below -- needed for the `unwrap`s of the type guard -- this Err is unreachable);
//   (1) C13.fit_reassign.provider_loses_receiver_gains_only_moved_nodes:
//       fr_tours_after: for SOME sequence m of moved nodes, (tour of p in res or none, tour of r in res, m) is an outcome of
//         fit_path_into_tour for P (fit_outcome above); both tours stay in the map of their kind, r keeps a tour;
//       fr_maps_after: res.vehicles == vehicles_after, res.tours == tours_after, res.dummy_tours == dummies_after (map equalities,
//         vocabulary of env/update_tours_shim.vs: p's and r's entries rewritten, p deleted iff it has no tour left, every other
//         key untouched (lemma_frame)) -- NO new dummy tour; lists_follow; vehicle_counter unchanged; network unchanged;
//       C10.fit_reassign.listings_still_sorted_and_matching / ids_stay_valid;
//   (2) formations, node by node, with fr_moved_act(n) = n is an activity of tp that p's tour in res no longer has (for every
//       outcome this is "n is a non-depot node of m", lemma_fr_moved_act):
//       C13.fit_reassign.formations_elsewhere_untouched: same key set; !fr_moved_act(n) ==> same formation;
//       C10.fit_reassign.moved_nodes_provider_replaced_by_receiver: fr_moved_act(n) ==> formation == repl_seq(old, p -> r) and
//         that replacement succeeded (repl_ok);
//   (3) C09.fit_reassign.costs_delta_exact (or_costs_after), .depot_usage_exact (usage_exact for res),
//       .unserved_passengers_delta_exact (fr_unserved_after: for some outcome m the exact delta un_sum over m),
//       .maintenance_violation_exact (or_transitions_after: transitions consistent with the new tours, membership, violation ==
//       from-scratch sum, types of neither participant untouched).
//   (5) C10.fit_reassign.result_satisfies_the_schedule_invariants_again -- CLOSURE, the induction step of C10 / C09 ("after any
//       sequence of schedule modifications", "for every reachable schedule"): the result `res` satisfies the schedule-invariant
//       part of fr_pre AGAIN.  Derived from the effect clauses (1) + (3) alone (Schedule::fr_effect; lemma_fr_closed and one lemma
//       per conjunct in env/fit_reassign_shim.vs; in the body `res` is a ghost copy of what the tail expression builds):
//         ids        res.ids_ok() (= the clause ids_stay_valid read with the unchanged counter) and listings_ok(res);
//         usage      usage_exact over res's OWN network;
//         part_ok    fr_parts_closed: no vehicle / dummy appears, and EVERY v with part_ok in self that still has a tour in res has
//                    part_ok in res (receiver: A-len of fr_pre + the new clause of fit_outcome; provider, if it still exists: a
//                    sub-sequence of its old tour; everybody else: the frame, the same transition key set);
//         cycles     res.or_transitions_ok() INCLUDING its magnitude clause len_sum + 2 <= 2^17: fit_reassign adds no vehicle, a
//                    consistent transition holds as many vehicles as its lookup has keys (lemma_fr_total_len_is_lookup, text of
//                    env/sched_ctor_shim.vs), and the new lookup's keys are among the old one's -- no extra hypothesis needed;
//         costs      fr_costs_closed: the relation of fr_pre verbatim for the same two participants in res, and for ANY two distinct
//                    vehicles a, b of the next modification under the weakest hypothesis on self: self.costs covers the old tours
//                    of p, rcv, a and b together (the relation of fr_pre is indexed by the participants; the argument-free form is
//                    C09 "costs = sum of all tours' costs + non-negative terms", which the bundle does not contain).
//       Treated as ABOUT THE ARGUMENTS (not closed): provider != receiver; the segment is a segment of the provider's tour with
//       an activity; A-len |tr| + |tp| <= 2^17 + 2; all of fr_pre_outcomes (tfu_pre for the moved nodes, u64 room for the new
//       tours' costs, A-counter).  The bundle has NO formation / tour agreement conjunct (formations enter through tfu_pre for
//       the moved nodes only), so none is closed here.
//
// ASSUMPTIONS introduced / used by this slice:
//   A-stub   callees are trusted stubs with EXACTLY the contract text of the slice that verifies their body (tools/stub_sync.py: 0
//            differences): Schedule::tour_of (depot_usage), check_receiver_type_compatibility, update_transitions_and_violation_fast
//            (sched_guard), update_tours (update_tours), Tour::{remove, insert_path} (tour_mod); via `//@include-trusted`:
//            env/tour_pos_fns.vs (Tour::{latest_not_reaching_node, check_removable, conflict, sub_path, …}, slice tour_pos),
//            env/path_fns.vs (Path::new_trusted, slice path); env/tour_stubs.vs (Tour::position_of, not called here).
//            Verified here (verbatim bodies): Schedule::{fit_reassign, fit_path_into_tour, new (text as remove_segment)},
//            Path::{first, last, consume} (text as tour_mod), NEW Path::length, Tour::nth_node (no other slice has them).
//   A-iter   Path::iter: stub returning SeqIter (text of slices/tour_mod.vs).  NEW external_body shims (env/fit_reassign_shim.vs)
//            SeqIter::{enumerate, map_while, last} with the semantics of the std adapters of the same names; SeqIter::filter is
//            the one of env/im_shim.vs.  NEW axiom_into_items_vec: `Vec::extend(Vec<T>)` appends the items of the vector
//            (env/seqiter.vs fixes `into_items` for SeqIter only).  R5: `moved_nodes.iter().copied()` -> `.viter().copied()`;
//            `path.iter()` in fit_path_into_tour is the stub (`//@viter-skip path`).  R12: `moved_nodes: impl Iterator` of
//            update_tours is SeqIter<NodeIdx> (as in slices/update_tours.vs).
//   A-derive NEW: the derived `Clone` of Tour is structural (`r == *self`): the text of env/solution_types.vs is COPIED into this
//            slice with `//@drop-derive Clone` on `struct Tour` and an external_body `impl Clone for Tour` (Verus attaches an
//            empty specification to a derived Clone and rejects a second one; env/solution_types.vs must not be edited).
//   vstd     specifications of Vec::{new, split_off, len}, Option::{as_ref, unwrap, unwrap_or, is_some}, Result::{is_err, unwrap},
//            Arc::clone, `vec!`.
//   A-im / A-std7 / A-derive / A-display  as in slices/override_reassign.vs (env/im_shim.vs, env/depot_usage_shim.vs,
//            env/update_tours_shim.vs, env/override_reassign_shim.vs: im::HashMap / HashSet shims incl. clone, Ord of VehicleIdx,
//            Vehicle::clone, Display of Segment).
//   plus the shared env: env/model_fns.vs, env/time_ops.vs, env/dist_ops.vs included trusted; env/broadcast_model.vs;
//            env/transition_spec.vs (module `trs`).
//   vx rewrites applied to the bodies: R5 (viter), R6 (closure parameter patterns `|(i, n)|`, `|(_, n)|`), R2 (pub).  `while let` +
//            `continue` is accepted by Verus as is (R11 not needed); the loop carries `ensures remaining_path is None`.
//
// PRECONDITIONS the caller must guarantee (Schedule::fr_pre, fr_pre_outcomes; each clause is commented in the shim):
//   * provider != receiver (update_tours / the rotation-cycle bookkeeping run once per vehicle);
//   * C10 ids (ids_ok), part_ok(p), part_ok(r): a vehicle or a dummy of self, not both; its tour is well-formed over the schedule's
//     network (C01 / C10), its caches are exact (C09), at most 2^17 + 2 nodes; a real vehicle has a real tour and its type has a
//     transition;
//   * the segment is a segment of the provider's tour that is not made of depots only (the two `unwrap`s of the type guard);
//   * C10 listings_ok, C09 usage_exact, self.costs covers the old tours of the real participants, or_transitions_ok (C15 / C10 / C09
//     for the rotation cycles, at most 2^17 - 2 vehicles);
//   * A-len: |tr| + |tp| <= 2^17 + 2 (the receiver's tour stays within the length bound while it grows);
//   * fr_pre_outcomes (caller-side): WHICH nodes fit is decided by the greedy search; for EVERY outcome (ntp, ntr, m) the contract
//     of fit_path_into_tour admits the caller guarantees fr_fits: tfu_pre for (Some(p), self.vehicles.get(&r).cloned(), m)
//     (slices/train_formation_update.vs), self.costs + the costs of the two new tours fit into u64, the maintenance counters of
//     the two new tours are small (A-counter).
//   fit_path_into_tour itself (fit_pre): both participants have well-formed tours over the schedule's network with exact caches,
//     "Assumes that path is a sub path of the tour of provider" (a contiguous block with an activity), A-len.
//
// NOT covered: the GREEDY part of the documentation ("take the biggest segment that can be reassigned"): nothing is claimed about
//   which / how many conflict-free nodes are moved (a mutant that builds `Segment::new(sub_segment_end, sub_segment_start)` and so
//   only ever moves single nodes still satisfies the contract); that every moved node really was conflict-free in tr is covered
//   only through "the receiver loses no activity"; on Err nothing is claimed except (4) (not WHEN the formation update refuses);
//   provider == receiver; depots: see fit_receiver_ok; that the callers establish the preconditions; the input schedule `self` is
//   `&self` (untouched by the type system).  Closure (5): covered for the schedule-invariant part of fr_pre; NOT covered: the
//   caller-side bundle fr_pre_outcomes for the NEXT modification (tfu_pre = formations exist / u32 magnitudes / the unserved pair
//   for the nodes moved next, u64 room for the costs, A-counter) -- these are not invariants of the schedule but guarantees per
//   call; the agreement formation <-> tours (C03) as a schedule invariant (not in the bundle); the argument-free form of the costs
//   relation (see (5)).
#![feature(allocator_api)]
use vstd::prelude::*;
use std::ops::Add;
use std::ops::Sub;
use std::collections::{BTreeMap, HashMap};
use std::sync::Arc;
//@include env/display_time.rs
//@include env/display_model.rs
impl std::fmt::Display for Segment { fn fmt(&self, _f: &mut std::fmt::Formatter) -> std::fmt::Result { Ok(()) } }
verus! {
//@include env/std_specs.vs
//@include env/seqiter.vs
//@include env/time_types.vs
//@include-trusted env/time_ops.vs
//@include env/model_types.vs
//@include env/broadcast_model.vs
//@include env/model_network_types.vs
//@include env/model_spec.vs
//@include-trusted env/model_fns.vs
// ---- text of env/solution_types.vs, copied: `struct Tour` loses its `derive(Clone)` (see A-derive in the header) ----
//@item solution/src/tour.rs type Position : plain
//@end
//@item solution/src/tour.rs struct Tour : plain
//@drop-derive Clone
//@end
// A-derive: the derived `Clone` of Tour is structural (the derive is dropped so that the impl can carry a specification)
impl Clone for Tour {
    #[verifier::external_body]
    fn clone(&self) -> (r: Self)
        ensures r == *self
    { unimplemented!() }
}
//@item solution/src/path.rs struct Path : plain
//@end
//@item solution/src/segment.rs struct Segment : plain
//@end
//@item solution/src/segment.rs Segment::new
//@retname r
//@sig
    ensures r.start == start, r.end == end,
//@end
//@item solution/src/segment.rs Segment::start
//@retname r
//@sig
    ensures r == self.start,
//@end
//@item solution/src/segment.rs Segment::end
//@retname r
//@sig
    ensures r == self.end,
//@end
//@include env/tour_spec.vs
//@include env/sums.vs
//@include-trusted env/dist_ops.vs
//@include env/vsum_impls.vs
//@include env/cache_spec.vs
// the three lemma files below are proved in their home slice tour_mod; here their bodies are not re-checked
//@include-proved env/cache_lemmas.vs
//@include-proved env/remove_lemmas.vs
//@include-proved env/insert_lemmas.vs

pub mod tr {
use super::*;
use vstd::prelude::*;
use self::im::HashMap;
use self::im_set::HashSet;
//@include env/im_shim.vs
//@include env/depot_usage_shim.vs

//@item solution/src/transition.rs type CycleIdx : plain
//@end
//@item solution/src/transition/transition_cycle.rs struct TransitionCycle : plain
//@end
//@item solution/src/transition.rs struct Transition : plain
//@end
//@item solution/src/train_formation.rs struct TrainFormation : plain
//@end
//@item solution/src/schedule.rs type DepotUsage : plain
//@end
//@item solution/src/schedule.rs struct Schedule : plain
//@drop-derive Clone
//@end

pub mod trs {
use super::*;
use vstd::prelude::*;
//@include env/transition_spec.vs
} // mod trs
use self::trs::*;

//@include env/update_tours_shim.vs
//@include env/train_formation_update_shim.vs
//@include env/override_reassign_shim.vs
//@include env/fit_reassign_shim.vs

// verified here, text as in slices/remove_segment.vs / slices/override_reassign.vs
//@item solution/src/schedule.rs Schedule::new
//@retname r
//@sig
    ensures
        r.vehicles == vehicles, r.tours == tours, r.next_period_transitions == next_period_transitions,
        r.train_formations == train_formations, r.depot_usage == depot_usage, r.dummy_tours == dummy_tours,
        r.vehicle_counter == vehicle_counter, r.vehicle_ids_grouped_and_sorted == vehicle_ids_grouped_and_sorted,
        r.dummy_ids_sorted == dummy_ids_sorted, r.unserved_passengers == unserved_passengers,
        r.maintenance_violation == maintenance_violation, r.costs == costs, r.network == network,
//@end
//@item solution/src/schedule.rs Schedule::tour_of : trusted
//@retname r
//@sig
    ensures
        self.tours@.contains_key(vehicle) ==> r is Ok && *r->Ok_0 == self.tours@[vehicle],
        !self.tours@.contains_key(vehicle) && self.dummy_tours@.contains_key(vehicle) ==> r is Ok && *r->Ok_0 == self.dummy_tours@[vehicle],
        !self.tours@.contains_key(vehicle) && !self.dummy_tours@.contains_key(vehicle) ==> r is Err,
//@end
//@item solution/src/schedule/modifications.rs Schedule::check_receiver_type_compatibility : trusted
//@retname r
//@sig
    requires
        // what the callers guarantee (the two `unwrap`s): the provider has a tour, a well-formed tour of
        // the schedule's network, and the segment is a segment of that tour
        self.has_tour(provider),
        self.sp_tour_of(provider).wf(),
        *self.sp_tour_of(provider).network == *self.network,
        tour_len_ok(self.sp_tour_of(provider).nodes@),
        exists|i: int, j: int| #[trigger] Schedule::seg_at(&self.sp_tour_of(provider), segment, i, j)
            && !all_depots(&self.network, self.sp_tour_of(provider).nodes@.subrange(i, j + 1)),
    ensures
        // C01, type clause: the receiver is a real vehicle and the provider is a dummy or a vehicle of
        // another type: the guard only lets segments pass all of whose nodes the receiver's type may serve
        self.vehicles@.contains_key(receiver)
            && !(self.vehicles@.contains_key(provider) && self.type_of(provider) == self.type_of(receiver))
            && r
            ==> forall|i: int, j: int, p: int| #[trigger] Schedule::seg_at(&self.sp_tour_of(provider), segment, i, j) && i <= p <= j
                ==> self.network.sp_compatible(#[trigger] self.sp_tour_of(provider).nodes@[p], self.type_of(receiver)), // @obl C01.type_guard.true_only_if_compatible
//@end
//@item solution/src/schedule/modifications.rs Schedule::update_tours : trusted
//@param-type moved_nodes SeqIter<NodeIdx>
//@retname r
//@sig
    requires
        self.ut_pre(old(vehicles)@, old(tours)@, old(depot_usage)@, old(dummy_tours)@, old(vehicle_ids_grouped_and_sorted)@,
            old(dummy_ids_sorted)@, *old(costs), provider, new_tour_provider, receiver, new_tour_receiver),
        self.tfu_pre(old(train_formations)@, *old(unserved_passengers), provider, self.sp_receiver_vehicle(receiver), moved_nodes@),
    ensures
        final(vehicles)@ == self.vehicles_after(old(vehicles)@, provider, new_tour_provider), // @obl C13.update_tours.provider_and_receiver_tours_replaced_everything_else_untouched
        final(tours)@ == self.tours_after(old(tours)@, provider, new_tour_provider, receiver, new_tour_receiver), // @obl C13.update_tours.provider_and_receiver_tours_replaced_everything_else_untouched
        final(dummy_tours)@ == self.dummies_after(old(dummy_tours)@, provider, new_tour_provider, receiver, new_tour_receiver), // @obl C13.update_tours.provider_and_receiver_tours_replaced_everything_else_untouched
        self.lists_follow(old(vehicle_ids_grouped_and_sorted)@, final(vehicle_ids_grouped_and_sorted)@, old(dummy_ids_sorted)@, final(dummy_ids_sorted)@,
            provider, new_tour_provider), // @obl C13.update_tours.provider_and_receiver_tours_replaced_everything_else_untouched
        listings_ok(old(vehicles)@, old(dummy_tours)@, old(vehicle_ids_grouped_and_sorted)@, old(dummy_ids_sorted)@)
            ==> listings_ok(final(vehicles)@, final(dummy_tours)@, final(vehicle_ids_grouped_and_sorted)@, final(dummy_ids_sorted)@), // @obl C10.update_tours.listings_still_sorted_and_matching
        *final(costs) == *old(costs)
            - self.cost_out_provider(old(tours)@, provider) - self.cost_out_receiver(old(tours)@, receiver)
            + self.cost_in_provider(provider, new_tour_provider) + self.cost_in_receiver(receiver, new_tour_receiver), // @obl C09.update_tours.costs_delta_exact
        usage_exact_for(final(depot_usage)@, &self.network, final(vehicles)@, final(tours)@, receiver), // @obl C09.update_tours.depot_usage_exact_for_provider_and_receiver
        provider is Some ==> usage_exact_for(final(depot_usage)@, &self.network, final(vehicles)@, final(tours)@, provider.unwrap()), // @obl C09.update_tours.depot_usage_exact_for_provider_and_receiver
        usage_same_except_two(old(depot_usage)@, final(depot_usage)@, provider, receiver), // @obl C09.update_tours.depot_usage_exact_for_provider_and_receiver
        r is Ok ==> self.formations_elsewhere_untouched(moved_nodes@, old(train_formations)@, final(train_formations)@), // @obl C13.update_tours.formations_follow_update_train_formation
        r is Ok ==> self.moved_get_replacement(moved_nodes@, old(train_formations)@, final(train_formations)@, provider, self.sp_receiver_vehicle(receiver)), // @obl C13.update_tours.formations_follow_update_train_formation
        r is Ok ==> self.grown_within_limits(moved_nodes@, final(train_formations)@, provider, self.sp_receiver_vehicle(receiver)), // @obl C13.update_tours.formations_follow_update_train_formation
        r is Ok ==> final(unserved_passengers).0 == old(unserved_passengers).0
            - self.un_sum(old(train_formations)@, provider, self.sp_receiver_vehicle(receiver), moved_nodes@, moved_nodes@.len() as int, false, 0)
            + self.un_sum(old(train_formations)@, provider, self.sp_receiver_vehicle(receiver), moved_nodes@, moved_nodes@.len() as int, true, 0)
          && final(unserved_passengers).1 == old(unserved_passengers).1
            - self.un_sum(old(train_formations)@, provider, self.sp_receiver_vehicle(receiver), moved_nodes@, moved_nodes@.len() as int, false, 1)
            + self.un_sum(old(train_formations)@, provider, self.sp_receiver_vehicle(receiver), moved_nodes@, moved_nodes@.len() as int, true, 1), // @obl C13.update_tours.formations_follow_update_train_formation
        r is Ok <==> self.all_ok(old(train_formations)@, provider, self.sp_receiver_vehicle(receiver), moved_nodes@, moved_nodes@.len() as int), // @obl C13.update_tours.err_iff_update_train_formation_refuses
//@end
//@item solution/src/schedule/modifications.rs Schedule::update_transitions_and_violation_fast : trusted
//@sig
    requires
        // the old schedule is consistent (C15, C10, C09), no real vehicle is listed twice, every listed real
        // vehicle is an old and / or a new vehicle with an admissible new tour, magnitudes: see upd_pre
        self.upd_pre(old(transitions)@, *old(maintenance_violation) as int, changed_vehicles@, vehicles@, tours@),
        // (clause of upd_pre, repeated: the caller-side assumption the transition slice names) no real vehicle
        // is listed twice: update_vehicle / remove_vehicle read the previous tour of the vehicle from self.tours
        forall|i: int, j: int| 0 <= i < j < changed_vehicles@.len() && changed_vehicles@[i] is Vehicle
            ==> #[trigger] changed_vehicles@[i] != #[trigger] changed_vehicles@[j],
    ensures
        forall|vt: VehicleTypeIdx| old(transitions)@.contains_key(vt) <==> #[trigger] final(transitions)@.contains_key(vt),
        // C15 / C10: every transition is consistent with the NEW tours ...
        forall|vt: VehicleTypeIdx| #[trigger] final(transitions)@.contains_key(vt) ==> final(transitions)@[vt].wf(&self.network, tours@), // @obl C10.update_transitions.consistent_with_new_tours
        // ... and its cycles hold exactly the NEW vehicles of its type ("every real vehicle belongs to
        // exactly one rotation cycle of its type": one cycle by wf_cycles / wf_lookup)
        forall|vt: VehicleTypeIdx, v: VehicleIdx| #![trigger final(transitions)@[vt].has_vehicle(v)] final(transitions)@.contains_key(vt)
            ==> (final(transitions)@[vt].has_vehicle(v) <==> (vehicles@.contains_key(v) && vtype(vehicles@[v]) == vt)), // @obl C10.update_transitions.membership
        // C09: "the schedule's maintenance violation equals its from-scratch value"
        *final(maintenance_violation) == viol_sum(final(transitions)@, sched_types(self)), // @obl C09.update_transitions.violation_sum
        // the transitions of the other types are untouched
        forall|vt: VehicleTypeIdx| #[trigger] final(transitions)@.contains_key(vt) && !self.touches_type(vehicles@, changed_vehicles@, vt)
            ==> final(transitions)@[vt] == old(transitions)@[vt], // @obl C10.update_transitions.other_types_untouched
//@end
// verified in slice tour_pos (env/tour_pos_fns.vs: latest_not_reaching_node, check_removable, conflict, sub_path, …) and
// slice path (env/path_fns.vs: Path::new_trusted); Tour::position_of: shared stub (env/tour_stubs.vs)
//@include env/tour_stubs.vs
//@include-trusted env/path_fns.vs
//@include-trusted env/tour_pos_fns.vs
// verified in slice tour_mod
//@item solution/src/tour/modifications.rs Tour::remove : trusted
//@retname r
//@sig
    requires self.wf(), self.caches_ok(), self.network.has(segment.start), self.network.has(segment.end), tour_len_ok(self.nodes@),
    ensures
        // C12: "Removing a segment yields the tour without exactly those nodes, is refused when it
        // would strand a depot or leave an unconnectable gap"
        r is Ok <==> self.has_node(segment.start) && self.has_node(segment.end)
            && self.removable(self.index_of(segment.start), self.index_of(segment.end)), // @obl C12.remove.refusal
        r is Ok ==> r->Ok_0.1.node_sequence@ == self.mid(self.index_of(segment.start), self.index_of(segment.end) + 1)
            && (r->Ok_0.0 is Some ==> r->Ok_0.0->Some_0.nodes@ == self.rest(self.index_of(segment.start), self.index_of(segment.end) + 1)), // @obl C12.remove.exactly_those_nodes
        r is Ok && r->Ok_0.0 is Some ==> r->Ok_0.0->Some_0.is_dummy == self.is_dummy && r->Ok_0.0->Some_0.network == self.network
            && r->Ok_0.0->Some_0.wf(), // @obl C01.remove.wf
        r is Ok && r->Ok_0.0 is Some ==> r->Ok_0.0->Some_0.caches_ok(), // @obl C09.remove.caches
        // C13: "a vehicle left without activities disappears": no tour is returned exactly when nothing (dummy) resp.
        // nothing but the two depots (real vehicle) would be left
        r is Ok ==> (r->Ok_0.0 is None <==> (if self.is_dummy { self.rest(self.index_of(segment.start), self.index_of(segment.end) + 1).len() == 0 }
            else { self.rest(self.index_of(segment.start), self.index_of(segment.end) + 1).len() <= 2 })), // @obl C13.remove.no_tour_iff_no_activity_left
        r is Ok ==> r->Ok_0.1.network == self.network,
//@end
//@item solution/src/tour/modifications.rs Tour::insert_path : trusted
//@retname r
//@sig
    requires self.wf(), self.caches_ok(), tour_len_ok(self.nodes@),
        path.network == self.network, tour_len_ok(path.node_sequence@),
        // A-path: the inserted path is a path of the network (connected) with an activity
        path_shape(&self.network, path.node_sequence@),
    ensures ({
        let n = eff_path(self, path.node_sequence@);
        exists|s: int, e: int| {
            &&& ins_positions(self, n, s, e) && 0 <= s <= e <= self.len()
            // C12: longest prefix whose last node reaches the path + the whole path + longest suffix the path reaches
            &&& r.0.nodes@ == #[trigger] self.spliced(s, e, n) // @obl C12.insert_path.prefix_path_suffix
            // C12: reports exactly the dropped nodes
            &&& (all_depots(&self.network, self.mid(s, e)) ==> r.1 is None)
            &&& (!all_depots(&self.network, self.mid(s, e)) ==> r.1 is Some && r.1.unwrap().node_sequence@ == self.mid(s, e)) // @obl C12.insert_path.reports_exactly_dropped
        }
    }),
        r.0.is_dummy == self.is_dummy && r.0.network == self.network,
        r.0.wf(), // @obl C01.insert_path.wf
        r.0.caches_ok(), // @obl C09.insert_path.caches
//@end
//@item solution/src/path.rs Path::iter : trusted
//@ret SeqIter<NodeIdx>
//@sig
    ensures r@ == self.node_sequence@,
//@end
// verified here, text as in slices/tour_mod.vs
//@item solution/src/path.rs Path::first
//@retname r
//@sig
    requires self.node_sequence@.len() >= 1,
    ensures r == self.node_sequence@[0],
//@end
//@item solution/src/path.rs Path::last
//@retname r
//@sig
    requires self.node_sequence@.len() >= 1,
    ensures r == self.node_sequence@[self.node_sequence@.len() - 1],
//@end
//@item solution/src/path.rs Path::consume
//@retname r
//@sig
    ensures r@ == self.node_sequence@,
//@end
// verified here (no other slice has them under contract)
//@item solution/src/path.rs Path::length
//@retname r
//@sig
    ensures r == self.node_sequence@.len(),
//@end
//@item solution/src/tour.rs Tour::nth_node
//@retname r
//@sig
    ensures
        pos < self.len() ==> r == Some(self.nodes@[pos as int]),
        pos >= self.len() ==> r is None,
//@end

// ---- Schedule::fit_path_into_tour: verbatim body; contract derived from C13, vocabulary in env/fit_reassign_shim.vs ----
//@item solution/src/schedule/modifications.rs Schedule::fit_path_into_tour
//@retname r
//@viter
//@viter-skip path
//@sig
    requires
        // "Assumes that path is a sub path of the tour of provider."; both tours are well-formed tours of the schedule's
        // network with exact caches (C01 / C10 / C09); A-len
        self.fit_pre(path.node_sequence@, provider, receiver),
    ensures
        // C13: "the provider loses exactly the moved nodes, the receiver gains … only the conflict-free ones without losing
        // any of its own (fit)"; "Returns: (new_tour_provider, new_tour_receiver, moved_nodes).  None for new_tour_provider
        // means there is no tour left."
        self.fit_outcome(path.node_sequence@, provider, receiver, r.0, r.1, r.2@), // @obl C13.fit_path_into_tour.provider_loses_receiver_gains_only_moved_nodes
        // C10 / C09, CLOSURE: the tour invariants of fit_pre (well-formed over the schedule's network, exact caches, same kind of
        // tour, A-len: at most 2^17 + 2 nodes) hold again for the two new tours
        r.1.wf() && r.1.caches_ok() && *r.1.network == *self.network && tour_len_ok(r.1.nodes@)
            && r.1.is_dummy == self.sp_tour_of(receiver).is_dummy, // @obl C10.fit_path_into_tour.result_satisfies_the_schedule_invariants_again
        r.0 is Some ==> r.0.unwrap().wf() && r.0.unwrap().caches_ok() && *r.0.unwrap().network == *self.network
            && tour_len_ok(r.0.unwrap().nodes@) && r.0.unwrap().is_dummy == self.sp_tour_of(provider).is_dummy, // @obl C10.fit_path_into_tour.result_satisfies_the_schedule_invariants_again
//@closure-params map_while#0
    (usize, NodeIdx)
//@closure map_while#0
    -> (o: Option<(usize, NodeIdx)>) requires self.network.has(p0.1), self.network.has(blocker) ensures o is Some ==> o.unwrap() == p0
//@closure-params filter#0
    &(usize, NodeIdx)
//@closure filter#0
    -> (b: bool) requires self.network.wf(), self.network.has(p0.1), self.network.has(blocker)
//@closure-params filter#1
    &(usize, NodeIdx)
//@closure filter#1
    -> (b: bool) requires new_tour_provider is Some, new_tour_provider.unwrap().wf(), new_tour_provider.unwrap().network.has(sub_segment_start), new_tour_provider.unwrap().network.has(p0.1)
//@first
        hide(Schedule::fit_inv);
        hide(Schedule::fit_pre);
        broadcast use axiom_into_items_vec;
        assert(self.has_tour(provider) && self.has_tour(receiver)) by { reveal(Schedule::fit_pre); }
        let ghost pn = path.node_sequence@;
        let ghost rcv = receiver; // `receiver` is shadowed by a tour inside the loop
        let ghost mut k: int = 0;
//@before "let mut remaining_path"
        proof { lemma_fit_init(self, pn, provider, rcv, new_tour_provider.unwrap(), new_tour_receiver); }
//@loop "while let Some(path)"
            invariant
                self.fit_inv(pn, provider, rcv, new_tour_provider, new_tour_receiver, moved_nodes@, opt_nodes(remaining_path), k), // @obl C13.fit_path_into_tour.provider_loses_receiver_gains_only_moved_nodes
            ensures remaining_path is None,
            decreases (if remaining_path is Some { remaining_path.unwrap().node_sequence@.len() + 1 } else { 0 }),
//@before "let sub_segment_start"
            let ghost r0 = path.node_sequence@;
            let ghost k0 = k;
            let ghost ntp0 = new_tour_provider;
            let ghost ntr0 = new_tour_receiver;
            let ghost m0 = moved_nodes@;
            proof {
                lemma_fit_iter(self, pn, provider, rcv, ntp0, ntr0, m0, Some(r0), k0);
                lemma_items_chain(r0);
            }
//@before "path.iter()"
                        proof { assert(self.network.has(blocker)); }
//@before "let mut node_sequence"
            assert(end_pos < r0.len() && sub_segment_end == r0[end_pos as int]); // @obl C13.fit_path_into_tour.provider_loses_receiver_gains_only_moved_nodes
//@before "let sub_segment ="
            let ghost c = node_sequence@;
            proof {
                assert(c == r0.subrange(0, end_pos + 1)); // @obl C13.fit_path_into_tour.provider_loses_receiver_gains_only_moved_nodes
                lemma_fit_chunk(self, pn, provider, rcv, ntp0, ntr0, m0, Some(r0), k0, end_pos as int);
                lemma_fit_skip(self, pn, provider, rcv, ntp0, ntr0, m0, Some(r0), k0, end_pos as int, opt_nodes(remaining_path)); // @obl C13.fit_path_into_tour.provider_loses_receiver_gains_only_moved_nodes
                k = k0 + end_pos + 1;
            }
//@before "let (receiver, _)"
            proof {
                lemma_remove_block(&ntp0.unwrap(), ntp0.unwrap().index_of(r0[0]), ntp0.unwrap().index_of(r0[end_pos as int]));
                assert(path_for_insertion.node_sequence@ == c);
                assert(no_conflict(&ntr0, c)); // @obl C13.fit_path_into_tour.provider_loses_receiver_gains_only_moved_nodes
            }
//@before "moved_nodes.extend"
            let ghost ns = node_sequence;
//@after "moved_nodes.extend"
            proof {
                axiom_into_items_vec::<NodeIdx>(ns);
                assert(moved_nodes@ == m0 + c);
                assert(inserted(&ntr0, c, new_tour_receiver.nodes@)); // @obl C13.fit_path_into_tour.provider_loses_receiver_gains_only_moved_nodes
                lemma_fit_move(self, pn, provider, rcv, ntp0, ntr0, m0, Some(r0), k0, end_pos as int, opt_nodes(remaining_path), new_tour_provider, new_tour_receiver); // @obl C13.fit_path_into_tour.provider_loses_receiver_gains_only_moved_nodes
            }
//@before "(new_tour_provider, new_tour_receiver, moved_nodes)"
        proof { lemma_fit_done(self, pn, provider, rcv, new_tour_provider, new_tour_receiver, moved_nodes@, k); } // @obl C13.fit_path_into_tour.provider_loses_receiver_gains_only_moved_nodes
        proof { lemma_fit_tours_closed(self, pn, provider, rcv, new_tour_provider, new_tour_receiver, moved_nodes@); } // @obl C10.fit_path_into_tour.result_satisfies_the_schedule_invariants_again
//@end

// ---- the function under contract ------------------------------------------------------------------------------
//@item solution/src/schedule/modifications.rs Schedule::fit_reassign
//@viter
//@retname r
//@sig
    requires
        // schedule invariants (C10, C09, C15), provider != receiver, the segment is a segment of the provider's tour, A-len
        self.fr_pre(segment, provider, receiver),
        // caller-side: for every outcome the contract of fit_path_into_tour admits: the precondition of the formation update
        // (update_train_formation, see slices/train_formation_update.vs), u64 costs, small maintenance counters
        self.fr_pre_outcomes(segment, provider, receiver),
    ensures
        // (4) C01 / C10, type clause: "# Errors: If some node of the segment is not compatible with the receivers type an error
        // is returned": Ok only if every node of the offered segment -- hence every node the receiver gains -- may be served
        // by the receiver's type
        r is Ok ==> self.fr_compatible(segment, provider, receiver, tour_in(r->Ok_0.tours@, r->Ok_0.dummy_tours@, receiver)), // @obl C01.fit_reassign.refuses_incompatible_segment
        // `sub_path(segment)?`: Ok only if the segment is a segment of the provider's tour
        r is Ok ==> exists|i: int, j: int| #[trigger] Schedule::seg_at(&self.sp_tour_of(provider), segment, i, j), // @obl C13.fit_reassign.refuses_segment_outside_provider_tour
        // (1) C13: "the provider loses exactly the moved nodes, the receiver gains … only the conflict-free ones without losing
        // any of its own (fit) …, a vehicle left without activities disappears, … all other vehicles' tours … stay untouched"
        r is Ok ==> self.fr_tours_after(segment, provider, receiver, r->Ok_0.tours@, r->Ok_0.dummy_tours@), // @obl C13.fit_reassign.provider_loses_receiver_gains_only_moved_nodes
        r is Ok ==> self.fr_maps_after(provider, receiver, r->Ok_0.vehicles@, r->Ok_0.tours@, r->Ok_0.dummy_tours@), // @obl C13.fit_reassign.provider_loses_receiver_gains_only_moved_nodes
        r is Ok ==> self.lists_follow(self.vehicle_ids_grouped_and_sorted@, r->Ok_0.vehicle_ids_grouped_and_sorted@, self.dummy_ids_sorted@,
            r->Ok_0.dummy_ids_sorted@, Some(provider), tour_opt_in(r->Ok_0.tours@, r->Ok_0.dummy_tours@, provider)), // @obl C13.fit_reassign.provider_loses_receiver_gains_only_moved_nodes
        // no new dummy tour, no id is used up
        r is Ok ==> r->Ok_0.vehicle_counter == self.vehicle_counter && r->Ok_0.network == self.network, // @obl C13.fit_reassign.provider_loses_receiver_gains_only_moved_nodes
        // C10: "vehicle and dummy listings are sorted and match the stored tours"; the ids stay valid
        r is Ok ==> listings_ok(r->Ok_0.vehicles@, r->Ok_0.dummy_tours@, r->Ok_0.vehicle_ids_grouped_and_sorted@, r->Ok_0.dummy_ids_sorted@), // @obl C10.fit_reassign.listings_still_sorted_and_matching
        r is Ok ==> ids_valid(r->Ok_0.vehicles@, r->Ok_0.tours@, r->Ok_0.dummy_tours@, r->Ok_0.dummy_ids_sorted@, r->Ok_0.vehicle_counter), // @obl C10.fit_reassign.ids_stay_valid
        // (2) C10 / C03 / C13: formations, node by node
        r is Ok ==> self.fr_formations_elsewhere(provider, tour_opt_in(r->Ok_0.tours@, r->Ok_0.dummy_tours@, provider), r->Ok_0.train_formations@), // @obl C13.fit_reassign.formations_elsewhere_untouched
        r is Ok ==> self.fr_formations_moved(provider, receiver, tour_opt_in(r->Ok_0.tours@, r->Ok_0.dummy_tours@, provider), r->Ok_0.train_formations@), // @obl C10.fit_reassign.moved_nodes_provider_replaced_by_receiver
        // (3) C09: "cached aggregates equal recomputation"
        r is Ok ==> self.or_costs_after(provider, receiver, r->Ok_0.tours@, r->Ok_0.dummy_tours@, r->Ok_0.costs), // @obl C09.fit_reassign.costs_delta_exact
        r is Ok ==> usage_exact(r->Ok_0.depot_usage@, &self.network, r->Ok_0.vehicles@, r->Ok_0.tours@), // @obl C09.fit_reassign.depot_usage_exact
        r is Ok ==> self.fr_unserved_after(segment, provider, receiver, r->Ok_0.tours@, r->Ok_0.dummy_tours@, r->Ok_0.unserved_passengers), // @obl C09.fit_reassign.unserved_passengers_delta_exact
        r is Ok ==> self.or_transitions_after(provider, receiver, r->Ok_0.next_period_transitions@, r->Ok_0.maintenance_violation,
            r->Ok_0.vehicles@, r->Ok_0.tours@), // @obl C09.fit_reassign.maintenance_violation_exact
        // (5) C10 / C09, CLOSURE: the result satisfies the schedule-invariant part of fr_pre again (derived from the effect
        // clauses above, lemma_fr_closed): ids + listings; the depot table (over the result's own network); part_ok of every
        // vehicle / dummy that had it and still has a tour; the rotation cycles incl. the magnitude clause; the costs relation
        r is Ok ==> r->Ok_0.ids_ok() && listings_ok(r->Ok_0.vehicles@, r->Ok_0.dummy_tours@, r->Ok_0.vehicle_ids_grouped_and_sorted@, r->Ok_0.dummy_ids_sorted@), // @obl C10.fit_reassign.result_satisfies_the_schedule_invariants_again
        r is Ok ==> usage_exact(r->Ok_0.depot_usage@, &r->Ok_0.network, r->Ok_0.vehicles@, r->Ok_0.tours@), // @obl C10.fit_reassign.result_satisfies_the_schedule_invariants_again
        r is Ok ==> self.fr_parts_closed(r->Ok_0), // @obl C10.fit_reassign.result_satisfies_the_schedule_invariants_again
        r is Ok ==> r->Ok_0.or_transitions_ok(), // @obl C10.fit_reassign.result_satisfies_the_schedule_invariants_again
        r is Ok ==> self.fr_costs_closed(provider, receiver, r->Ok_0), // @obl C10.fit_reassign.result_satisfies_the_schedule_invariants_again
//@first
        // the big predicates stay folded in this body: the lemmas of env/fit_reassign_shim.vs unfold them
        hide(Schedule::fr_pre);
        hide(Schedule::fr_pre_outcomes);
        hide(Schedule::fr_fits);
        hide(Schedule::fit_pre);
        hide(Schedule::fit_outcome);
        hide(Schedule::ut_pre);
        hide(Schedule::tfu_pre);
        hide(Schedule::upd_pre);
        hide(Schedule::or_compatible);
        hide(Schedule::fr_compatible);
        hide(Schedule::fr_tours_after);
        hide(Schedule::fr_maps_after);
        hide(Schedule::fr_formations_elsewhere);
        hide(Schedule::fr_formations_moved);
        hide(Schedule::fr_unserved_after);
        hide(Schedule::or_costs_after);
        hide(Schedule::lists_follow);
        hide(Schedule::vehicles_after);
        hide(Schedule::tours_after);
        hide(Schedule::dummies_after);
        hide(listings_ok);
        hide(ids_valid);
        hide(usage_exact);
        hide(usage_exact_for);
        hide(usage_same_except_two);
        hide(Schedule::fr_parts_closed);
        hide(Schedule::fr_costs_closed);
        hide(Schedule::or_transitions_ok);
        hide(Schedule::part_ok);
        proof { lemma_fr_setup(self, segment, provider, receiver); }
//@before "let mut vehicles"
        proof {
            lemma_fr_guard(self, segment, provider, receiver);
            lemma_fr_cut(self, segment, provider, receiver);
        }
//@before "let (new_tour_provider"
        proof { lemma_fr_path(self, segment, provider, receiver); }
//@before "self.update_tours("
        let ghost ntp = new_tour_provider;
        let ghost ntr = new_tour_receiver;
        let ghost mv = moved_nodes@;
        proof {
            assert(self.fr_outcome(segment, provider, receiver, ntp, ntr, mv));
            assert(self.fr_fits(provider, receiver, ntp, ntr, mv)) by { reveal(Schedule::fr_pre_outcomes); }
            assert(self.tfu_pre(self.train_formations@, self.unserved_passengers, Some(provider), self.sp_receiver_vehicle(receiver), mv)) by { reveal(Schedule::fr_fits); }
            lemma_fr_ut_pre(self, segment, provider, receiver, ntp, ntr, mv);
            lemma_seq_ext_all(mv);
        }
//@after "self.update_tours("
        proof {
            // the precondition of update_transitions_and_violation_fast (anchored here: a tree without that call still has
            // this anchor and fails C09.fit_reassign.maintenance_violation_exact)
            lemma_fr_upd_pre(self, segment, provider, receiver, ntp, ntr, mv, vehicles@, tours@);
        }
//@before "Ok(Schedule::new("
        proof {
            lemma_fr_tours_post(self, segment, provider, receiver, ntp, ntr, mv, vehicles@, tours@, dummy_tours@, costs);
            lemma_fr_compatible(self, segment, provider, receiver, ntp, ntr, mv);
            lemma_fr_ids_post(self, segment, provider, receiver, ntp, ntr, vehicles@, tours@, dummy_tours@, vehicle_ids_grouped_and_sorted@, dummy_ids_sorted@);
            lemma_fr_formations_post(self, segment, provider, receiver, ntp, ntr, mv, train_formations@);
            lemma_fr_unserved_post(self, segment, provider, receiver, ntp, ntr, mv, tours@, dummy_tours@, unserved_passengers);
            lemma_usage_exact_after(self, self.depot_usage@, depot_usage@, self.vehicles@, self.tours@, Some(provider), ntp, receiver, ntr); // @obl C09.fit_reassign.depot_usage_exact
        }
        // CLOSURE: `res` is the schedule the tail expression builds (a ghost copy: the result itself only exists there)
        let ghost res = Schedule { vehicles: vehicles, tours: tours, next_period_transitions: next_period_transitions,
            train_formations: train_formations, depot_usage: depot_usage, dummy_tours: dummy_tours, vehicle_counter: self.vehicle_counter,
            vehicle_ids_grouped_and_sorted: vehicle_ids_grouped_and_sorted, dummy_ids_sorted: dummy_ids_sorted,
            unserved_passengers: unserved_passengers, maintenance_violation: maintenance_violation, costs: costs, network: self.network };
        proof { lemma_fr_closed(self, segment, provider, receiver, res); } // @obl C10.fit_reassign.result_satisfies_the_schedule_invariants_again
//@end

} // mod tr
} // verus!
fn main() {}