// slice `formation`: TrainFormation order semantics (C13 last sentence), capacity / seats sums (C09)
#![feature(allocator_api)]
use vstd::prelude::*;
use std::ops::Add;
use std::ops::Sub;
use std::collections::{BTreeMap, HashMap};
use std::sync::Arc;
//@include env/display_time.rs
//@include env/display_idx.rs
verus! {
//@include env/std_specs.vs
//@include env/seqiter.vs
//@include env/time_types.vs
//@include env/model_types.vs
//@include env/broadcast.vs
//@item model/src/vehicle_types.rs struct VehicleType : plain
//@end
//@item solution/src/vehicle.rs struct Vehicle : plain
//@drop-derive Clone
//@end
//@item solution/src/train_formation.rs struct TrainFormation : plain
//@drop-derive Clone
//@end
impl Clone for TrainFormation {
    #[verifier::external_body]
    fn clone(&self) -> (r: Self)
        ensures r == *self
    { unimplemented!() }
}
impl vstd::std_specs::fmt::DisplaySpecImpl for VehicleIdx {
    open spec fn fmt_req(&self, f: &std::fmt::Formatter<'_>) -> bool { true }
}
impl Clone for Vehicle {
    #[verifier::external_body]
    fn clone(&self) -> (r: Self)
        ensures r == *self
    { unimplemented!() }
}

//@item solution/src/vehicle.rs Vehicle::idx
//@retname r
//@sig
    ensures r == self.idx,
//@end
//@item solution/src/train_formation.rs TrainFormation::replace
//@retname r
//@viter
//@sig
    ensures
        // C13: "a replacing vehicle takes the replaced one's position"
        (forall|i: int| 0 <= i < self.formation@.len() ==> self.formation@[i].idx != old) ==> r is Err,
        forall|p: int| 0 <= p < self.formation@.len() && self.formation@[p].idx == old
            && (forall|i: int| 0 <= i < p ==> self.formation@[i].idx != old)
            ==> r is Ok && r.unwrap().formation@ == self.formation@.update(p, new), // @obl C13.formation.replace_keeps_position
//@closure-params 0
    &Vehicle
//@closure 0
    -> (b: bool) ensures b == (u.idx == old)
//@before "let pos"
        proof {
            assert(new_formation@ =~= self.formation@) by {
                assert forall|i: int| 0 <= i < self.formation@.len() implies new_formation@[i] == self.formation@[i] by {
                    assert(vstd::pervasive::cloned(self.formation@[i], new_formation@[i]));
                }
            }
        }
//@after "let pos"
        assert(self.formation@[pos as int].idx == old);
//@before "Ok(TrainFormation"
        assert(new_formation@ =~= self.formation@.update(pos as int, new));
//@end
//@item solution/src/train_formation.rs TrainFormation::remove
//@retname r
//@viter
//@sig
    ensures
        // C13: "removals keep the order"
        (forall|i: int| 0 <= i < self.formation@.len() ==> self.formation@[i].idx != vehicle) ==> r is Err,
        forall|p: int| 0 <= p < self.formation@.len() && self.formation@[p].idx == vehicle
            && (forall|i: int| 0 <= i < p ==> self.formation@[i].idx != vehicle)
            ==> r is Ok && r.unwrap().formation@ == self.formation@.remove(p), // @obl C13.formation.remove_keeps_order
//@closure-params 0
    &Vehicle
//@closure 0
    -> (b: bool) ensures b == (u.idx == vehicle)
//@before "let pos"
        proof {
            assert(new_formation@ =~= self.formation@) by {
                assert forall|i: int| 0 <= i < self.formation@.len() implies new_formation@[i] == self.formation@[i] by {
                    assert(vstd::pervasive::cloned(self.formation@[i], new_formation@[i]));
                }
            }
        }
//@after "let pos"
        assert(self.formation@[pos as int].idx == vehicle);
//@before "Ok(TrainFormation"
        assert(new_formation@ =~= self.formation@.remove(pos as int));
//@end
//@item solution/src/train_formation.rs TrainFormation::add_at_tail
//@retname r
//@sig
    ensures r.formation@ == self.formation@.push(vehicle), // @obl C13.formation.add_at_tail
//@end
//@item solution/src/train_formation.rs TrainFormation::vehicle_count
//@retname r
//@sig
    requires self.formation@.len() <= u32::MAX,
    ensures r == self.formation@.len(),
//@end
} // verus!
fn main() {}
