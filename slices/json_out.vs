// slice `json_out`: schedule_dead_head_trip places the dead-head trip inside the gap (C03, last clause)
use vstd::prelude::*;
use std::ops::Add;
use std::ops::Sub;
use std::collections::{BTreeMap, HashMap};
use std::sync::Arc;
//@include env/display_time.rs
//@include env/display_model.rs
verus! {
//@include env/std_specs.vs
//@include env/time_types.vs
//@include-trusted env/time_ops.vs
//@include env/model_types.vs
//@include env/broadcast_model.vs
//@include env/model_network_types.vs
//@include env/model_spec.vs
//@include-trusted env/model_fns.vs
//@include env/reach_lemmas.vs

//@item solution/src/json_serialisation.rs fn schedule_dead_head_trip
//@retname r
//@sig
    requires nw.wf(), nw.has(node1_idx), nw.has(node2_idx), nw.reach(node1_idx, node2_idx),
        // a vehicle's itinerary never goes from its start depot directly to its end depot
        nw.sp_node(node1_idx).sp_is_activity() || nw.sp_node(node2_idx).sp_is_activity(),
        // the instance does not start within one dead-head duration after 1.1. of year 0
        nw.sp_node(node2_idx).sp_is_activity() && nw.min_dur(node1_idx, node2_idx) is Length
            ==> tp_secs(nw.sp_node(node2_idx).sp_start_time()->Point_0) >= nw.min_dur(node1_idx, node2_idx)->Length_0.seconds,
    ensures
        // C03: "each lying inside the gap between the two activities it connects"
        dt_le(nw.sp_node(node1_idx).sp_end_time(), r.0), // @obl C03.dead_head_trip.departs_after_arrival_of_predecessor
        dt_le(r.0, r.1), // @obl C03.dead_head_trip.ordered
        dt_le(r.1, nw.sp_node(node2_idx).sp_start_time()), // @obl C03.dead_head_trip.arrives_before_departure_of_successor
//@first
        proof {
            assert(nw.nodes@.contains_key(node1_idx) && nw.nodes@.contains_key(node2_idx));
            lemma_min_duration_small(nw, node1_idx, node2_idx);
            lemma_dt_add_monotone(nw.sp_node(node1_idx).sp_end_time(), nw.min_dur(node1_idx, node2_idx));
            if nw.sp_node(node2_idx).sp_is_activity() {
                lemma_dt_sub_dur_le(nw.sp_node(node2_idx).sp_start_time(), nw.min_dur(node1_idx, node2_idx));
            }
        }
//@end
pub proof fn lemma_dt_sub_dur_le(t: DateTime, d: Duration)
    requires dt_ok(t), dt_small(t), t is Point, d is Length ==> tp_secs(t->Point_0) >= d->Length_0.seconds,
    ensures dt_le(dt_sub_dur(t, d), t),
{
    if let Duration::Length(l) = d {
        let s = tp_secs(t->Point_0) - l.seconds as int;
        assert(86400 * (s / 86400) + s % 86400 == s && 0 <= s % 86400 < 86400 && s / 86400 >= 0) by (nonlinear_arith) requires s >= 0;
    }
}
} // verus!
fn main() {}
