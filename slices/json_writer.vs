// slice `json_writer`: the JSON writer functions of solution/src/json_serialisation.rs (C03; A-json of C01 / C05)
#![feature(allocator_api)]
use vstd::prelude::*;
use std::ops::Add;
use std::ops::Sub;
use std::collections::{BTreeMap, HashMap};
use std::sync::Arc;
//@include env/display_time.rs
//@include env/display_model.rs
verus! {
//@include env/std_specs.vs
//@include env/seqiter.vs
//@include env/time_types.vs
//@include-trusted env/time_ops.vs
//@include env/model_types.vs
//@include env/broadcast_model.vs
//@include env/model_network_types.vs
//@include env/model_spec.vs
//@include-trusted env/model_fns.vs
//@include env/solution_types.vs
//@include env/tour_spec.vs

pub mod tr {
use super::*;
use vstd::prelude::*;
use self::im::HashMap;
use self::im_set::HashSet;
//@include env/im_shim.vs
//@include env/json_writer_shim.vs

// ---- model accessors (verified here, verbatim bodies) -------------------------------------------------
//@item model/src/network/nodes.rs Node::as_depot
//@retname r
//@sig
    requires self.sp_is_depot(),
    ensures *r == (match self { Node::StartDepot((_, d)) => *d, Node::EndDepot((_, d)) => *d, _ => arbitrary() }),
//@end
//@item model/src/network/nodes.rs DepotNode::depot_idx
//@retname r
//@sig
    ensures r == self.depot_idx,
//@end
//@item model/src/network.rs Network::get_depot_idx
//@retname r
//@sig
    requires self.has(node_idx), self.sp_node(node_idx).sp_is_depot(),
    ensures r == sp_depot_idx(self, node_idx),
//@end
//@item model/src/network.rs Network::get_depot
//@retname r
//@sig
    requires self.depots@.contains_key(depot_idx),
    ensures *r == self.depots@[depot_idx].0,
//@first
        broadcast use key_axioms::axiom_key_model_depot_idx;
//@end
//@item model/src/network/depot.rs Depot::id
//@retname r
//@sig
    ensures r@ == self.id@,
//@end
//@item model/src/network.rs Network::locations
//@retname r
//@sig
    ensures *r == *self.locations,
//@end
//@item model/src/network/nodes.rs ServiceTrip::id
//@retname r
//@sig
    ensures *r == self.id,
//@end
//@item model/src/network/nodes.rs MaintenanceSlot::id
//@retname r
//@sig
    ensures *r == self.id,
//@end
//@item model/src/locations.rs Locations::get_id
//@retname r
//@sig
    ensures
        self.has(location) ==> r is Ok && r->Ok_0@ == loc_name(self, location),
//@first
        broadcast use key_axioms::axiom_key_model_location_idx;
//@end

// ---- Tour / Schedule ------------------------------------------------------------------------------------
//@item solution/src/tour.rs Tour::first_node
//@retname r
//@sig
    requires self.nodes@.len() >= 1,
    ensures r == self.nodes@[0],
//@end
//@item solution/src/tour.rs Tour::last_node
//@retname r
//@sig
    requires self.nodes@.len() >= 1,
    ensures r == self.nodes@[self.nodes@.len() - 1],
//@end
/// A-iter: `Tour::all_nodes_iter` yields the nodes of the tour in order (`self.nodes.iter().copied()`)
//@item solution/src/tour.rs Tour::all_nodes_iter : trusted
//@ret SeqIter<NodeIdx>
//@retname r
//@sig
    ensures r@ == self.nodes@,
//@end
//@item solution/src/schedule.rs Schedule::get_network
//@retname r
//@sig
    ensures r == self.network,
//@end
//@item solution/src/schedule.rs Schedule::tour_of : trusted
//@retname r
//@sig
    ensures self.tours@.contains_key(vehicle) ==> r is Ok && *r->Ok_0 == self.tours@[vehicle],
//@end

// ---- schedule_dead_head_trip: verified in slice json_out (same contract text) -------------------------
//@item solution/src/json_serialisation.rs fn schedule_dead_head_trip : trusted
//@retname r
//@sig
    requires nw.wf(), nw.has(node1_idx), nw.has(node2_idx), nw.reach(node1_idx, node2_idx),
        // a vehicle's itinerary never goes from its start depot directly to its end depot
        nw.sp_node(node1_idx).sp_is_activity() || nw.sp_node(node2_idx).sp_is_activity(),
        // the instance does not start within one dead-head duration after 1.1. of year 0
        nw.sp_node(node2_idx).sp_is_activity() && nw.min_dur(node1_idx, node2_idx) is Length
            ==> tp_secs(nw.sp_node(node2_idx).sp_start_time()->Point_0) >= nw.min_dur(node1_idx, node2_idx)->Length_0.seconds,
    ensures
        // C03: "each lying inside the gap between the two activities it connects"
        dt_le(nw.sp_node(node1_idx).sp_end_time(), r.0), // @obl C03.dead_head_trip.departs_after_arrival_of_predecessor
        dt_le(r.0, r.1), // @obl C03.dead_head_trip.ordered
        dt_le(r.1, nw.sp_node(node2_idx).sp_start_time()), // @obl C03.dead_head_trip.arrives_before_departure_of_successor
//@end

// ---- vehicle_to_json ------------------------------------------------------------------------------------
//@item solution/src/json_serialisation.rs fn vehicle_to_json
//@retname r
//@sig
    requires
        // the vehicle is a real vehicle of the schedule with a well-formed real tour (C10 clause 1)
        schedule.tours@.contains_key(vehicle_idx),
        real_tour(&schedule.network, &schedule.tours@[vehicle_idx]),
        // A-depots: both depot nodes of the tour belong to depots of the network's depot table
        schedule.network.depots@.contains_key(sp_depot_idx(&schedule.network, schedule.tours@[vehicle_idx].nodes@[0])),
        schedule.network.depots@.contains_key(sp_depot_idx(&schedule.network, schedule.tours@[vehicle_idx].nodes@[schedule.tours@[vehicle_idx].nodes@.len() - 1])),
        legs_schedulable(&schedule.network, schedule.tours@[vehicle_idx].nodes@),
    ensures
        vehicle_json_ids(&schedule.network, vehicle_idx, schedule.tours@[vehicle_idx].nodes@, &r), // @obl C03.vehicle_to_json.id_and_depots
        segments_ok(&schedule.network, schedule.tours@[vehicle_idx].nodes@, r.departure_segments@), // @obl C03.vehicle_to_json.departure_segments_are_the_service_nodes
        slots_ok(&schedule.network, schedule.tours@[vehicle_idx].nodes@, r.maintenance_slots@), // @obl C03.vehicle_to_json.maintenance_slots_are_the_maintenance_nodes
        dhts_ok(&schedule.network, schedule.tours@[vehicle_idx].nodes@, schedule.tours@[vehicle_idx].nodes@.len() - 1, r.dead_head_trips@), // @obl C03.vehicle_to_json.dead_head_trips_are_the_location_changes
        dht_list_grown(vehicle_idx, old(dead_head_trips_with_formation)@, r.dead_head_trips@, final(dead_head_trips_with_formation)@), // @obl C03.vehicle_to_json.fleet_list_grows_by_these_trips
//@first
        broadcast use axiom_to_string_string, axiom_to_string_i32, axiom_to_string_vehicle_idx;
        let ghost net = &schedule.network;
        let ghost tour = &schedule.tours@[vehicle_idx];
        let ghost nodes = schedule.tours@[vehicle_idx].nodes@;
        let ghost dht0 = dead_head_trips_with_formation@;
        proof {
            lemma_tour_kinds(tour, 0);
            lemma_tour_kinds(tour, nodes.len() - 1);
        }
//@loop "for (node1_idx, node2_idx)"
        invariant
            network == schedule.network,
            net == &schedule.network,
            nodes == schedule.tours@[vehicle_idx].nodes@,
            tour == &schedule.tours@[vehicle_idx],
            schedule.tours@.contains_key(vehicle_idx),
            real_tour(net, tour),
            legs_schedulable(net, nodes),
            it.snapshot@@.len() == nodes.len() - 1,
            forall|k: int| 0 <= k < it.snapshot@@.len() ==> #[trigger] it.snapshot@@[k] == (nodes[k], nodes[k + 1]),
            0 <= it.index@ <= it.snapshot@@.len(),
            dead_head_trips_counter == dead_head_trips@.len(),
            segments_ok(net, nodes.subrange(0, it.index@ + 1), departure_segments@),
            slots_ok(net, nodes.subrange(0, it.index@ + 1), maintenance_slots@),
            dhts_ok(net, nodes, it.index@ as int, dead_head_trips@),
            dht_list_grown(vehicle_idx, dht0, dead_head_trips@, dead_head_trips_with_formation@),
//@before "let node1 ="
            proof {
                let k = it.index@ as int;
                assert(it.snapshot@@[k] == (nodes[k], nodes[k + 1]));
                lemma_tour_kinds(tour, k);
                lemma_tour_kinds(tour, k + 1);
                assert(net.reach(nodes[k], nodes[k + 1]));
                assert(net.nodes@.contains_key(nodes[k]) && net.nodes@.contains_key(nodes[k + 1]));
                lemma_change_legs_bounds(net, nodes, k);
                lemma_nodes_in_step(net, nodes, k + 1);
                lemma_nodes_in_len(net, nodes.subrange(0, k + 1));
            }
//@after "let (departure_time, arrival_time)"
                assert(in_gap(net, node1_idx, node2_idx, departure_time, arrival_time));
//@end

} // mod tr
} // verus!
fn main() {}
