// slice `json_writer`: the JSON writer functions of solution/src/json_serialisation.rs under contract
// (C03 vehicle perspective and trip perspective; A-json of C01: "the writer emits the tour it is given";
// A-json of C05: "the writer emits the cycles it is given", incl. empty and one-vehicle cycles).
// Verified verbatim: vehicle_to_json, fleet_to_json, departure_segments_to_json, maintenance_slots_to_json,
// depot_usage_to_json, depots_usage_to_json, schedule_to_json (+ the small accessors listed below).
//
// Texts are opaque (A-text, env/json_writer_shim.vs): `iso(t)` = DateTime::as_iso, `vid_text(v)` =
// VehicleIdx::to_string, `int_text(i)` = i32::to_string, `loc_name` = Locations::get_id (verified), ids =
// the views of the `String` fields.  The contracts say WHICH value is rendered WHERE.
//
// ASSUMPTIONS introduced by this slice (all in env/json_writer_shim.vs unless noted):
//   A-text   axiom_to_string_{string,i32,vehicle_idx}: fix vstd's abstract `to_string_from_display_ensures`
//            (String::to_string is the identity on the view; i32 / VehicleIdx render to int_text / vid_text);
//            axiom_string_add_{req,obeys,spec}: `String + &str` has no precondition and concatenates;
//            DateTime::as_iso stub: r@ == iso(*self).
//   R10      `//@add-ufcs` on vehicle_to_json: `A + &B` is emitted as `std::ops::Add::add(A, &B)` (Verus
//            0.2026.09.13 has an internal error on the operator form of any `impl Add<&T>`).
//   A-iter   stubs returning SeqIter: Tour::all_nodes_iter (= nodes), Schedule::vehicles_iter (= the type's
//            sorted id list; requires the key), Transition::cycles_iter (= cycles), TransitionCycle::iter
//            (= cycle), TrainFormation::iter (= formation), VehicleTypes::iter (= ids_sorted),
//            Network::service_nodes (= the type's list; requires the key), Network::maintenance_nodes,
//            Network::depots_iter (= `depot_order`, every key of the depot table exactly once);
//            plus SeqIter::{map, collect, tuple_windows} of env/seqiter.vs.
//   A-stub   Schedule::tour_of (contract text of slices/reassign.vs; verified in slice depot_usage),
//            VehicleTypes::get (contract text of env/limits_fns.vs),
//            Schedule::number_of_vehicles_of_same_type_spawned_at_custom_usage (verified in slice admission,
//            same contract text), schedule_dead_head_trip (verified in slice json_out, same contract text),
//            env/model_fns.vs included trusted (Node accessors, Network::node; verified in slice network).
//   A-im     im::HashMap::get (env/im_shim.vs), im::HashSet opaque with view Set.
//   A-serde  serde_json::to_value(ScheduleJson) never fails; `doc_of(value)` is the struct it was given.
// PRECONDITIONS the callers must guarantee (panic freedom; all are parts of schedule validity C10 or of
// how Network::new builds its indices, none is proved here):
//   vehicle_ok   the vehicle has a well-formed real tour over the schedule's network (`tour_of(..).unwrap()`,
//                `as_depot`), at most 2^17+2 nodes (i32 trip counter), both depot nodes belong to depots of
//                the depot table (A-depots, `get_depot` unwrap), and the instance does not start within one
//                dead-head duration after 1.1. of year 0 (first leg only; later legs are proved).
//   type_ok      the type has a vehicle list, a transition and a VehicleType entry; its vehicles are vehicle_ok.
//   segments_pre / slots_pre   the per-type index lists service nodes of the network, `maintenance_nodes`
//                lists maintenance nodes (A-index, soundness half), every listed node has a train-formation
//                entry (C10), every listed type is a type of the network.
//   usage_pre    every listed type is a type of the network; spawn counts fit u32.
//   A-index (completeness half, `a_index`): every service / maintenance node of the network occurs exactly
//                once in the enumeration; stated, used only by lemma_every_{segment,slot}_exactly_once.
// NOT covered: that `train_formation_of(n)` is exactly the set of vehicles whose tour contains n (C03
// "trip perspective equals vehicle perspective") is an invariant of Schedule (C10), not of the writer; the
// writer obligations are that the trip view prints train_formation_of(n) and the vehicle view prints the tours.
#![feature(allocator_api)]
use vstd::prelude::*;
use std::ops::Add;
use std::ops::Sub;
use std::collections::{BTreeMap, HashMap};
use std::sync::Arc;
//@include env/display_time.rs
//@include env/display_model.rs
verus! {
//@include env/std_specs.vs
//@include env/seqiter.vs
//@include env/time_types.vs
//@include-trusted env/time_ops.vs
//@include env/model_types.vs
//@include env/broadcast_model.vs
//@include env/model_network_types.vs
//@include env/model_spec.vs
//@include-trusted env/model_fns.vs
//@include env/solution_types.vs
//@include env/tour_spec.vs

pub mod tr {
use super::*;
use vstd::prelude::*;
use self::im::HashMap;
use self::im_set::HashSet;
//@include env/im_shim.vs
//@include env/json_writer_shim.vs

// ---- model accessors (verified here, verbatim bodies) -------------------------------------------------
//@item model/src/network/nodes.rs Node::as_depot
//@retname r
//@sig
    requires self.sp_is_depot(),
    ensures *r == (match self { Node::StartDepot((_, d)) => *d, Node::EndDepot((_, d)) => *d, _ => arbitrary() }),
//@end
//@item model/src/network/nodes.rs DepotNode::depot_idx
//@retname r
//@sig
    ensures r == self.depot_idx,
//@end
//@item model/src/network.rs Network::get_depot_idx
//@retname r
//@sig
    requires self.has(node_idx), self.sp_node(node_idx).sp_is_depot(),
    ensures r == sp_depot_idx(self, node_idx),
//@end
//@item model/src/network.rs Network::get_depot
//@retname r
//@sig
    requires self.depots@.contains_key(depot_idx),
    ensures *r == self.depots@[depot_idx].0,
//@first
        broadcast use key_axioms::axiom_key_model_depot_idx;
//@end
//@item model/src/network/depot.rs Depot::id
//@retname r
//@sig
    ensures r@ == self.id@,
//@end
//@item model/src/network.rs Network::locations
//@retname r
//@sig
    ensures *r == *self.locations,
//@end
//@item model/src/network/nodes.rs ServiceTrip::id
//@retname r
//@sig
    ensures *r == self.id,
//@end
//@item model/src/network/nodes.rs MaintenanceSlot::id
//@retname r
//@sig
    ensures *r == self.id,
//@end
//@item model/src/locations.rs Locations::get_id
//@retname r
//@sig
    ensures
        self.has(location) ==> r is Ok && r->Ok_0@ == loc_name(self, location),
//@first
        broadcast use key_axioms::axiom_key_model_location_idx;
//@end

// ---- Tour / Schedule ------------------------------------------------------------------------------------
//@item solution/src/tour.rs Tour::first_node
//@retname r
//@sig
    requires self.nodes@.len() >= 1,
    ensures r == self.nodes@[0],
//@end
//@item solution/src/tour.rs Tour::last_node
//@retname r
//@sig
    requires self.nodes@.len() >= 1,
    ensures r == self.nodes@[self.nodes@.len() - 1],
//@end
/// A-iter: `Tour::all_nodes_iter` yields the nodes of the tour in order (`self.nodes.iter().copied()`)
//@item solution/src/tour.rs Tour::all_nodes_iter : trusted
//@ret SeqIter<NodeIdx>
//@retname r
//@sig
    ensures r@ == self.nodes@,
//@end
//@item solution/src/schedule.rs Schedule::get_network
//@retname r
//@sig
    ensures r == self.network,
//@end
//@item solution/src/schedule.rs Schedule::tour_of : trusted
//@retname r
//@sig
    ensures
        self.tours@.contains_key(vehicle) ==> r is Ok && *r->Ok_0 == self.tours@[vehicle],
        !self.tours@.contains_key(vehicle) && self.dummy_tours@.contains_key(vehicle) ==> r is Ok && *r->Ok_0 == self.dummy_tours@[vehicle],
        !self.tours@.contains_key(vehicle) && !self.dummy_tours@.contains_key(vehicle) ==> r is Err,
//@end

// ---- schedule_dead_head_trip: verified in slice json_out (same contract text) -------------------------
//@item solution/src/json_serialisation.rs fn schedule_dead_head_trip : trusted
//@retname r
//@sig
    requires nw.wf(), nw.has(node1_idx), nw.has(node2_idx), nw.reach(node1_idx, node2_idx),
        // a vehicle's itinerary never goes from its start depot directly to its end depot
        nw.sp_node(node1_idx).sp_is_activity() || nw.sp_node(node2_idx).sp_is_activity(),
        // the instance does not start within one dead-head duration after 1.1. of year 0
        nw.sp_node(node2_idx).sp_is_activity() && nw.min_dur(node1_idx, node2_idx) is Length
            ==> tp_secs(nw.sp_node(node2_idx).sp_start_time()->Point_0) >= nw.min_dur(node1_idx, node2_idx)->Length_0.seconds,
    ensures
        // C03: "each lying inside the gap between the two activities it connects"
        dt_le(nw.sp_node(node1_idx).sp_end_time(), r.0), // @obl C03.dead_head_trip.departs_after_arrival_of_predecessor
        dt_le(r.0, r.1), // @obl C03.dead_head_trip.ordered
        dt_le(r.1, nw.sp_node(node2_idx).sp_start_time()), // @obl C03.dead_head_trip.arrives_before_departure_of_successor
//@end

// ---- vehicle_to_json ------------------------------------------------------------------------------------
//@item solution/src/json_serialisation.rs fn vehicle_to_json
//@retname r
//@add-ufcs
//@sig
    requires vehicle_ok(schedule, vehicle_idx),
    ensures
        vehicle_json_ids(&schedule.network, vehicle_idx, schedule.tours@[vehicle_idx].nodes@, &r), // @obl C03.vehicle_to_json.id_and_depots
        segments_ok(&schedule.network, schedule.tours@[vehicle_idx].nodes@, r.departure_segments@), // @obl C03.vehicle_to_json.departure_segments_are_the_service_nodes
        slots_ok(&schedule.network, schedule.tours@[vehicle_idx].nodes@, r.maintenance_slots@), // @obl C03.vehicle_to_json.maintenance_slots_are_the_maintenance_nodes
        dhts_ok(&schedule.network, schedule.tours@[vehicle_idx].nodes@, schedule.tours@[vehicle_idx].nodes@.len() - 1, r.dead_head_trips@), // @obl C03.vehicle_to_json.dead_head_trips_are_the_location_changes
        dht_list_grown(vehicle_idx, old(dead_head_trips_with_formation)@, r.dead_head_trips@, final(dead_head_trips_with_formation)@), // @obl C03.vehicle_to_json.fleet_list_grows_by_these_trips
//@first
        broadcast use group_text;
        let ghost net = &schedule.network;
        let ghost tour = &schedule.tours@[vehicle_idx];
        let ghost nodes = schedule.tours@[vehicle_idx].nodes@;
        let ghost dht0 = dead_head_trips_with_formation@;
        proof {
            lemma_tour_kinds(tour, 0);
            lemma_tour_kinds(tour, nodes.len() - 1);
            lemma_legs_schedulable(net, tour);
        }
//@loop "for (node1_idx, node2_idx)"
        invariant
            network == schedule.network,
            net == &schedule.network,
            nodes == schedule.tours@[vehicle_idx].nodes@,
            tour == &schedule.tours@[vehicle_idx],
            vehicle_ok(schedule, vehicle_idx),
            legs_schedulable(net, nodes),
            it.snapshot@@.len() == nodes.len() - 1,
            forall|k: int| 0 <= k < it.snapshot@@.len() ==> #[trigger] it.snapshot@@[k] == (nodes[k], nodes[k + 1]),
            0 <= it.index@ <= it.snapshot@@.len(),
            dead_head_trips_counter == dead_head_trips@.len(),
            segments_ok(net, nodes.subrange(0, it.index@ + 1), departure_segments@), // @obl C03.vehicle_to_json.departure_segments_are_the_service_nodes
            slots_ok(net, nodes.subrange(0, it.index@ + 1), maintenance_slots@), // @obl C03.vehicle_to_json.maintenance_slots_are_the_maintenance_nodes
            dhts_ok(net, nodes, it.index@ as int, dead_head_trips@), // @obl C03.vehicle_to_json.dead_head_trips_are_the_location_changes
            dht_list_grown(vehicle_idx, dht0, dead_head_trips@, dead_head_trips_with_formation@), // @obl C03.vehicle_to_json.fleet_list_grows_by_these_trips
//@before "for (node1_idx, node2_idx)"
        proof {
            // the first node is a start depot: nothing is listed for it
            lemma_nodes_in_step(net, nodes, 0);
            assert(nodes.subrange(0, 0) =~= Seq::<NodeIdx>::empty());
        }
//@before "let node1 ="
            broadcast use group_text;
            proof {
                let k = it.index@ as int;
                assert(it.snapshot@@[k] == (nodes[k], nodes[k + 1]));
                lemma_tour_kinds(tour, k);
                lemma_tour_kinds(tour, k + 1);
                assert(net.reach(nodes[k], nodes[k + 1]));
                assert(net.nodes@.contains_key(nodes[k]) && net.nodes@.contains_key(nodes[k + 1]));
                lemma_change_legs_bounds(net, nodes, k);
                lemma_nodes_in_step(net, nodes, k + 1);
                lemma_nodes_in_len(net, nodes.subrange(0, k + 1));
            }
//@before "let (departure_time, arrival_time)"
                assert(loc_change(net, nodes[it.index@ as int], nodes[it.index@ + 1]));
//@after "let (departure_time, arrival_time)"
                assert(in_gap(net, node1_idx, node2_idx, departure_time, arrival_time)); // @obl C03.vehicle_to_json.dead_head_trip_inside_the_gap
//@after "dead_head_trips_with_formation.push"
                proof {
                    let k = it.index@ as int;
                    let n = dead_head_trips@.len() - 1;
                    assert(is_dht_entry(net, nodes[k], nodes[k + 1], n, &dead_head_trips@[n])); // @obl C03.vehicle_to_json.dead_head_trip_entry_has_the_legs_own_data
                    assert(change_legs(net, nodes, k + 1) == change_legs(net, nodes, k).push(k)); // @obl C03.vehicle_to_json.dead_head_trips_are_the_location_changes
                    assert(dhts_ok(net, nodes, k + 1, dead_head_trips@)); // @obl C03.vehicle_to_json.dead_head_trips_are_the_location_changes
                    assert(is_dht_copy(vehicle_idx, &dead_head_trips@[n], &dead_head_trips_with_formation@[dht0.len() + n])); // @obl C03.vehicle_to_json.fleet_list_copy_has_formation_of_the_vehicle
                    assert(dht_list_grown(vehicle_idx, dht0, dead_head_trips@, dead_head_trips_with_formation@)); // @obl C03.vehicle_to_json.fleet_list_grows_by_these_trips
                }
//@before "match node2"
            proof {
                let k = it.index@ as int;
                assert(change_legs(net, nodes, k + 1) == (if loc_change(net, nodes[k], nodes[k + 1]) { change_legs(net, nodes, k).push(k) } else { change_legs(net, nodes, k) })); // @obl C03.vehicle_to_json.dead_head_trips_are_the_location_changes
                assert(dhts_ok(net, nodes, k + 1, dead_head_trips@)); // @obl C03.vehicle_to_json.dead_head_trips_are_the_location_changes
            }
//@after "departure_segments.push"
                proof {
                    let k = it.index@ as int;
                    let n = departure_segments@.len() - 1;
                    assert(is_segment_entry(net, nodes[k + 1], &departure_segments@[n])); // @obl C03.vehicle_to_json.departure_segment_entry_has_the_nodes_own_data
                    assert(segments_ok(net, nodes.subrange(0, k + 2), departure_segments@)); // @obl C03.vehicle_to_json.departure_segments_are_the_service_nodes
                }
//@after "maintenance_slots.push"
                proof {
                    let k = it.index@ as int;
                    let n = maintenance_slots@.len() - 1;
                    assert(is_slot_entry(net, nodes[k + 1], &maintenance_slots@[n])); // @obl C03.vehicle_to_json.maintenance_slot_entry_has_the_nodes_own_data
                    assert(slots_ok(net, nodes.subrange(0, k + 2), maintenance_slots@)); // @obl C03.vehicle_to_json.maintenance_slots_are_the_maintenance_nodes
                }
//@before "JsonVehicle {"
        proof {
            assert(nodes.subrange(0, nodes.len() as int) =~= nodes);
        }
//@end

// ---- fleet_to_json ---------------------------------------------------------------------------------------
/// A-iter: `Schedule::vehicles_iter` yields the sorted id list of the type (`self.vehicle_ids_grouped_and_sorted[&vt].iter().copied()`;
/// indexing an im::HashMap with a missing key panics)
//@item solution/src/schedule.rs Schedule::vehicles_iter : trusted
//@ret SeqIter<VehicleIdx>
//@retname r
//@sig
    requires self.vehicle_ids_grouped_and_sorted@.contains_key(vehicle_type),
    ensures r@ == type_vehicles(self, vehicle_type),
//@end
//@item solution/src/schedule.rs Schedule::next_day_transition_of
//@retname r
//@sig
    requires self.next_period_transitions@.contains_key(vehicle_type),
    ensures *r == self.next_period_transitions@[vehicle_type],
//@end
/// A-iter: `Transition::cycles_iter` yields the cycles in order (`self.cycles.iter()`)
//@item solution/src/transition.rs Transition::cycles_iter : trusted
//@ret SeqIter<&TransitionCycle>
//@retname r
//@sig
    ensures r@.len() == self.cycles@.len(), forall|i: int| 0 <= i < r@.len() ==> *(#[trigger] r@[i]) == self.cycles@[i],
//@end
/// A-iter: `TransitionCycle::iter` yields the vehicles of the cycle in order (`self.cycle.iter().copied()`)
//@item solution/src/transition/transition_cycle.rs TransitionCycle::iter : trusted
//@ret SeqIter<VehicleIdx>
//@retname r
//@sig
    ensures r@ == self.cycle@,
//@end
//@item model/src/network.rs Network::vehicle_types
//@retname r
//@sig
    ensures r == self.vehicle_types,
//@end
//@item model/src/vehicle_types.rs VehicleTypes::get : trusted
//@retname r
//@sig
    ensures
        self.vehicle_types@.contains_key(idx) ==> r is Some && r.unwrap() == self.vehicle_types@[idx],
        !self.vehicle_types@.contains_key(idx) ==> r is None,
//@end
//@item model/src/vehicle_types.rs VehicleType::id
//@retname r
//@sig
    ensures *r == self.id,
//@end

//@item solution/src/json_serialisation.rs fn fleet_to_json
//@retname r
//@sig
    requires type_ok(schedule, vehicle_type),
    ensures
        r.vehicle_type@ == type_id(&schedule.network, vehicle_type), // @obl C03.fleet_to_json.vehicle_type_id
        vehicles_listed(schedule, type_vehicles(schedule, vehicle_type), r.vehicles@), // @obl C03.fleet_to_json.every_vehicle_with_its_itinerary
        cycles_listed(type_cycles(schedule, vehicle_type), r.vehicle_cycles@), // @obl C05.fleet_to_json.cycles_emitted_verbatim
        fleet_dht_grown(type_vehicles(schedule, vehicle_type), r.vehicles@, old(dead_head_trips_with_formation)@, final(dead_head_trips_with_formation)@), // @obl C03.fleet_to_json.fleet_list_grows_by_the_vehicles_trips
//@closure-params 0
    VehicleIdx
//@closure 0
    -> (t: String) ensures t@ == vid_text(vehicle_id)
//@first
        broadcast use group_text;
        let ghost vs = type_vehicles(schedule, vehicle_type);
        let ghost cs = type_cycles(schedule, vehicle_type);
        let ghost dht0 = dead_head_trips_with_formation@;
//@loop "for vehicle_idx in"
        invariant
            type_ok(schedule, vehicle_type),
            vs == type_vehicles(schedule, vehicle_type),
            it.snapshot@@ == vs,
            0 <= it.index@ <= vs.len(),
            vehicles_listed(schedule, vs.subrange(0, it.index@ as int), vehicles@), // @obl C03.fleet_to_json.every_vehicle_with_its_itinerary
            fleet_dht_grown(vs, vehicles@, dht0, dead_head_trips_with_formation@), // @obl C03.fleet_to_json.fleet_list_grows_by_the_vehicles_trips
//@before "vehicles.push"
            let ghost veh1 = vehicles@;
            let ghost dht1 = dead_head_trips_with_formation@;
            proof { assert(vehicle_ok(schedule, vs[it.index@ as int])); }
//@after "vehicles.push"
            proof {
                let k = it.index@ as int;
                let x = vehicles@[k];
                let dht2 = dead_head_trips_with_formation@;
                assert(vehicles@ == veh1.push(x));
                assert(vs.subrange(0, k + 1) =~= vs.subrange(0, k).push(vs[k]));
                assert(is_vehicle_json(&schedule.network, vs[k], schedule.tours@[vs[k]].nodes@, &vehicles@[k])); // @obl C03.fleet_to_json.every_vehicle_with_its_itinerary
                assert(dht_list_grown(vs[k], dht1, x.dead_head_trips@, dht2));
                lemma_dht_total_prefix(vehicles@, veh1, k);
                assert forall|i: int, j: int| 0 <= i < vehicles@.len() && 0 <= j < vehicles@[i].dead_head_trips@.len() // @obl C03.fleet_to_json.fleet_list_grows_by_the_vehicles_trips
                    implies is_dht_copy(vs[i], #[trigger] &vehicles@[i].dead_head_trips@[j], &dht2[dht0.len() + dht_total(vehicles@, i) + j]) by {
                    lemma_dht_total_prefix(vehicles@, veh1, i);
                    lemma_dht_total_mono(veh1, i, k);
                    if i < k {
                        lemma_dht_total_mono(veh1, i + 1, k);
                        assert(is_dht_copy(vs[i], &veh1[i].dead_head_trips@[j], &dht1[dht0.len() + dht_total(veh1, i) + j]));
                        assert(dht2[dht0.len() + dht_total(veh1, i) + j] == dht1[dht0.len() + dht_total(veh1, i) + j]);
                    } else {
                        assert(is_dht_copy(vs[k], &x.dead_head_trips@[j], &dht2[dht1.len() + j]));
                    }
                }
                assert forall|i: int| 0 <= i < dht0.len() implies #[trigger] dht2[i] == dht0[i] by {
                    lemma_dht_total_mono(veh1, 0, k);
                    assert(dht2[i] == dht1[i]);
                }
            }
//@loop "for transtion_cylce in"
        invariant
            cs == type_cycles(schedule, vehicle_type),
            it.snapshot@@.len() == cs.len(),
            forall|i: int| 0 <= i < cs.len() ==> *(#[trigger] it.snapshot@@[i]) == cs[i],
            0 <= it.index@ <= cs.len(),
            cycles_listed(cs.subrange(0, it.index@ as int), vehicle_cycles@), // @obl C05.fleet_to_json.cycles_emitted_verbatim
//@before "vehicle_cycles.push"
            broadcast use group_text;
//@after "vehicle_cycles.push"
            proof {
                let k = it.index@ as int;
                assert(cs.subrange(0, k + 1) =~= cs.subrange(0, k).push(cs[k]));
                assert(ids_listed(cs[k].cycle@, vehicle_cycles@[k]@)); // @obl C05.fleet_to_json.cycles_emitted_verbatim
            }
//@before "JsonFleet {"
        proof {
            assert(vs.subrange(0, vs.len() as int) =~= vs);
            assert(cs.subrange(0, cs.len() as int) =~= cs);
        }
//@end

// ---- departure_segments_to_json / maintenance_slots_to_json -----------------------------------------------
/// A-iter: `VehicleTypes::iter` yields the ids of `ids_sorted` in order (`self.ids_sorted.iter().cloned()`)
//@item model/src/vehicle_types.rs VehicleTypes::iter : trusted
//@ret SeqIter<VehicleTypeIdx>
//@retname r
//@sig
    ensures r@ == self.ids_sorted@,
//@end
/// A-iter: `Network::service_nodes` yields the type's list in order (`self.service_nodes[&vt].iter().copied()`;
/// indexing a HashMap with a missing key panics)
//@item model/src/network.rs Network::service_nodes : trusted
//@ret SeqIter<NodeIdx>
//@retname r
//@sig
    requires self.service_nodes@.contains_key(vehicle_type),
    ensures r@ == self.service_nodes@[vehicle_type]@,
//@end
/// A-iter: `Network::maintenance_nodes` yields the list in order (`self.maintenance_nodes.iter().copied()`)
//@item model/src/network.rs Network::maintenance_nodes : trusted
//@ret SeqIter<NodeIdx>
//@retname r
//@sig
    ensures r@ == self.maintenance_nodes@,
//@end
/// A-iter: `TrainFormation::iter` yields the vehicles front to tail (`self.formation.iter()`)
//@item solution/src/train_formation.rs TrainFormation::iter : trusted
//@ret SeqIter<&Vehicle>
//@retname r
//@sig
    ensures r@.len() == self.formation@.len(), forall|i: int| 0 <= i < r@.len() ==> *(#[trigger] r@[i]) == self.formation@[i],
//@end
//@item solution/src/vehicle.rs Vehicle::idx
//@retname r
//@sig
    ensures r == self.idx,
//@end
//@item model/src/network/nodes.rs Node::as_service_trip
//@retname r
//@sig
    requires self is Service,
    ensures *r == self->Service_0.1,
//@end
//@item model/src/network/nodes.rs Node::as_maintenance_slot
//@retname r
//@sig
    requires self is Maintenance,
    ensures *r == self->Maintenance_0.1,
//@end
//@item solution/src/schedule.rs Schedule::train_formation_of
//@retname r
//@sig
    requires self.train_formations@.contains_key(node),
    ensures *r == self.train_formations@[node],
//@end

//@item solution/src/json_serialisation.rs fn departure_segments_to_json
//@retname r
//@sig
    requires segments_pre(schedule),
    ensures
        // one entry per (vehicle type, service node of the type's index), in enumeration order, with the node's own data
        segments_listed(schedule, all_seg_rows(&schedule.network), r@), // @obl C03.departure_segments.formation_is_train_formation
//@closure-params 0
    &Vehicle
//@closure 0
    -> (t: String) ensures t@ == vid_text(vehicle.idx)
//@first
        broadcast use group_text;
        let ghost net = &schedule.network;
        let ghost types = schedule.network.vehicle_types.ids_sorted@;
//@loop "for vehicle_type in"
        invariant
            network == schedule.network, net == &schedule.network, segments_pre(schedule),
            types == schedule.network.vehicle_types.ids_sorted@,
            it.snapshot@@ == types,
            0 <= it.index@ <= types.len(),
            segments_listed(schedule, seg_rows(net, types, it.index@ as int), departure_segments@), // @obl C03.departure_segments.formation_is_train_formation
//@before "for service_trip_node_idx in"
            let ghost ti = it.index@ as int;
            let ghost ns = net.service_nodes@[vehicle_type]@;
            proof { assert(vehicle_type == types[ti]); assert(ns.subrange(0, 0) =~= Seq::<NodeIdx>::empty());
                assert(seg_rows(net, types, ti) + rows_of_type(vehicle_type, ns.subrange(0, 0)) =~= seg_rows(net, types, ti)); }
//@loop "for service_trip_node_idx in"
            invariant
                network == schedule.network, net == &schedule.network, segments_pre(schedule),
                types == schedule.network.vehicle_types.ids_sorted@,
                0 <= ti < types.len(), vehicle_type == types[ti],
                ns == net.service_nodes@[vehicle_type]@,
                it.snapshot@@ == ns,
                0 <= it.index@ <= ns.len(),
                segments_listed(schedule, seg_rows(net, types, ti) + rows_of_type(vehicle_type, ns.subrange(0, it.index@ as int)), departure_segments@), // @obl C03.departure_segments.formation_is_train_formation
//@before "let service_trip_node ="
                broadcast use group_text;
                proof {
                    let j = it.index@ as int;
                    assert(service_trip_node_idx == net.service_nodes@[types[ti]]@[j]);
                    assert(net.nodes@.contains_key(service_trip_node_idx));
                }
//@after "departure_segments.push"
                proof {
                    let j = it.index@ as int;
                    let n = departure_segments@.len() - 1;
                    let rows0 = seg_rows(net, types, ti) + rows_of_type(vehicle_type, ns.subrange(0, j));
                    let rows1 = seg_rows(net, types, ti) + rows_of_type(vehicle_type, ns.subrange(0, j + 1));
                    assert(rows1 =~= rows0.push((vehicle_type, ns[j])));
                    assert(is_segment_row(schedule, vehicle_type, service_trip_node_idx, &departure_segments@[n])); // @obl C03.departure_segments.entry_has_the_nodes_own_data_and_formation
                }
//@after "for service_trip_node_idx in"
            proof {
                assert(ns.subrange(0, ns.len() as int) =~= ns);
            }
//@end

//@item solution/src/json_serialisation.rs fn maintenance_slots_to_json
//@retname r
//@sig
    requires slots_pre(schedule),
    ensures
        // one entry per maintenance node of the network's list, in order, with the node's own data
        slots_listed(schedule, schedule.network.maintenance_nodes@, r@), // @obl C03.maintenance_slots.formation_is_train_formation
//@closure-params 0
    &Vehicle
//@closure 0
    -> (t: String) ensures t@ == vid_text(vehicle.idx)
//@first
        broadcast use group_text;
        let ghost net = &schedule.network;
        let ghost ns = schedule.network.maintenance_nodes@;
//@loop "for maintenance_node_idx in"
        invariant
            network == schedule.network, net == &schedule.network, slots_pre(schedule),
            ns == schedule.network.maintenance_nodes@,
            it.snapshot@@ == ns,
            0 <= it.index@ <= ns.len(),
            slots_listed(schedule, ns.subrange(0, it.index@ as int), maintenance_slots@), // @obl C03.maintenance_slots.formation_is_train_formation
//@before "let maintenance_node ="
            broadcast use group_text;
            proof {
                let j = it.index@ as int;
                assert(maintenance_node_idx == net.maintenance_nodes@[j]);
                assert(net.nodes@.contains_key(maintenance_node_idx));
            }
//@after "maintenance_slots.push"
            proof {
                let j = it.index@ as int;
                let n = maintenance_slots@.len() - 1;
                assert(ns.subrange(0, j + 1) =~= ns.subrange(0, j).push(ns[j]));
                assert(is_slot_row(schedule, maintenance_node_idx, &maintenance_slots@[n])); // @obl C03.maintenance_slots.entry_has_the_nodes_own_data_and_formation
            }
//@after "for maintenance_node_idx in"
        proof { assert(ns.subrange(0, ns.len() as int) =~= ns); }
//@end

// ---- depot usage ------------------------------------------------------------------------------------------
//@item solution/src/schedule.rs Schedule::get_vehicle_types
//@retname r
//@sig
    ensures r == self.network.vehicle_types,
//@end
// verified in slice admission (same contract text)
//@item solution/src/schedule.rs Schedule::number_of_vehicles_of_same_type_spawned_at_custom_usage : trusted
//@retname r
//@sig
    requires spawned_of_type(depot_usage@, depot, vehicle_type) <= u32::MAX,
    ensures r == spawned_of_type(depot_usage@, depot, vehicle_type), // @obl C02.spawned_of_same_type.count
//@end
//@item solution/src/schedule.rs Schedule::number_of_vehicles_of_same_type_spawned_at
//@retname r
//@sig
    requires spawned_of_type(self.depot_usage@, depot, vehicle_type) <= u32::MAX,
    ensures r == spawned_of_type(self.depot_usage@, depot, vehicle_type),
//@end
// sibling accessor (stub, present so that a call to it type-checks; its total over all types is an opaque
// number here, verified as a sum over the types in slice admission)
pub uninterp spec fn spawned_all_types(du: UsageMap, d: DepotIdx) -> nat;
//@item solution/src/schedule.rs Schedule::number_of_vehicles_spawned_at : trusted
//@retname r
//@sig
    ensures r == spawned_all_types(self.depot_usage@, depot),
//@end
/// A-iter: `Network::depots_iter` yields every depot of the depot table exactly once, in an unspecified
/// order (`self.depots.keys().copied()`)
//@item model/src/network.rs Network::depots_iter : trusted
//@ret SeqIter<DepotIdx>
//@retname r
//@sig
    ensures r@ == depot_order(self), r@.no_duplicates(),
        forall|d: DepotIdx| #[trigger] r@.contains(d) <==> self.depots@.contains_key(d),
//@end

//@item solution/src/json_serialisation.rs fn depot_usage_to_json
//@retname r
//@sig
    requires usage_pre(schedule, depot_idx),
    ensures
        depot_loads_ok(schedule, depot_idx, r@), // @obl C03.depot_usage_to_json.one_load_per_spawning_type_with_its_count
//@first
        let ghost types = schedule.network.vehicle_types.ids_sorted@;
        let ghost du = schedule.depot_usage@;
//@loop "for vehicle_type in"
        invariant
            network == schedule.network, usage_pre(schedule, depot_idx),
            types == schedule.network.vehicle_types.ids_sorted@, du == schedule.depot_usage@,
            it.snapshot@@ == types,
            0 <= it.index@ <= types.len(),
            loads_listed(schedule, depot_idx, spawning_types(du, depot_idx, types, it.index@ as int), loads@), // @obl C03.depot_usage_to_json.one_load_per_spawning_type_with_its_count
//@before "let spawn_count"
            proof { assert(vehicle_type == types[it.index@ as int]); }
//@end

//@item solution/src/json_serialisation.rs fn depots_usage_to_json
//@retname r
//@sig
    requires forall|d: DepotIdx| schedule.network.depots@.contains_key(d) ==> #[trigger] usage_pre(schedule, d),
    ensures
        // every depot of the depot table exactly once (in `depots_iter` order) with its id and its loads
        depots_listed(schedule, depot_order(&schedule.network), r@), // @obl C03.depots_usage_to_json.every_depot_with_its_loads
        depot_order(&schedule.network).no_duplicates(),
        forall|d: DepotIdx| #[trigger] depot_order(&schedule.network).contains(d) <==> schedule.network.depots@.contains_key(d),
//@first
        let ghost ds = depot_order(&schedule.network);
//@loop "for depot_idx in"
        invariant
            network == schedule.network,
            forall|d: DepotIdx| schedule.network.depots@.contains_key(d) ==> #[trigger] usage_pre(schedule, d),
            ds == depot_order(&schedule.network),
            forall|d: DepotIdx| #[trigger] ds.contains(d) <==> schedule.network.depots@.contains_key(d),
            it.snapshot@@ == ds,
            0 <= it.index@ <= ds.len(),
            depots_listed(schedule, ds.subrange(0, it.index@ as int), depot_loads@), // @obl C03.depots_usage_to_json.every_depot_with_its_loads
//@before "let depot ="
            proof { assert(ds.contains(ds[it.index@ as int])); }
//@after "depot_loads.push"
            proof {
                let k = it.index@ as int;
                assert(ds.subrange(0, k + 1) =~= ds.subrange(0, k).push(ds[k]));
            }
//@after "for depot_idx in"
        proof { assert(ds.subrange(0, ds.len() as int) =~= ds); }
//@end

// ---- schedule_to_json ---------------------------------------------------------------------------------------
//@item solution/src/json_serialisation.rs fn schedule_to_json
//@retname r
//@sig
    requires document_pre(schedule),
    ensures
        is_schedule_json(schedule, &serde_json::doc_of(r)), // @obl C03.schedule_to_json.document_assembled_from_the_parts
//@first
        let ghost types = schedule.network.vehicle_types.ids_sorted@;
//@loop "for vehicle_type in"
        invariant
            document_pre(schedule),
            types == schedule.network.vehicle_types.ids_sorted@,
            it.snapshot@@ == types,
            0 <= it.index@ <= types.len(),
            fleets_listed(schedule, types.subrange(0, it.index@ as int), fleet@), // @obl C03.schedule_to_json.every_fleet_listed
            all_dhts_listed(schedule, types, fleet@, dead_head_trips@), // @obl C03.schedule_to_json.dead_head_list_is_the_vehicles_trips
//@before "fleet.push"
            let ghost fleet1 = fleet@;
            let ghost list1 = dead_head_trips@;
            proof { assert(type_ok(schedule, types[it.index@ as int])); }
//@after "fleet.push"
            proof {
                let k = it.index@ as int;
                let x = fleet@[k];
                let list2 = dead_head_trips@;
                let vs = type_vehicles(schedule, types[k]);
                assert(fleet@ == fleet1.push(x));
                assert(types.subrange(0, k + 1) =~= types.subrange(0, k).push(types[k]));
                assert(is_fleet_json(schedule, types[k], &fleet@[k])); // @obl C03.schedule_to_json.every_fleet_listed
                assert(fleet_dht_grown(vs, x.vehicles@, list1, list2));
                lemma_fleet_total_prefix(fleet@, fleet1, k);
                assert forall|t: int, i: int, j: int| 0 <= t < fleet@.len() && 0 <= i < fleet@[t].vehicles@.len() && 0 <= j < fleet@[t].vehicles@[i].dead_head_trips@.len() // @obl C03.schedule_to_json.dead_head_list_is_the_vehicles_trips
                    implies is_dht_copy(type_vehicles(schedule, types[t])[i], #[trigger] &fleet@[t].vehicles@[i].dead_head_trips@[j],
                        &list2[fleet_total(fleet@, t) + dht_total(fleet@[t].vehicles@, i) + j]) by {
                    lemma_fleet_total_prefix(fleet@, fleet1, t);
                    lemma_dht_slot_in_block(fleet@[t].vehicles@, i, j);
                    lemma_fleet_total_mono(fleet1, 0, t);
                    if t < k {
                        lemma_fleet_total_mono(fleet1, t + 1, k);
                        let idx = fleet_total(fleet1, t) + dht_total(fleet1[t].vehicles@, i) + j;
                        assert(is_dht_copy(type_vehicles(schedule, types[t])[i], &fleet1[t].vehicles@[i].dead_head_trips@[j], &list1[idx]));
                        assert(list2[idx] == list1[idx]);
                    } else {
                        assert(is_dht_copy(vs[i], &x.vehicles@[i].dead_head_trips@[j], &list2[list1.len() + dht_total(x.vehicles@, i) + j]));
                    }
                }
            }
//@before "let schedule_json ="
        proof { assert(types.subrange(0, types.len() as int) =~= types); }
//@end

} // mod tr
} // verus!
// `Result<Value, Error>::unwrap` needs `Error: Debug` (shim type of env/json_writer_shim.vs)
impl std::fmt::Debug for tr::serde_json::Error { fn fmt(&self, _f: &mut std::fmt::Formatter) -> std::fmt::Result { Ok(()) } }
fn main() {}
