// slice `json_writer`: the JSON writer functions of solution/src/json_serialisation.rs (C03; A-json of C01 / C05)
#![feature(allocator_api)]
use vstd::prelude::*;
use std::ops::Add;
use std::ops::Sub;
use std::collections::{BTreeMap, HashMap};
use std::sync::Arc;
//@include env/display_time.rs
//@include env/display_model.rs
verus! {
//@include env/std_specs.vs
//@include env/seqiter.vs
//@include env/time_types.vs
//@include-trusted env/time_ops.vs
//@include env/model_types.vs
//@include env/broadcast_model.vs
//@include env/model_network_types.vs
//@include env/model_spec.vs
//@include-trusted env/model_fns.vs
//@include env/solution_types.vs
//@include env/tour_spec.vs

pub mod tr {
use super::*;
use vstd::prelude::*;
use self::im::HashMap;
use self::im_set::HashSet;
//@include env/im_shim.vs
//@include env/json_writer_shim.vs

// ---- model accessors (verified here, verbatim bodies) -------------------------------------------------
//@item model/src/network/nodes.rs Node::as_depot
//@retname r
//@sig
    requires self.sp_is_depot(),
    ensures *r == (match self { Node::StartDepot((_, d)) => *d, Node::EndDepot((_, d)) => *d, _ => arbitrary() }),
//@end
//@item model/src/network/nodes.rs DepotNode::depot_idx
//@retname r
//@sig
    ensures r == self.depot_idx,
//@end
//@item model/src/network.rs Network::get_depot_idx
//@retname r
//@sig
    requires self.has(node_idx), self.sp_node(node_idx).sp_is_depot(),
    ensures r == sp_depot_idx(self, node_idx),
//@end
//@item model/src/network.rs Network::get_depot
//@retname r
//@sig
    requires self.depots@.contains_key(depot_idx),
    ensures *r == self.depots@[depot_idx].0,
//@first
        broadcast use key_axioms::axiom_key_model_depot_idx;
//@end
//@item model/src/network/depot.rs Depot::id
//@retname r
//@sig
    ensures r@ == self.id@,
//@end
//@item model/src/network.rs Network::locations
//@retname r
//@sig
    ensures *r == *self.locations,
//@end
//@item model/src/network/nodes.rs ServiceTrip::id
//@retname r
//@sig
    ensures *r == self.id,
//@end
//@item model/src/network/nodes.rs MaintenanceSlot::id
//@retname r
//@sig
    ensures *r == self.id,
//@end
//@item model/src/locations.rs Locations::get_id
//@retname r
//@sig
    ensures
        self.has(location) ==> r is Ok && r->Ok_0@ == loc_name(self, location),
//@first
        broadcast use key_axioms::axiom_key_model_location_idx;
//@end

// ---- Tour / Schedule ------------------------------------------------------------------------------------
//@item solution/src/tour.rs Tour::first_node
//@retname r
//@sig
    requires self.nodes@.len() >= 1,
    ensures r == self.nodes@[0],
//@end
//@item solution/src/tour.rs Tour::last_node
//@retname r
//@sig
    requires self.nodes@.len() >= 1,
    ensures r == self.nodes@[self.nodes@.len() - 1],
//@end
/// A-iter: `Tour::all_nodes_iter` yields the nodes of the tour in order (`self.nodes.iter().copied()`)
//@item solution/src/tour.rs Tour::all_nodes_iter : trusted
//@ret SeqIter<NodeIdx>
//@retname r
//@sig
    ensures r@ == self.nodes@,
//@end
//@item solution/src/schedule.rs Schedule::get_network
//@retname r
//@sig
    ensures r == self.network,
//@end
//@item solution/src/schedule.rs Schedule::tour_of : trusted
//@retname r
//@sig
    ensures self.tours@.contains_key(vehicle) ==> r is Ok && *r->Ok_0 == self.tours@[vehicle],
//@end

// ---- schedule_dead_head_trip: verified in slice json_out (same contract text) -------------------------
//@item solution/src/json_serialisation.rs fn schedule_dead_head_trip : trusted
//@retname r
//@sig
    requires nw.wf(), nw.has(node1_idx), nw.has(node2_idx), nw.reach(node1_idx, node2_idx),
        // a vehicle's itinerary never goes from its start depot directly to its end depot
        nw.sp_node(node1_idx).sp_is_activity() || nw.sp_node(node2_idx).sp_is_activity(),
        // the instance does not start within one dead-head duration after 1.1. of year 0
        nw.sp_node(node2_idx).sp_is_activity() && nw.min_dur(node1_idx, node2_idx) is Length
            ==> tp_secs(nw.sp_node(node2_idx).sp_start_time()->Point_0) >= nw.min_dur(node1_idx, node2_idx)->Length_0.seconds,
    ensures
        // C03: "each lying inside the gap between the two activities it connects"
        dt_le(nw.sp_node(node1_idx).sp_end_time(), r.0), // @obl C03.dead_head_trip.departs_after_arrival_of_predecessor
        dt_le(r.0, r.1), // @obl C03.dead_head_trip.ordered
        dt_le(r.1, nw.sp_node(node2_idx).sp_start_time()), // @obl C03.dead_head_trip.arrives_before_departure_of_successor
//@end

// ---- vehicle_to_json ------------------------------------------------------------------------------------
//@item solution/src/json_serialisation.rs fn vehicle_to_json
//@retname r
//@add-ufcs
//@sig
    requires vehicle_ok(schedule, vehicle_idx),
    ensures
        vehicle_json_ids(&schedule.network, vehicle_idx, schedule.tours@[vehicle_idx].nodes@, &r), // @obl C03.vehicle_to_json.id_and_depots
        segments_ok(&schedule.network, schedule.tours@[vehicle_idx].nodes@, r.departure_segments@), // @obl C03.vehicle_to_json.departure_segments_are_the_service_nodes
        slots_ok(&schedule.network, schedule.tours@[vehicle_idx].nodes@, r.maintenance_slots@), // @obl C03.vehicle_to_json.maintenance_slots_are_the_maintenance_nodes
        dhts_ok(&schedule.network, schedule.tours@[vehicle_idx].nodes@, schedule.tours@[vehicle_idx].nodes@.len() - 1, r.dead_head_trips@), // @obl C03.vehicle_to_json.dead_head_trips_are_the_location_changes
        dht_list_grown(vehicle_idx, old(dead_head_trips_with_formation)@, r.dead_head_trips@, final(dead_head_trips_with_formation)@), // @obl C03.vehicle_to_json.fleet_list_grows_by_these_trips
//@first
        broadcast use group_text;
        let ghost net = &schedule.network;
        let ghost tour = &schedule.tours@[vehicle_idx];
        let ghost nodes = schedule.tours@[vehicle_idx].nodes@;
        let ghost dht0 = dead_head_trips_with_formation@;
        proof {
            lemma_tour_kinds(tour, 0);
            lemma_tour_kinds(tour, nodes.len() - 1);
        }
//@loop "for (node1_idx, node2_idx)"
        invariant
            network == schedule.network,
            net == &schedule.network,
            nodes == schedule.tours@[vehicle_idx].nodes@,
            tour == &schedule.tours@[vehicle_idx],
            vehicle_ok(schedule, vehicle_idx),
            it.snapshot@@.len() == nodes.len() - 1,
            forall|k: int| 0 <= k < it.snapshot@@.len() ==> #[trigger] it.snapshot@@[k] == (nodes[k], nodes[k + 1]),
            0 <= it.index@ <= it.snapshot@@.len(),
            dead_head_trips_counter == dead_head_trips@.len(),
            segments_ok(net, nodes.subrange(0, it.index@ + 1), departure_segments@),
            slots_ok(net, nodes.subrange(0, it.index@ + 1), maintenance_slots@),
            dhts_ok(net, nodes, it.index@ as int, dead_head_trips@),
            dht_list_grown(vehicle_idx, dht0, dead_head_trips@, dead_head_trips_with_formation@),
//@before "for (node1_idx, node2_idx)"
        proof {
            // the first node is a start depot: nothing is listed for it
            lemma_nodes_in_step(net, nodes, 0);
            assert(nodes.subrange(0, 0) =~= Seq::<NodeIdx>::empty());
        }
//@before "let node1 ="
            broadcast use group_text;
            proof {
                let k = it.index@ as int;
                assert(it.snapshot@@[k] == (nodes[k], nodes[k + 1]));
                lemma_tour_kinds(tour, k);
                lemma_tour_kinds(tour, k + 1);
                assert(net.reach(nodes[k], nodes[k + 1]));
                assert(net.nodes@.contains_key(nodes[k]) && net.nodes@.contains_key(nodes[k + 1]));
                lemma_change_legs_bounds(net, nodes, k);
                lemma_nodes_in_step(net, nodes, k + 1);
                lemma_nodes_in_len(net, nodes.subrange(0, k + 1));
            }
//@before "let (departure_time, arrival_time)"
                assert(loc_change(net, nodes[it.index@ as int], nodes[it.index@ + 1]));
//@after "let (departure_time, arrival_time)"
                assert(in_gap(net, node1_idx, node2_idx, departure_time, arrival_time));
//@after "dead_head_trips_with_formation.push"
                proof {
                    let k = it.index@ as int;
                    let n = dead_head_trips@.len() - 1;
                    assert(is_dht_entry(net, nodes[k], nodes[k + 1], n, &dead_head_trips@[n]));
                    assert(change_legs(net, nodes, k + 1) == change_legs(net, nodes, k).push(k));
                    assert(dhts_ok(net, nodes, k + 1, dead_head_trips@));
                    assert(is_dht_copy(vehicle_idx, &dead_head_trips@[n], &dead_head_trips_with_formation@[dht0.len() + n]));
                    assert(dht_list_grown(vehicle_idx, dht0, dead_head_trips@, dead_head_trips_with_formation@));
                }
//@before "match node2"
            proof {
                let k = it.index@ as int;
                assert(change_legs(net, nodes, k + 1) == (if loc_change(net, nodes[k], nodes[k + 1]) { change_legs(net, nodes, k).push(k) } else { change_legs(net, nodes, k) }));
                assert(dhts_ok(net, nodes, k + 1, dead_head_trips@));
            }
//@after "departure_segments.push"
                proof {
                    let k = it.index@ as int;
                    let n = departure_segments@.len() - 1;
                    assert(is_segment_entry(net, nodes[k + 1], &departure_segments@[n]));
                    assert(segments_ok(net, nodes.subrange(0, k + 2), departure_segments@));
                }
//@after "maintenance_slots.push"
                proof {
                    let k = it.index@ as int;
                    let n = maintenance_slots@.len() - 1;
                    assert(is_slot_entry(net, nodes[k + 1], &maintenance_slots@[n]));
                    assert(slots_ok(net, nodes.subrange(0, k + 2), maintenance_slots@));
                }
//@before "JsonVehicle {"
        proof {
            assert(nodes.subrange(0, nodes.len() as int) =~= nodes);
        }
//@end

// ---- fleet_to_json ---------------------------------------------------------------------------------------
/// A-iter: `Schedule::vehicles_iter` yields the sorted id list of the type (`self.vehicle_ids_grouped_and_sorted[&vt].iter().copied()`;
/// indexing an im::HashMap with a missing key panics)
//@item solution/src/schedule.rs Schedule::vehicles_iter : trusted
//@ret SeqIter<VehicleIdx>
//@retname r
//@sig
    requires self.vehicle_ids_grouped_and_sorted@.contains_key(vehicle_type),
    ensures r@ == type_vehicles(self, vehicle_type),
//@end
//@item solution/src/schedule.rs Schedule::next_day_transition_of
//@retname r
//@sig
    requires self.next_period_transitions@.contains_key(vehicle_type),
    ensures *r == self.next_period_transitions@[vehicle_type],
//@end
/// A-iter: `Transition::cycles_iter` yields the cycles in order (`self.cycles.iter()`)
//@item solution/src/transition.rs Transition::cycles_iter : trusted
//@ret SeqIter<&TransitionCycle>
//@retname r
//@sig
    ensures r@.len() == self.cycles@.len(), forall|i: int| 0 <= i < r@.len() ==> *(#[trigger] r@[i]) == self.cycles@[i],
//@end
/// A-iter: `TransitionCycle::iter` yields the vehicles of the cycle in order (`self.cycle.iter().copied()`)
//@item solution/src/transition/transition_cycle.rs TransitionCycle::iter : trusted
//@ret SeqIter<VehicleIdx>
//@retname r
//@sig
    ensures r@ == self.cycle@,
//@end
//@item model/src/network.rs Network::vehicle_types
//@retname r
//@sig
    ensures r == self.vehicle_types,
//@end
//@item model/src/vehicle_types.rs VehicleTypes::get : trusted
//@retname r
//@sig
    ensures
        self.vehicle_types@.contains_key(idx) ==> r is Some && r.unwrap() == self.vehicle_types@[idx],
        !self.vehicle_types@.contains_key(idx) ==> r is None,
//@end
//@item model/src/vehicle_types.rs VehicleType::id
//@retname r
//@sig
    ensures *r == self.id,
//@end

//@item solution/src/json_serialisation.rs fn fleet_to_json
//@retname r
//@sig
    requires type_ok(schedule, vehicle_type),
    ensures
        r.vehicle_type@ == type_id(&schedule.network, vehicle_type), // @obl C03.fleet_to_json.vehicle_type_id
        vehicles_listed(schedule, type_vehicles(schedule, vehicle_type), r.vehicles@), // @obl C03.fleet_to_json.every_vehicle_with_its_itinerary
        cycles_listed(type_cycles(schedule, vehicle_type), r.vehicle_cycles@), // @obl C05.fleet_to_json.cycles_emitted_verbatim
        fleet_dht_grown(type_vehicles(schedule, vehicle_type), r.vehicles@, old(dead_head_trips_with_formation)@, final(dead_head_trips_with_formation)@), // @obl C03.fleet_to_json.fleet_list_grows_by_the_vehicles_trips
//@closure-params 0
    VehicleIdx
//@closure 0
    -> (t: String) ensures t@ == vid_text(vehicle_id)
//@first
        broadcast use group_text;
        let ghost vs = type_vehicles(schedule, vehicle_type);
        let ghost cs = type_cycles(schedule, vehicle_type);
        let ghost dht0 = dead_head_trips_with_formation@;
//@loop "for vehicle_idx in"
        invariant
            type_ok(schedule, vehicle_type),
            vs == type_vehicles(schedule, vehicle_type),
            it.snapshot@@ == vs,
            0 <= it.index@ <= vs.len(),
            vehicles_listed(schedule, vs.subrange(0, it.index@ as int), vehicles@),
            fleet_dht_grown(vs, vehicles@, dht0, dead_head_trips_with_formation@),
//@before "vehicles.push"
            let ghost veh1 = vehicles@;
            let ghost dht1 = dead_head_trips_with_formation@;
            proof { assert(vehicle_ok(schedule, vs[it.index@ as int])); }
//@after "vehicles.push"
            proof {
                let k = it.index@ as int;
                let x = vehicles@[k];
                let dht2 = dead_head_trips_with_formation@;
                assert(vehicles@ == veh1.push(x));
                assert(vs.subrange(0, k + 1) =~= vs.subrange(0, k).push(vs[k]));
                assert(is_vehicle_json(&schedule.network, vs[k], schedule.tours@[vs[k]].nodes@, &vehicles@[k]));
                assert(dht_list_grown(vs[k], dht1, x.dead_head_trips@, dht2));
                lemma_dht_total_prefix(vehicles@, veh1, k);
                assert forall|i: int, j: int| 0 <= i < vehicles@.len() && 0 <= j < vehicles@[i].dead_head_trips@.len()
                    implies is_dht_copy(vs[i], #[trigger] &vehicles@[i].dead_head_trips@[j], &dht2[dht0.len() + dht_total(vehicles@, i) + j]) by {
                    lemma_dht_total_prefix(vehicles@, veh1, i);
                    lemma_dht_total_mono(veh1, i, k);
                    if i < k {
                        lemma_dht_total_mono(veh1, i + 1, k);
                        assert(is_dht_copy(vs[i], &veh1[i].dead_head_trips@[j], &dht1[dht0.len() + dht_total(veh1, i) + j]));
                        assert(dht2[dht0.len() + dht_total(veh1, i) + j] == dht1[dht0.len() + dht_total(veh1, i) + j]);
                    } else {
                        assert(is_dht_copy(vs[k], &x.dead_head_trips@[j], &dht2[dht1.len() + j]));
                    }
                }
                assert forall|i: int| 0 <= i < dht0.len() implies #[trigger] dht2[i] == dht0[i] by {
                    lemma_dht_total_mono(veh1, 0, k);
                    assert(dht2[i] == dht1[i]);
                }
            }
//@loop "for transtion_cylce in"
        invariant
            cs == type_cycles(schedule, vehicle_type),
            it.snapshot@@.len() == cs.len(),
            forall|i: int| 0 <= i < cs.len() ==> *(#[trigger] it.snapshot@@[i]) == cs[i],
            0 <= it.index@ <= cs.len(),
            cycles_listed(cs.subrange(0, it.index@ as int), vehicle_cycles@),
//@before "vehicle_cycles.push"
            broadcast use group_text;
//@after "vehicle_cycles.push"
            proof {
                let k = it.index@ as int;
                assert(cs.subrange(0, k + 1) =~= cs.subrange(0, k).push(cs[k]));
                assert(ids_listed(cs[k].cycle@, vehicle_cycles@[k]@));
            }
//@before "JsonFleet {"
        proof {
            assert(vs.subrange(0, vs.len() as int) =~= vs);
            assert(cs.subrange(0, cs.len() as int) =~= cs);
        }
//@end

} // mod tr
} // verus!
fn main() {}
