// slice `limits`: formation-count limit combination, depot capacities, vehicles required (C02, C07 lemmas)
use vstd::prelude::*;
use std::ops::Add;
use std::ops::Sub;
use std::collections::{BTreeMap, HashMap};
use std::sync::Arc;
//@include env/display_time.rs
//@include env/display_model.rs
verus! {
//@include env/std_specs.vs
//@include env/time_types.vs
//@include-trusted env/time_ops.vs
//@include env/model_types.vs
//@include env/broadcast_model.vs
//@include env/model_network_types.vs
//@include env/model_spec.vs
//@include-trusted env/model_fns.vs

//@include env/limits_spec.vs
//@include env/limits_fns.vs
} // verus!
fn main() {}
