// slice `mcf_bounds`: bounds put on the edges of the min-cost-flow network (C02 flow upper bounds, C07 lower
// bound).  R8: the bound expressions of MinCostFlowSolver::solve_for_vehicle_type are lifted verbatim; the
// remaining 300 lines (graph building, `EdgeLabel { lower_bound, upper_bound: maximal_formation_count, cost }`,
// the call of rs_graph's network_simplex, flow decomposition) are pinned by the skeleton hash and are A-lib /
// not under contract: that the returned circulation respects the bounds is network_simplex's contract.
#![feature(allocator_api)]
use vstd::prelude::*;
use std::ops::Add;
use std::ops::Sub;
use std::collections::{BTreeMap, HashMap};
use std::sync::Arc;
//@include env/display_time.rs
//@include env/display_model.rs
verus! {
//@include env/std_specs.vs
//@include env/time_types.vs
//@include-trusted env/time_ops.vs
//@include env/model_types.vs
//@include env/broadcast_model.vs
//@include env/model_network_types.vs
//@include env/model_spec.vs
//@include-trusted env/model_fns.vs
//@include env/limits_spec.vs
//@include-trusted env/limits_fns.vs
//@item model/src/network.rs Network::get_depot : trusted
//@retname r
//@sig
    requires self.depots@.contains_key(depot_idx),
    ensures *r == self.depots@[depot_idx].0,
//@end

//@item solver/src/min_cost_flow_solver.rs type NetworkNumberType : plain
//@end
//@item solver/src/min_cost_flow_solver.rs type LowerBound : plain
//@end
//@item solver/src/min_cost_flow_solver.rs type UpperBound : plain
//@end
//@item solver/src/min_cost_flow_solver.rs struct MinCostFlowSolver : plain
//@end

//@skeleton solver/src/min_cost_flow_solver.rs MinCostFlowSolver::solve_for_vehicle_type : let maximal_formation_count; let number_of_vehicles_required; let lower_bound 0; let connection_upper_bound; let capacity; let trip_node 2; closure filter_map#0; stmt "match (pred_trip_node, trip_node)" = 3d4c0f7daa87294d

/// the documented stand-in for "no formation limit"
pub open spec const UNLIMITED_FORMATION: int = 100;

//@frag solver/src/min_cost_flow_solver.rs MinCostFlowSolver::solve_for_vehicle_type : let maximal_formation_count as frag_trip_upper_bound
//@params &self, service_trip: NodeIdx
//@ret (r: UpperBound)
//@sig
    requires self.network.is_trip(service_trip),
    ensures
        // C02: the flow through a trip edge never exceeds the smaller of the type's and the route segment's limit
        self.network.sp_formation_limit(service_trip) is Some ==> r == self.network.sp_formation_limit(service_trip).unwrap(), // @obl C02.mcf.trip_upper_bound_is_combined_limit
        self.network.sp_formation_limit(service_trip) is None ==> r == UNLIMITED_FORMATION,
//@end
//@frag solver/src/min_cost_flow_solver.rs MinCostFlowSolver::solve_for_vehicle_type : let number_of_vehicles_required as frag_trip_required
//@params &self, vehicle_type: VehicleTypeIdx, service_trip: NodeIdx
//@ret (r: LowerBound)
//@sig
    requires self.network.is_trip(service_trip), self.network.vehicle_types.wf(), self.network.vehicle_types.vehicle_types@.contains_key(vehicle_type),
    ensures r >= 0,
        // exactly the number computed by number_of_vehicles_required_to_serve (its ceiling contract is proved in slice limits)
        (r as int) * (self.network.vehicle_types.vehicle_types@[vehicle_type].capacity as int) >= (self.network.sp_trip(service_trip).passengers as int),
        (r as int) * (self.network.vehicle_types.vehicle_types@[vehicle_type].seats as int) >= (self.network.sp_trip(service_trip).seated as int), // @obl C07.mcf.required_covers_demand
//@end
//@frag solver/src/min_cost_flow_solver.rs MinCostFlowSolver::solve_for_vehicle_type : let lower_bound 0 as frag_trip_lower_bound
//@params number_of_vehicles_required: LowerBound, maximal_formation_count: UpperBound, maximal_formation_count_for_vehicle_type: UpperBound
//@ret (r: LowerBound)
//@sig
    ensures
        // C07: enough vehicles for the demand, or, if that needs more than the limit, exactly the limit
        r == (if number_of_vehicles_required <= maximal_formation_count { number_of_vehicles_required } else { maximal_formation_count }), // @obl C07.mcf.trip_lower_bound_is_min_required_limit
//@end
//@frag solver/src/min_cost_flow_solver.rs MinCostFlowSolver::solve_for_vehicle_type : let capacity as frag_depot_upper_bound
//@params &self, vehicle_type: VehicleTypeIdx, depot: DepotIdx
//@ret (r: UpperBound)
//@sig
    requires self.network.depots@.contains_key(depot),
    ensures
        // C02: no more vehicles of the type start at a depot than its per-type and total capacity allow
        r as int == self.network.depots@[depot].0.sp_capacity_for(vehicle_type), // @obl C02.mcf.depot_upper_bound_is_capacity_for
//@end
// A-std4 (same text as env/im_shim.vs, which this slice does not include)
pub assume_specification<'a, T: Copy>[ Option::<&'a T>::copied ](o: Option<&'a T>) -> (r: Option<T>)
    ensures r == (match o { Some(v) => Some(*v), None => None });
//@frag solver/src/min_cost_flow_solver.rs MinCostFlowSolver::solve_for_vehicle_type : let connection_upper_bound as frag_connection_upper_bound
//@params maximal_formation_count_for_vehicle_type: UpperBound, maintenance_slots: &HashMap<NodeIdx, VehicleCount>, node_id: NodeIdx, pred: NodeIdx
//@ret (r: UpperBound)
//@sig
    ensures
        // C06 (D14): the flow stage sends exactly `count` vehicles through a maintenance slot and all of them may come
        // from (go to) one and the same neighbour, e.g. the only depot: an edge into / out of the slot must admit them
        // all, otherwise the circulation can be infeasible and network_simplex(..).unwrap() panics
        r >= maximal_formation_count_for_vehicle_type,
        maintenance_slots@.contains_key(node_id) ==> r >= maintenance_slots@[node_id], // @obl C06.mcf.edge_into_a_maintenance_slot_admits_all_its_vehicles
        maintenance_slots@.contains_key(pred) ==> r >= maintenance_slots@[pred], // @obl C06.mcf.edge_out_of_a_maintenance_slot_admits_all_its_vehicles
//@end
} // verus!
fn main() {}
