// slice `mcf_decode`: FLOW DECODING of MinCostFlowSolver::solve_for_vehicle_type (the section after
// `print!("  3) building schedule")`): how the circulation returned by network_simplex is turned into tours.
// Needed by C07 (the number of tours through a trip = the flow into it, so the edge lower bounds of slice mcf_bounds
// become "enough vehicles per trip"), C02 (…so the upper bounds become formation / depot limits), C01 (every tour is
// the chronological chain the flow describes, from a start depot node on) and C06 (`.expect("pred not found")`,
// `.pop().unwrap()`, `tours[i]`, `right_rsnode_to_node[&n]`, `flow[..]` do not panic).
//
// R8: three fragments of the function are lifted verbatim and put under contract
//   frag_decode_unit    the statement `match (pred_trip_node, trip_node) { .. }` = what ONE UNIT of flow on an edge
//                       pred -> node does to `tours` / `last_trip_to_tour` (/ `print_overflow_depot_warning`)
//   frag_flow_units     the `filter_map` closure: an in-edge with flow 0 yields nothing, an in-edge with flow f yields
//                       the predecessor trip node f times (= f unit steps)
//   frag_classify_node  `let trip_node = match self.network.node(node) { .. _ => continue }`: which nodes of the
//                       chronological enumeration are decoded and under which flow-network node.  The initialiser
//                       contains `continue`; it is lifted into the body of a ONCE-ONLY `while` (template text, see
//                       //@first / //@tail of the fragment): `continue` leaves the result at None = "node skipped".
// Abstract state: tours as Seq<Seq<NodeIdx>> (`tours_view`), last_trip_to_tour as Map<NodeIdx, Seq<usize>> (`ends_view`;
// `ends_at(e, k)`: an absent key counts as the empty list).  `index_ok`: last_trip_to_tour is an index of the tours by
// their LAST node (every registration is a tour ending at the key, every tour is registered where it ends, once).
// Contract of frag_decode_unit: flow pred -> node between activities: SOME tour registered at pred (it ends there) is
// extended by `node`, leaves pred's list and joins node's (`unit_extends`, existential: the contract does not say which
// of the waiting tours; the code takes the last registered one, `lifo_extends` + lemma_lifo_is_unit_extends bridge that);
// flow depot -> activity: one new tour [start depot node, node] registered at node (`unit_starts`); depot -> depot:
// nothing (`unit_ignored`); all other tours and registrations untouched; index_ok kept; no panic given a waiting tour.
// Ghost-level lemmas (no code) over the unit steps: index_ok is kept; the flow accounting `|last_trip_to_tour[t]| = decoded
// inflow(t) - decoded outflow(t)` is kept (`balanced`); flow conservation then gives the first arm's precondition, so
// `.expect("pred not found").pop().unwrap()` never panics (lemma_pop_never_panics, premises stated there) and no tour
// is left at an activity at the end (lemma_no_tour_stranded); the number of tours through a node grows by exactly one
// per unit of flow into it (`visits`, C07/C02); every consecutive pair of a tour is a decoded unit (`chain_ok`, C01).
// The remaining plumbing of the function (graph building, network_simplex, the two `for` loops around the fragments,
// `node_to_rsnode[&trip_node].0`, `graph.inedges(..).filter_map(..).flatten()`) is pinned by the skeleton hash below
// (own holes; slice mcf_bounds pins the same function with the bound expressions as holes).
//
// ASSUMPTIONS of this slice
//  A-std    env/mcf_decode_shim.vs: `HashMap::get_mut` (None iff absent; a reference into the map: the final map is
//           the old one with the key rebound to the final value), `hash_map::Entry::or_default` (= vstd's or_insert
//           with `V::default()`), `axiom_deref_key_rebound` (meaning of the rebound relation for Q = K).  From vstd:
//           HashMap::entry / contains_key, Vec::{push, pop, index, index_mut, len}, `vec![..]`, Option::{expect,
//           unwrap}, `Vec::default()` is empty, `i64 as usize` (identity on 0..=i64::MAX; usize is 64 bit: A-arch).
//  A-map    `StdMap` (text as in env/network_new_shim.vs): `right_rsnode_to_node`, a std HashMap the closure only reads
//           by `map[&key]`, is declared as StdMap in the fragment's parameter list; `map[&key]` panics unless present.
//  A-iter   `std::iter::repeat(x).take(k)` yields x exactly k times (shim `repeat` / `VRepeat::take` -> SeqIter);
//           env/seqiter.vs SeqIter (only the type is used).
//  A-lib    rs_graph: `RsGraph` / `RsNode` / `RsEdge` are opaque; `IndexGraph::edge_id` is the uninterpreted
//           `sp_edge_id`.  network_simplex (NOT under contract): `flow` has one entry per edge at index edge_id(e)
//           (`g.edges().map(|e| (e, spx.flow(e))).collect()`), the returned flow is a circulation (balance 0 at every
//           node) within the bounds handed in, in particular >= 0 (all lower bounds are >= 0, slice mcf_bounds).
//           These enter as the `requires` of frag_flow_units and as the named premises of lemma_pop_never_panics.
//  A-stub   Network::node (contract text of env/model_fns.vs, verified in slice network).
//  A-depots `Network::depots` maps a depot to (depot, start node, end node) (comment at the field; Network::new).
//  A-plumb  (skeleton-pinned, not verified) the outer loop enumerates `nodes_of_vehicle_type_sorted_by_start` (nodes of
//           the network: `requires` of frag_classify_node); for a classified node the inner loop runs frag_decode_unit
//           once per item of `inedges(left node of trip_node).filter_map(frag_flow_units).flatten()`, threading tours /
//           last_trip_to_tour / print_overflow_depot_warning through (they start as `Vec::new()` / `HashMap::new()` /
//           false: index_ok and `balanced` with zero counts hold trivially); `inedges(u)` yields `(e, tail of e)`;
//           every right rs-node is a key of right_rsnode_to_node; every depot id stored there is a key of
//           `Network::depots`; `tours` is returned as is.
//  A-once   frag_classify_node: the lifted initialiser contains `continue`; the template wraps it into a once-only
//           `while` (`//@first` opens it, `//@tail` closes it): `continue` = the loop ends with the result still None.
//  PREMISES of the ghost lemmas (stated in their `requires`, not proved): lemma_pop_never_panics -- flow conservation at
//           the predecessor, the predecessor's inflow is completely decoded (it starts earlier: positive durations),
//           the unit is still pending; lemma_visits_extend -- the extended tour does not contain `node` yet;
//           lemma_chain_* -- `link(pred, node)` for the decoded unit.
#![feature(allocator_api)]
use vstd::prelude::*;
use std::ops::Add;
use std::ops::Sub;
use std::collections::{BTreeMap, HashMap};
use std::sync::Arc;
use vstd::std_specs::hash::EntrySpecFns;
//@include env/display_time.rs
//@include env/display_model.rs
verus! {
//@include env/std_specs.vs
//@include env/time_types.vs
//@include-trusted env/time_ops.vs
//@include env/model_types.vs
//@include env/broadcast_model.vs
//@include env/model_network_types.vs
//@include env/model_spec.vs
//@include env/seqiter.vs
//@include env/mcf_decode_shim.vs

// ---------------------------------------------------------------- callees
//@item model/src/network.rs Network::node : trusted
//@retname r
//@sig
    requires self.has(idx),
    ensures *r == self.sp_node(idx),
//@end
//@item model/src/network/nodes.rs DepotNode::depot_idx
//@retname r
//@sig
    ensures r == self.depot_idx,
//@end
/// A-depots: the start depot node of a depot of the table
pub open spec fn sp_start_depot_node(net: &Network, d: DepotIdx) -> NodeIdx { net.depots@[d].1 }
/// A-depots: the end depot node of a depot of the table
pub open spec fn sp_end_depot_node(net: &Network, d: DepotIdx) -> NodeIdx { net.depots@[d].2 }
//@item model/src/network.rs Network::get_start_depot_node
//@retname r
//@sig
    requires self.depots@.contains_key(depot_idx),
    ensures r == sp_start_depot_node(self, depot_idx),
//@first
        broadcast use key_axioms::axiom_key_model_depot_idx;
//@end
// (not called by the decoding; under contract here so that a decoding that starts a tour at the END depot node
// type-checks and fails its obligation instead of the extraction)
//@item model/src/network.rs Network::get_end_depot_node
//@retname r
//@sig
    requires self.depots@.contains_key(depot_idx),
    ensures r == sp_end_depot_node(self, depot_idx),
//@first
        broadcast use key_axioms::axiom_key_model_depot_idx;
//@end
//@item model/src/network.rs Network::overflow_depot_idxs
//@retname r
//@sig
    ensures r == self.overflow_depot_idxs,
//@end

//@item solver/src/min_cost_flow_solver.rs type NetworkNumberType : plain
//@end
//@item solver/src/min_cost_flow_solver.rs enum TripNode : plain
//@end
//@item solver/src/min_cost_flow_solver.rs struct MinCostFlowSolver : plain
//@end

//@skeleton solver/src/min_cost_flow_solver.rs MinCostFlowSolver::solve_for_vehicle_type : let maximal_formation_count; let number_of_vehicles_required; let lower_bound 0; let connection_upper_bound; let capacity; let trip_node 2; closure filter_map#0; stmt "match (pred_trip_node, trip_node)" = 3d4c0f7daa87294d

// ================================================================ 3) which node is decoded, and as what
/// the flow-network node a node of the chronological enumeration is decoded under: a service trip and a maintenance
/// slot that was assigned to this vehicle type stand for themselves, an END depot node stands for its depot (the
/// edges INTO a depot's left node were built for `get_end_depot_node(depot)`); start depot nodes and maintenance slots
/// of other types are skipped
pub open spec fn sp_trip_node_of(net: &Network, slots: Map<NodeIdx, VehicleCount>, node: NodeIdx) -> Option<TripNode> {
    match net.sp_node(node) {
        Node::Service(_) => Some(TripNode::ServiceOrMaintenance(node)),
        Node::EndDepot((_, d)) => Some(TripNode::Depot(d.depot_idx)),
        Node::Maintenance(_) => if slots.contains_key(node) { Some(TripNode::ServiceOrMaintenance(node)) } else { None },
        Node::StartDepot(_) => None,
    }
}
//@frag solver/src/min_cost_flow_solver.rs MinCostFlowSolver::solve_for_vehicle_type : let trip_node 2 as frag_classify_node
//@params &self, node: NodeIdx, maintenance_slots: &HashMap<NodeIdx, VehicleCount>
//@ret (r: Option<TripNode>)
//@tail ); } vx_r
//@sig
    requires self.network.has(node),
    ensures
        r == sp_trip_node_of(&self.network, maintenance_slots@, node), // @obl C01.decode.node_is_decoded_under_its_own_flow_node
//@first
        // `continue` of the lifted initialiser = "this node is skipped": the initialiser is evaluated inside a
        // once-only loop, `continue` leaves the loop with vx_r == None
        let mut vx_r: Option<TripNode> = None;
        let mut vx_once = true;
        while vx_once
            invariant
                self.network.has(node),
                vx_once ==> vx_r is None,
                !vx_once ==> vx_r == sp_trip_node_of(&self.network, maintenance_slots@, node), // @obl C01.decode.node_is_decoded_under_its_own_flow_node
            decreases (if vx_once { 1int } else { 0int }),
        {
            vx_once = false;
            vx_r = Some(
//@end

// ================================================================ 2) flow on an in-edge -> unit steps
/// A-lib: the flow network_simplex put on edge e (`flow` lists every edge at its edge id)
pub open spec fn flow_on(graph: &RsGraph, flow: Seq<(RsEdge, NetworkNumberType)>, e: RsEdge) -> int {
    flow[graph.sp_edge_id(e) as int].1 as int
}
//@frag solver/src/min_cost_flow_solver.rs MinCostFlowSolver::solve_for_vehicle_type : closure filter_map#0 as frag_flow_units
//@params graph: &RsGraph, flow: &Vec<(RsEdge, NetworkNumberType)>, right_rsnode_to_node: &StdMap<RsNode, TripNode>, e: RsEdge, n: RsNode
//@ret (r: Option<SeqIter<TripNode>>)
//@sig
    requires
        // A-lib (network_simplex): one flow entry per edge, flows within the bounds (all lower bounds are >= 0)
        graph.sp_edge_id(e) < flow@.len(),
        flow_on(graph, flow@, e) >= 0,
        // A-plumb: n is the tail of e, a right rs-node; all of them were registered when the network was built
        right_rsnode_to_node@.contains_key(n),
    ensures
        // an edge without flow contributes nothing, an edge with flow f contributes f unit steps from the trip node of
        // its tail
        r is None <==> flow_on(graph, flow@, e) == 0, // @obl C07.decode.edge_without_flow_yields_no_unit
        r is Some ==> r.unwrap()@.len() == flow_on(graph, flow@, e), // @obl C07.decode.edge_yields_one_unit_per_unit_of_flow
        r is Some ==> forall|i: int| 0 <= i < r.unwrap()@.len() ==> #[trigger] r.unwrap()@[i] == right_rsnode_to_node@[n], // @obl C01.decode.units_come_from_the_edges_tail
//@end

// ================================================================ 1) one unit of flow
/// ghost glue for the tail of frag_decode_unit (no requires beyond the fragment's own precondition, so that a wrong update
/// fails the fragment's tagged postconditions and not this call): whichever unit step was taken keeps the index invariant.
/// It also bridges from what the statement does (the tour registered LAST at p is taken: `pop()`) to the contract, which
/// only says that ONE of the tours registered at p is extended.
pub proof fn lemma_unit_keeps_index(t0: Tours, e0: Ends, t1: Tours, e1: Ends, p: NodeIdx, node: NodeIdx, start: NodeIdx)
    requires index_ok(t0, e0),
    ensures
        lifo_tour_extended(t0, e0, t1, p, node) ==> tour_extended(t0, e0, t1, p, node, ends_at(e0, p).last(), ends_at(e0, p).len() - 1)
            && tour_end(t0, ends_at(e0, p).last() as int) == p,
        lifo_extends(t0, e0, t1, e1, p, node) ==> unit_extends(t0, e0, t1, e1, p, node, ends_at(e0, p).last(), ends_at(e0, p).len() - 1)
            && index_ok(t1, e1),
        unit_starts(t0, e0, t1, e1, start, node) ==> index_ok(t1, e1),
        unit_ignored(t0, e0, t1, e1) ==> index_ok(t1, e1),
{
    if lifo_tour_extended(t0, e0, t1, p, node) {
        let l0 = ends_at(e0, p);
        assert(l0[l0.len() - 1] == l0.last());
        assert(tour_end(t0, l0[l0.len() - 1] as int) == p);
    }
    if lifo_extends(t0, e0, t1, e1, p, node) {
        lemma_lifo_is_unit_extends(t0, e0, t1, e1, p, node);
        lemma_extend_keeps_index(t0, e0, t1, e1, p, node, ends_at(e0, p).last(), ends_at(e0, p).len() - 1);
    }
    if unit_starts(t0, e0, t1, e1, start, node) { lemma_start_keeps_index(t0, e0, t1, e1, start, node); }
    if unit_ignored(t0, e0, t1, e1) { lemma_ignored_keeps_index(t0, e0, t1, e1); }
}
/// the activity a unit of flow leaves (arbitrary for a unit that leaves a depot)
pub open spec fn sp_pred_activity(pred_trip_node: TripNode) -> NodeIdx { pred_trip_node->ServiceOrMaintenance_0 }
//@frag solver/src/min_cost_flow_solver.rs MinCostFlowSolver::solve_for_vehicle_type : stmt "match (pred_trip_node, trip_node)" as frag_decode_unit
//@params &self, node: NodeIdx, pred_trip_node: TripNode, trip_node: TripNode, tours0: Vec<Vec<NodeIdx>>, last_trip_to_tour0: HashMap<NodeIdx, Vec<usize>>, print_overflow_depot_warning0: bool
//@ret (r: (Vec<Vec<NodeIdx>>, HashMap<NodeIdx, Vec<usize>>, bool))
//@tail { proof { lemma_unit_keeps_index(t0, e0, tours_view(tours), ends_view(last_trip_to_tour), sp_pred_activity(pred_trip_node), node, sp_start_depot_node(&self.network, pred_trip_node->Depot_0)); } (tours, last_trip_to_tour, print_overflow_depot_warning) }
//@sig
    requires
        // last_trip_to_tour is an index of the tours by their last node (established by `Vec::new()` / `HashMap::new()`,
        // kept by every unit step: ensures below)
        index_ok(tours_view(tours0), ends_view(last_trip_to_tour0)),
        // a unit of flow leaves an activity: a tour must be waiting there.  THIS is where `.expect("pred not found")` /
        // `.pop().unwrap()` panic otherwise; follows from flow conservation (lemma_pop_never_panics)
        pred_trip_node is ServiceOrMaintenance ==> ends_at(ends_view(last_trip_to_tour0), sp_pred_activity(pred_trip_node)).len() > 0,
        // a unit of flow leaves a depot of the network (get_start_depot_node unwraps the table look-up)
        (pred_trip_node is Depot && trip_node is ServiceOrMaintenance) ==> self.network.depots@.contains_key(pred_trip_node->Depot_0),
    ensures
        // ---- flow from an activity p: exactly ONE tour is extended by `node`, one of those registered as ending at p (and it
        // does end at p: index_ok); every other tour is untouched, in order
        pred_trip_node is ServiceOrMaintenance ==> exists|i: usize, j: int| #[trigger] tour_extended(tours_view(tours0), ends_view(last_trip_to_tour0), tours_view(r.0),
            sp_pred_activity(pred_trip_node), node, i, j) && tour_end(tours_view(tours0), i as int) == sp_pred_activity(pred_trip_node), // @obl C07.decode.flow_unit_extends_one_tour
        // … that tour leaves p's list and joins node's list (it now ends at node); all other lists are untouched
        pred_trip_node is ServiceOrMaintenance ==> exists|i: usize, j: int| #[trigger] unit_extends(tours_view(tours0), ends_view(last_trip_to_tour0), tours_view(r.0), ends_view(r.1),
            sp_pred_activity(pred_trip_node), node, i, j), // @obl C07.decode.extended_tour_moves_from_pred_to_node
        // ---- flow from a depot to an activity: ONE new tour [start depot node of that depot, node] …
        (pred_trip_node is Depot && trip_node is ServiceOrMaintenance) ==> tours_view(r.0) =~= tours_view(tours0).push(seq![sp_start_depot_node(&self.network, pred_trip_node->Depot_0), node]), // @obl C01.decode.depot_unit_starts_tour_at_start_depot
        // … registered at node; all other lists are untouched
        (pred_trip_node is Depot && trip_node is ServiceOrMaintenance) ==> forall|k: NodeIdx| #[trigger] ends_at(ends_view(r.1), k) =~= ends_added(ends_view(last_trip_to_tour0), node, tours0@.len() as usize, k), // @obl C07.decode.new_tour_is_registered_at_node
        // ---- flow from depot to depot: no vehicle (a tour contains at least one activity)
        (pred_trip_node is Depot && trip_node is Depot) ==> tours_view(r.0) =~= tours_view(tours0)
            && forall|k: NodeIdx| #[trigger] ends_at(ends_view(r.1), k) =~= ends_at(ends_view(last_trip_to_tour0), k), // @obl C01.decode.depot_to_depot_flow_is_no_tour
        // ---- in the vocabulary of the lemmas below
        (pred_trip_node is Depot && trip_node is ServiceOrMaintenance) ==> unit_starts(tours_view(tours0), ends_view(last_trip_to_tour0), tours_view(r.0), ends_view(r.1),
            sp_start_depot_node(&self.network, pred_trip_node->Depot_0), node), // @obl C01.decode.depot_unit_starts_tour_at_start_depot
        (pred_trip_node is Depot && trip_node is Depot) ==> unit_ignored(tours_view(tours0), ends_view(last_trip_to_tour0), tours_view(r.0), ends_view(r.1)), // @obl C01.decode.depot_to_depot_flow_is_no_tour
        // ---- the index invariant is kept (the extended tour is registered where it now ends, and nowhere else)
        index_ok(tours_view(r.0), ends_view(r.1)), // @obl C07.decode.registrations_stay_an_index_of_the_tours
        // the warning flag: raised iff a tour starts at the overflow depot, never lowered
        r.2 == (print_overflow_depot_warning0 || (pred_trip_node is Depot && trip_node is ServiceOrMaintenance
            && sp_start_depot_node(&self.network, pred_trip_node->Depot_0) == self.network.overflow_depot_idxs.1)),
//@first
        broadcast use {vstd::std_specs::hash::group_hash_axioms, axiom_deref_key_rebound};
        let mut tours = tours0;
        let mut last_trip_to_tour = last_trip_to_tour0;
        let mut print_overflow_depot_warning = print_overflow_depot_warning0;
        let ghost t0 = tours_view(tours0);
        let ghost e0 = ends_view(last_trip_to_tour0);
        proof {
            // why the first arm does not panic: the key is present with a non-empty list (requires), and what is listed is a tour (index_ok)
            if pred_trip_node is ServiceOrMaintenance {
                let p = sp_pred_activity(pred_trip_node);
                assert(ends_at(e0, p).len() > 0); // @obl C06.decode.no_panic_pred_has_a_waiting_tour
                assert(last_trip_to_tour0@.contains_key(p) && last_trip_to_tour0@[p]@.len() > 0); // @obl C06.decode.no_panic_pred_has_a_waiting_tour
                assert(ends_at(e0, p)[ends_at(e0, p).len() - 1] < tours0@.len()); // @obl C06.decode.no_panic_registered_tour_exists
            }
        }
//@end

// ================================================================ 4) ghost level: flow accounting
/// decoded so far: `inn(t)` units of flow into activity t, `out(t)` units out of it; every unit into t left a tour
/// waiting at t, every unit out of t took one along
pub open spec fn balanced(e: Ends, inn: spec_fn(NodeIdx) -> int, out: spec_fn(NodeIdx) -> int) -> bool {
    forall|t: NodeIdx| (#[trigger] ends_at(e, t)).len() == inn(t) - out(t)
}
/// one more unit counted at node x
pub open spec fn bump(f: spec_fn(NodeIdx) -> int, x: NodeIdx) -> spec_fn(NodeIdx) -> int {
    |t: NodeIdx| if t == x { f(t) + 1 } else { f(t) }
}
/// a unit p -> node between two activities keeps the accounting (one more out of p, one more into node)
pub proof fn lemma_balanced_extend(t0: Tours, e0: Ends, t1: Tours, e1: Ends, p: NodeIdx, node: NodeIdx, i: usize, j: int, inn: spec_fn(NodeIdx) -> int, out: spec_fn(NodeIdx) -> int)
    requires balanced(e0, inn, out), unit_extends(t0, e0, t1, e1, p, node, i, j),
    ensures balanced(e1, bump(inn, node), bump(out, p)), // @obl C07.decode.waiting_tours_equal_inflow_minus_outflow
{
    assert forall|t: NodeIdx| (#[trigger] ends_at(e1, t)).len() == bump(inn, node)(t) - bump(out, p)(t) by {
        assert(ends_at(e1, t) == ends_moved(e0, p, node, i, j, t));
        assert(ends_at(e0, t).len() == inn(t) - out(t));
    }
}
/// a unit depot -> node keeps the accounting (one more into node)
pub proof fn lemma_balanced_start(t0: Tours, e0: Ends, t1: Tours, e1: Ends, start: NodeIdx, node: NodeIdx, inn: spec_fn(NodeIdx) -> int, out: spec_fn(NodeIdx) -> int)
    requires balanced(e0, inn, out), unit_starts(t0, e0, t1, e1, start, node),
    ensures balanced(e1, bump(inn, node), out), // @obl C07.decode.waiting_tours_equal_inflow_minus_outflow
{
    assert forall|t: NodeIdx| (#[trigger] ends_at(e1, t)).len() == bump(inn, node)(t) - out(t) by {
        assert(ends_at(e1, t) == ends_added(e0, node, t0.len() as usize, t));
        assert(ends_at(e0, t).len() == inn(t) - out(t));
    }
}
/// depot -> depot flow does not touch the accounting of the activities
pub proof fn lemma_balanced_ignored(t0: Tours, e0: Ends, t1: Tours, e1: Ends, inn: spec_fn(NodeIdx) -> int, out: spec_fn(NodeIdx) -> int)
    requires balanced(e0, inn, out), unit_ignored(t0, e0, t1, e1),
    ensures balanced(e1, inn, out),
{
    assert forall|t: NodeIdx| (#[trigger] ends_at(e1, t)).len() == inn(t) - out(t) by {
        assert(ends_at(e1, t) == ends_at(e0, t));
        assert(ends_at(e0, t).len() == inn(t) - out(t));
    }
}
/// C06: the precondition of the first arm.  PREMISES (A-lib / A-plumb, stated, not proved here):
///  conservation   the flow into activity p equals the flow out of it (network_simplex returns a circulation: balance 0
///                 at p's left and right rs-node, so inflow(left) = flow(left -> right) = outflow(right))
///  p is complete  all `total_in(p)` units into p have been decoded (p can reach node, so with positive durations p
///                 starts earlier and was enumerated before node)
///  unit pending   the unit being decoded is one of the `total_out(p)` units out of p, not yet counted in out(p)
pub proof fn lemma_pop_never_panics(e: Ends, inn: spec_fn(NodeIdx) -> int, out: spec_fn(NodeIdx) -> int, total_in: spec_fn(NodeIdx) -> int, total_out: spec_fn(NodeIdx) -> int, p: NodeIdx)
    requires
        balanced(e, inn, out),
        total_in(p) == total_out(p),
        inn(p) == total_in(p),
        out(p) < total_out(p),
    ensures ends_at(e, p).len() > 0, // @obl C06.decode.conservation_implies_a_waiting_tour
{
    assert(ends_at(e, p).len() == inn(p) - out(p));
}
/// once every unit of the circulation is decoded nothing is left waiting at an activity whose flow is conserved: every
/// tour that reached p went on (to a later activity or to an end depot)
pub proof fn lemma_no_tour_stranded(e: Ends, inn: spec_fn(NodeIdx) -> int, out: spec_fn(NodeIdx) -> int, p: NodeIdx)
    requires balanced(e, inn, out), inn(p) == out(p),
    ensures ends_at(e, p).len() == 0, // @obl C01.decode.no_tour_ends_at_an_activity
{
    assert(ends_at(e, p).len() == inn(p) - out(p));
}

// ---- tours through a node = units of flow into it (C07 / C02) -----------------------------------------
pub open spec fn one_if(b: bool) -> int { if b { 1 } else { 0 } }
pub proof fn lemma_visits_update(t: Tours, i: int, x: Seq<NodeIdx>, n: NodeIdx)
    requires 0 <= i < t.len(),
    ensures visits(t.update(i, x), n) == visits(t, n) - one_if(t[i].contains(n)) + one_if(x.contains(n)),
    decreases t.len(),
{
    let u = t.update(i, x);
    if i == t.len() - 1 {
        assert(u.drop_last() =~= t.drop_last());
    } else {
        assert(u.drop_last() =~= t.drop_last().update(i, x));
        assert(u.last() == t.last());
        lemma_visits_update(t.drop_last(), i, x, n);
    }
}
/// a unit of flow into `node` from an activity adds exactly one tour through `node` and changes no other count.
/// PREMISE: the extended tour does not contain `node` yet (tours are chronological chains; `node` is the node being decoded)
pub proof fn lemma_visits_extend(t0: Tours, e0: Ends, t1: Tours, e1: Ends, p: NodeIdx, node: NodeIdx, iu: usize, j: int, n: NodeIdx)
    requires unit_extends(t0, e0, t1, e1, p, node, iu, j), !t0[iu as int].contains(node),
    ensures visits(t1, n) == visits(t0, n) + one_if(n == node), // @obl C07.decode.tours_through_a_node_equal_its_inflow
{
    let i = iu as int;
    lemma_visits_update(t0, i, t0[i].push(node), n);
    let x = t0[i].push(node);
    if n == node {
        assert(x[x.len() - 1] == node);
    } else {
        if x.contains(n) {
            let j = choose|j: int| 0 <= j < x.len() && x[j] == n;
            assert(t0[i][j] == n);
        }
        if t0[i].contains(n) {
            let j = choose|j: int| 0 <= j < t0[i].len() && t0[i][j] == n;
            assert(x[j] == n);
        }
    }
}
/// a unit of flow from a depot into `node` adds exactly one tour through `node` (and one through the start depot node)
pub proof fn lemma_visits_start(t0: Tours, e0: Ends, t1: Tours, e1: Ends, start: NodeIdx, node: NodeIdx, n: NodeIdx)
    requires unit_starts(t0, e0, t1, e1, start, node), start != node,
    ensures visits(t1, n) == visits(t0, n) + one_if(n == node) + one_if(n == start), // @obl C07.decode.tours_through_a_node_equal_its_inflow
{
    let x = seq![start, node];
    assert(t1.drop_last() =~= t0);
    assert(t1.last() == x);
    assert(x[0] == start && x[1] == node);
    if x.contains(n) {
        let j = choose|j: int| 0 <= j < x.len() && x[j] == n;
        assert(j == 0 || j == 1);
    }
}
// ---- every tour is the chain of the decoded units (C01) -----------------------------------------------
/// every consecutive pair of every tour is linked (`link(a, b)`: a unit of flow a -> b was decoded; A-plumb: the flow
/// network only has edges pred -> node for `pred in predecessors(node)`, i.e. can_reach(pred, node), and edges from a
/// depot d are decoded as leaving d's start depot node)
pub open spec fn chain_ok(t: Tours, link: spec_fn(NodeIdx, NodeIdx) -> bool) -> bool {
    forall|i: int, j: int| 0 <= i < t.len() && 0 <= j < t[i].len() - 1 ==> link(#[trigger] t[i][j], t[i][j + 1])
}
pub proof fn lemma_chain_extend(t0: Tours, e0: Ends, t1: Tours, e1: Ends, p: NodeIdx, node: NodeIdx, iu: usize, jp: int, link: spec_fn(NodeIdx, NodeIdx) -> bool)
    requires chain_ok(t0, link), index_ok(t0, e0), unit_extends(t0, e0, t1, e1, p, node, iu, jp), link(p, node),
    ensures chain_ok(t1, link), // @obl C01.decode.tour_is_the_chain_of_decoded_units
{
    lemma_extend_keeps_index(t0, e0, t1, e1, p, node, iu, jp);
    let ii = iu as int;
    assert forall|i: int, j: int| 0 <= i < t1.len() && 0 <= j < t1[i].len() - 1 implies link(#[trigger] t1[i][j], t1[i][j + 1]) by {
        if i == ii {
            assert(t1[i] == t0[i].push(node));
            if j == t0[i].len() - 1 {
                assert(t1[i][j] == t0[i].last());
                assert(tour_end(t0, i) == p);
            } else {
                assert(link(t0[i][j], t0[i][j + 1]));
            }
        } else {
            assert(t1[i] == t0[i]);
            assert(link(t0[i][j], t0[i][j + 1]));
        }
    }
}
pub proof fn lemma_chain_start(t0: Tours, e0: Ends, t1: Tours, e1: Ends, start: NodeIdx, node: NodeIdx, link: spec_fn(NodeIdx, NodeIdx) -> bool)
    requires chain_ok(t0, link), unit_starts(t0, e0, t1, e1, start, node), link(start, node),
    ensures chain_ok(t1, link), // @obl C01.decode.tour_is_the_chain_of_decoded_units
{
    let n = t0.len() as int;
    assert forall|i: int, j: int| 0 <= i < t1.len() && 0 <= j < t1[i].len() - 1 implies link(#[trigger] t1[i][j], t1[i][j + 1]) by {
        if i == n {
            assert(t1[i] == seq![start, node]);
            assert(seq![start, node][0] == start && seq![start, node][1] == node);
        } else {
            assert(t1[i] == t0[i]);
            assert(link(t0[i][j], t0[i][j + 1]));
        }
    }
}
} // verus!
fn main() {}
