// slice `neighborhood_gen`: the parallel neighbourhood generator solver/src/local_search/neighborhood/mod.rs
// (RSSchedParallelNeighborhood: spawn_vehicle_for_maintenance_iterator, segment_exchange_iterator, hitch_hiking_iterator,
// remove_single_node_iterator, segments, dummy_and_real_vehicles, real_and_dummy_vehicles) -- C11 "Generating candidates never
// panics", C06 (no panic / no overflow).
//
// R8: the rayon / iterator plumbing cannot be verified.  The closure bodies, `let` initialisers, receivers of `.collect()` and one
// statement are lifted VERBATIM into functions (23 fragments); the rest of each function is pinned by its `//@skeleton` hash
// (7 skeletons: any edit of the plumbing is a lost anchor = undecided).  What a fragment may rely on about the items it is
// handed is its `requires` ("what the iterators yield"); the GLUE lemmas (lemma_maintenance_sort_key_defined,
// lemma_maintenance_filter_opens_spawn, lemma_glue_*) show that what one fragment guarantees (`call_ensures` of the lifted
// function) together with the A-lib assumptions below is what the next fragment requires (`call_requires`).
// Proved for every fragment: no failing `unwrap` / `expect` / index / `assert!` / division by zero / u32-usize overflow under
// its `requires`; for the four closures that build a move: the parameters handed to `<Move>::new(..)` + `swap.apply(schedule)`
// satisfy the PARAMETER clauses of the `apply` precondition (`<Move>::req`, env/swaps_shim.vs, attached to the trait
// declaration through swap_req; stubs of `apply` carry the contract text of slices/swaps.vs):
//   * SpawnVehicleForMaintenance (req clauses 1-4): the vehicle is a real vehicle with a tour; the slot is a maintenance node of
//     the network with a formation; the slot is NOT full (it passed the filter `count < tracks`), so `occupants.last().unwrap()`
//     is never reached with an empty formation;
//   * AddTripForHitchHiking (req clauses 1-2): the node is a service trip of the network whose type exists, with a formation of
//     at most 2^32-1 vehicles; the vehicle is a REAL vehicle (header of slices/swaps.vs: "THE VEHICLE MUST BE A REAL VEHICLE");
//   * RemoveSingleNode (req of level A is `true`; of level B, env/swaps_sem_shim.vs, the parameter clause `network.has(node)`):
//     real vehicle, the node is an activity of ITS tour, hence a node of the network;
//   * PathExchange (req of level A speaks about intermediate schedules only; the parameter clauses of override_reassign's own
//     precondition or_pre, env/override_reassign_shim.vs, text copied): provider != receiver, both have a tour, the segment is a
//     segment of the provider's tour (start not after end) that holds an activity.
//   The clauses of `req` that speak about INTERMEDIATE schedules (idr_req of a modification's result; all of PathExchange::req)
//   are A-carried: preconditions of the fragments, "consequences of the modifications' contracts in their own slices" (header of
//   slices/swaps.vs); `<Move>::req == req_base && req_carried` is proved (lemma_*_req_split).
// Also under contract (verbatim, verified): Tour::preceding_overhead / subsequent_overhead (never Err for a node OF the tour:
//   position_of finds it, the first / last node is asked first, so `pos - 1` / `pos + 1` exist and do not under/overflow, and
//   `DateTime - DateTime` -- which asserts `other <= self` -- is applied to a node's start and its predecessor's end),
//   Tour::all_non_depot_nodes_iter (`self.nodes[1..len - 1]` needs len >= 2 for a real tour), the four `<Move>::new`,
//   ScheduleWithInfo::{new, get_last_swap_info}, Network::vehicle_types, Schedule::is_dummy.
//
// ASSUMPTIONS of this slice
//  A-lib    (pinned plumbing, not verified; rayon's into_par_iter / flat_map / filter_map / filter / map / chain behave like
//           the std adapters of the same name)
//           - `Iterator::filter` passes on exactly the elements for which the closure returned true, `collect` gathers them in
//             order; `sort_by_key` calls the key closure only on elements of the vector and only rearranges it;
//           - `flat_map` / `filter_map` / `map` call the closure once per element of the collected vector, with that element;
//             the variables a closure captures (`schedule`, `maintenance`, `provider`, `vehicle`, `tour`, `threshold`, `seg_start`,
//             `i`, `seg`) have the values the enclosing closure / function bound them to; `schedule` is
//             `schedule_with_info.get_schedule()` throughout;
//           - `enumerate` pairs the i-th item with i; `skip(i)` passes on the items from the i-th on; `take_while` / `filter` hand
//             the closure a reference to an item; `chain(iter::once(x).filter(..))` appends x or nothing;
//           - segments: `tour` (first `let`) is the tour the closures of `start_nodes` / `end_nodes` work on; the `.last_node()` in
//             the `chain` is applied to the receiver lifted as frag_segments_tour_again (its precondition `nodes.len() >= 1` is that
//             fragment's postcondition).
//  A-lib-px segment_exchange_iterator: after `let swap = <frag_exchange_move>` the pinned text `match swap.apply(schedule) {..}`
//           calls `apply` on that move with the base schedule.  NOT VERIFIED there: the `format!` of the Ok branch, with two
//           closures `|vt| format!(" ({})", self.network.vehicle_types().get(vt).unwrap())` inside macro arguments (vx cannot
//           attach a contract; no rule drops a `format!`).  By hand: `Result::map` calls them only on `Ok(vt)` of
//           `vehicle_type_of(v)`, i.e. with the type of a real vehicle, which is a type of the network (types_known).
//  A-net    net_lists_ok (env/neighborhood_gen_shim.vs; established by Network::new / the loader, not under contract here): every
//           node of `maintenance_nodes` is a maintenance node of the network; every vehicle type has a `service_nodes` entry
//           (`create_service_trips` inserts an empty list per type) whose nodes are service trips of the network.
//  A-inv    sched_gen_ok, the schedule invariants the generator relies on (C10; "for every reachable schedule"): sched_ok
//           (env/schedule_shim.vs), formations_cover (first conjunct of formations_ok + MAGNITUDE: a formation holds at most 2^17
//           vehicles -- ids are 16 bit --, so `vehicle_count * 10000` fits u32), types_known (a vehicle's type is a type of the
//           network), dummies_ok (listed dummies are stored; stored dummy tours are well-formed dummy tours of the network);
//           gen_ok adds: the neighbourhood was built for the schedule's network (`self.network == schedule.network`).
//  A-carried the clauses of `<Move>::req` about intermediate schedules (see above).
//  A-iter   stubs returning SeqIter: Schedule::vehicles_iter_all (= sched_vehicles, text of slices/depot_ops.vs), Schedule::dummy_iter
//           (= dummy_ids_sorted), Network::service_nodes (text of slices/json_writer.vs; panics on a missing key: `requires`);
//           the SeqIter shim (env/seqiter.vs: copied, chain, position, collect).
//  A-std9   `<[T]>::rotate_left(mid)`: requires mid <= len (std: panics otherwise), yields s[mid..] + s[..mid].
//  A-display `{}` of the three moves and of `Arc<VehicleType>` has no precondition (no-op Display impls outside verus!).
//  R7a stubs (verified elsewhere, contract text copied): the four `Swap::apply` (slices/swaps.vs), Schedule::{vehicle_type_of,
//           tour_of, train_formation_of}, TrainFormation::vehicle_count, Network::track_count_of_maintenance_slot,
//           Tour::{first_node, last_node} (slices/swaps.vs), Tour::check_removable (env/tour_pos_fns.vs), Tour::position_of (A-stub,
//           env/tour_stubs.vs), VehicleTypes::get (slices/network_new.vs); Network::node, Node::{start_time, end_time}
//           (env/model_fns.vs, included trusted); the environment of slices/swaps.vs (same include list).
// DROPPED: nothing (every `format!` of a lifted closure is kept; the PathExchange one stays in the skeleton: A-lib-px).
// KNOWN OBSERVATION (not a defect): a maintenance slot with trackCount 0 never passes the filter `count < 0`.
#![feature(allocator_api)]
use vstd::prelude::*;
use std::ops::Add;
use std::ops::Sub;
use std::collections::{BTreeMap, HashMap};
use std::sync::Arc;
//@include env/display_time.rs
//@include env/display_model.rs
impl std::fmt::Display for VehicleType { fn fmt(&self, _f: &mut std::fmt::Formatter) -> std::fmt::Result { Ok(()) } }
impl std::fmt::Display for tr::SpawnVehicleForMaintenance { fn fmt(&self, _f: &mut std::fmt::Formatter) -> std::fmt::Result { Ok(()) } }
impl std::fmt::Display for tr::AddTripForHitchHiking { fn fmt(&self, _f: &mut std::fmt::Formatter) -> std::fmt::Result { Ok(()) } }
impl std::fmt::Display for tr::RemoveSingleNode { fn fmt(&self, _f: &mut std::fmt::Formatter) -> std::fmt::Result { Ok(()) } }
verus! {
//@include env/std_specs.vs
//@include env/seqiter.vs
//@include env/time_types.vs
//@include-trusted env/time_ops.vs
//@include env/model_types.vs
//@include env/broadcast_model.vs
//@include env/model_network_types.vs
//@include env/model_spec.vs
//@include-trusted env/model_fns.vs
//@include env/solution_types.vs
//@include env/tour_spec.vs
//@include env/sums.vs
//@include-trusted env/dist_ops.vs
//@include env/vsum_impls.vs
//@include env/cache_spec.vs
//@include-proved env/cache_lemmas.vs
//@include env/limits_spec.vs

pub mod tr {
use super::*;
use vstd::prelude::*;
use self::im::HashMap;
use self::im_set::HashSet;
//@include env/im_shim.vs

//@item solution/src/transition.rs type CycleIdx : plain
//@end
//@item solution/src/transition/transition_cycle.rs struct TransitionCycle : plain
//@drop-derive Clone
//@end
impl Clone for TransitionCycle {
    #[verifier::external_body]
    fn clone(&self) -> (r: Self)
        ensures r == *self
    { unimplemented!() }
}
//@item solution/src/transition.rs struct Transition : plain
//@end
//@include env/transition_spec.vs
//@include env/schedule_shim.vs
//@include env/sched_guard_shim.vs

// ---- the four moves (verbatim type definitions) ----------------------------------------------------------
//@item solver/src/local_search/neighborhood/swaps/remove_single_node.rs struct RemoveSingleNode : plain
//@end
//@item solver/src/local_search/neighborhood/swaps/add_trip_for_hitch_hiking.rs struct AddTripForHitchHiking : plain
//@end
//@item solver/src/local_search/neighborhood/swaps/spawn_vehicle_for_maintenance.rs struct SpawnVehicleForMaintenance : plain
//@drop-derive Clone
//@end
//@item solver/src/local_search/neighborhood/swaps/path_exchange.rs struct PathExchange : plain
//@end
//@include env/swaps_shim.vs

// ---- the generator (verbatim type definitions) ---------------------------------------------------------------
//@item solver/src/local_search/neighborhood/mod.rs struct RSSchedParallelNeighborhood : plain
//@drop-derive Clone
//@end
//@include env/neighborhood_gen_shim.vs
// (`use self::swaps::..` / `swaps::AddTripForHitchHiking` in neighborhood/mod.rs)
pub mod swaps {
    pub use super::{AddTripForHitchHiking, RemoveSingleNode, SpawnVehicleForMaintenance, PathExchange};
}

// ---- callees --------------------------------------------------------------------------------------------------
// verified in slice json_writer / train_formation_update (text of slices/swaps.vs)
//@item solution/src/schedule.rs Schedule::train_formation_of : trusted
//@retname r
//@sig
    requires self.train_formations@.contains_key(node),
    ensures *r == self.train_formations@[node],
//@end
// verified in slice formation
//@item solution/src/train_formation.rs TrainFormation::vehicle_count : trusted
//@retname r
//@sig
    requires self.formation@.len() <= u32::MAX,
    ensures r == self.formation@.len(),
//@end
// verified in slice limits (env/limits_fns.vs)
//@item model/src/network.rs Network::track_count_of_maintenance_slot : trusted
//@retname r
//@sig
    requires self.has(maintenance_node), self.sp_node(maintenance_node) is Maintenance,
    ensures r == self.sp_node(maintenance_node)->Maintenance_0.1.track_count,
//@end

// =====================================================================================================
// spawn_vehicle_for_maintenance_iterator
// =====================================================================================================
//@skeleton solver/src/local_search/neighborhood/mod.rs RSSchedParallelNeighborhood::spawn_vehicle_for_maintenance_iterator : closure filter#0; closure sort_by_key#0; recv collect 1; closure filter_map#0 = eeb20cc1944fc404

//@frag solver/src/local_search/neighborhood/mod.rs RSSchedParallelNeighborhood::spawn_vehicle_for_maintenance_iterator : closure filter#0 as frag_maintenance_filter
//@params &self, schedule: &Schedule, m: NodeIdx
//@ret (r: bool)
//@sig
    requires
        self.gen_ok(schedule), self.network.maintenance_nodes@.contains(m),
    ensures
        r == (slot_count(schedule, m) < slot_tracks(&self.network, m)), // @obl C11.generator.maintenance_filter_keeps_slots_with_free_track
        r ==> self.sort_key_req(schedule, m), // @obl C11.generator.maintenance_sort_key_defined
//@first
        proof { lemma_maintenance_node(self, schedule, m); }
//@end

//@frag solver/src/local_search/neighborhood/mod.rs RSSchedParallelNeighborhood::spawn_vehicle_for_maintenance_iterator : closure sort_by_key#0 as frag_maintenance_sort_key
//@params &self, schedule: &Schedule, m: NodeIdx
//@ret (r: u32)
//@sig
    requires
        self.gen_ok(schedule), self.network.maintenance_nodes@.contains(m),
        self.sort_key_req(schedule, m),
    ensures
        // C06: the u32 result is the mathematical value (no wrap-around, no truncation)
        r as int == (slot_count(schedule, m) * 10000) / (slot_tracks(&self.network, m) as int), // @obl C11.generator.maintenance_sort_key_is_the_exact_quotient
//@first
        proof { lemma_maintenance_node(self, schedule, m); }
//@end


/// GLUE (A-lib: `Iterator::filter` passes on exactly the elements for which the closure returned true; `collect` gathers them;
/// `sort_by_key` calls the key closure only on elements of the vector): every maintenance node for which the REAL filter
/// closure returns true satisfies the precondition of the REAL sort-key closure -- no division by zero (tracks > count >= 0)
/// and no u32 overflow of `count * 10000` (magnitude: a formation holds at most 2^17 vehicles, formations_cover)
pub proof fn lemma_maintenance_sort_key_defined(g: &RSSchedParallelNeighborhood, s: &Schedule, kept: Seq<NodeIdx>)
    requires
        g.gen_ok(s),
        forall|i: int| 0 <= i < kept.len() ==> g.network.maintenance_nodes@.contains(#[trigger] kept[i])
            && call_ensures(RSSchedParallelNeighborhood::frag_maintenance_filter, (g, s, kept[i]), true),
    ensures
        forall|i: int| 0 <= i < kept.len() ==>
            call_requires(RSSchedParallelNeighborhood::frag_maintenance_sort_key, (g, s, #[trigger] kept[i])), // @obl C11.generator.maintenance_sort_key_defined
{
    assert forall|i: int| 0 <= i < kept.len() implies
        call_requires(RSSchedParallelNeighborhood::frag_maintenance_sort_key, (g, s, #[trigger] kept[i])) by {
        lemma_maintenance_node(g, s, kept[i]);
        assert(g.sort_key_req(s, kept[i]));
    }
}
/// GLUE: ... and the precondition of the move built from it (the slot is not full: `occupants.last().unwrap()` in
/// SpawnVehicleForMaintenance::apply is not reached with an empty formation)
pub proof fn lemma_maintenance_filter_opens_spawn(g: &RSSchedParallelNeighborhood, s: &Schedule, m: NodeIdx, receiver: VehicleIdx)
    requires
        g.gen_ok(s), g.network.maintenance_nodes@.contains(m), sched_vehicles(s).contains(receiver),
        call_ensures(RSSchedParallelNeighborhood::frag_maintenance_filter, (g, s, m), true),
        spawn_move(m, receiver).req_carried(s),
    ensures
        call_requires(RSSchedParallelNeighborhood::frag_spawn_candidate, (g, s, m, receiver)), // @obl C11.generator.spawn_parameters_satisfy_the_moves_precondition
{
}

// ---- more callees ---------------------------------------------------------------------------------------------
// R7a stubs: verified in slice sched_guard; contract text of slices/swaps.vs
//@item solution/src/schedule.rs Schedule::vehicle_type_of : trusted
//@retname r
//@sig
    ensures
        self.vehicles@.contains_key(vehicle) ==> r == Ok::<VehicleTypeIdx, String>(self.type_of(vehicle)),
        !self.vehicles@.contains_key(vehicle) ==> r is Err,
//@end
//@item solution/src/schedule.rs Schedule::tour_of : trusted
//@retname r
//@sig
    ensures
        self.has_tour(vehicle) ==> r is Ok && *r->Ok_0 == self.sp_tour_of(vehicle),
        !self.has_tour(vehicle) ==> r is Err,
//@end
//@item solution/src/schedule.rs Schedule::is_dummy
//@retname r
//@sig
    ensures r == self.dummy_tours@.contains_key(vehicle),
//@end
/// A-iter (text of slices/depot_ops.vs): `Schedule::vehicles_iter_all` yields the vehicles in the order `sched_vehicles` names
//@item solution/src/schedule.rs Schedule::vehicles_iter_all : trusted
//@ret SeqIter<VehicleIdx>
//@retname r
//@sig
    ensures r@ == sched_vehicles(self),
//@end
/// A-iter (text of slices/json_writer.vs): `Network::service_nodes` yields the type's list in order
/// (`self.service_nodes[&vt].iter().copied()`; indexing a HashMap with a missing key panics)
//@item model/src/network.rs Network::service_nodes : trusted
//@ret SeqIter<NodeIdx>
//@retname r
//@sig
    requires self.service_nodes@.contains_key(vehicle_type),
    ensures r@ == self.service_nodes@[vehicle_type]@,
//@end
//@item model/src/network.rs Network::vehicle_types
//@retname r
//@sig
    ensures r == self.vehicle_types,
//@end
// A-stub (text of slices/network_new.vs)
//@item model/src/vehicle_types.rs VehicleTypes::get : trusted
//@retname r
//@sig
    ensures
        self.vehicle_types@.contains_key(idx) ==> r is Some && r.unwrap() == self.vehicle_types@[idx],
        !self.vehicle_types@.contains_key(idx) ==> r is None,
//@end

// ---- the constructors of the moves and of the candidate (verbatim, verified) -----------------------------------
//@item solver/src/local_search/neighborhood/swaps/spawn_vehicle_for_maintenance.rs SpawnVehicleForMaintenance::new
//@retname r
//@sig
    ensures r.maintenance_slot == maintenance_slot, r.vehicle == vehicle,
//@end
//@item solver/src/local_search/neighborhood/swaps/add_trip_for_hitch_hiking.rs AddTripForHitchHiking::new
//@retname r
//@sig
    ensures r.node == node, r.vehicle == vehicle,
//@end
//@item solver/src/local_search/neighborhood/swaps/remove_single_node.rs RemoveSingleNode::new
//@retname r
//@sig
    ensures r.node == node, r.vehicle == vehicle,
//@end
//@item solver/src/local_search/neighborhood/swaps/path_exchange.rs PathExchange::new
//@retname r
//@sig
    ensures r.segment == segment, r.provider == provider, r.receiver == receiver,
//@end
//@item solver/src/local_search/neighborhood/swaps.rs enum SwapInfo : plain
//@end
//@item solver/src/local_search/mod.rs struct ScheduleWithInfo : plain
//@drop-derive Clone
//@drop-derive Ord
//@drop-derive PartialOrd
//@drop-derive Eq
//@drop-derive PartialEq
//@end
//@item solver/src/local_search/mod.rs ScheduleWithInfo::new
//@retname r
//@sig
    ensures r.schedule == schedule, r.last_swap_info == last_swap_info,
//@end

// ---- the moves' `apply` (R7a stubs: verified in slice swaps; contract text copied from slices/swaps.vs; the precondition
// is the one of the trait declaration, `swap_req`, fixed per move by axiom_req_* in env/swaps_shim.vs) -------------------
//@item solver/src/local_search/neighborhood/swaps/remove_single_node.rs traitfn RemoveSingleNode::apply : trusted
//@keep-trait
//@retname r
//@sig
    ensures
        r == self.result(schedule), // @obl C11.remove_single_node.is_the_documented_composition
//@end
//@item solver/src/local_search/neighborhood/swaps/add_trip_for_hitch_hiking.rs traitfn AddTripForHitchHiking::apply : trusted
//@keep-trait
//@retname r
//@sig
    ensures
        self.result(schedule, r), // @obl C11.add_trip_for_hitch_hiking.is_the_documented_composition
//@end
//@item solver/src/local_search/neighborhood/swaps/spawn_vehicle_for_maintenance.rs traitfn SpawnVehicleForMaintenance::apply : trusted
//@keep-trait
//@retname r
//@sig
    ensures
        self.result(schedule, r), // @obl C11.spawn_vehicle_for_maintenance.is_the_documented_composition
//@end
//@item solver/src/local_search/neighborhood/swaps/path_exchange.rs traitfn PathExchange::apply : trusted
//@keep-trait
//@retname r
//@sig
    ensures
        self.result(schedule, r), // @obl C11.path_exchange.is_the_documented_composition
//@end

// ---- spawn_vehicle_for_maintenance_iterator, continued: the receivers and the move -----------------------------
//@frag solver/src/local_search/neighborhood/mod.rs RSSchedParallelNeighborhood::spawn_vehicle_for_maintenance_iterator : recv collect 1 as frag_spawn_receivers
//@params schedule: &Schedule
//@ret (r: SeqIter<VehicleIdx>)
//@sig
    ensures r@ == sched_vehicles(schedule), // @obl C11.generator.spawn_only_real_vehicles
//@end

//@frag solver/src/local_search/neighborhood/mod.rs RSSchedParallelNeighborhood::spawn_vehicle_for_maintenance_iterator : closure filter_map#0 as frag_spawn_candidate
//@params &self, schedule: &Schedule, maintenance: NodeIdx, receiver: VehicleIdx
//@ret (r: Option<ScheduleWithInfo>)
//@sig
    requires
        self.gen_ok(schedule),
        // what the iterators yield (A-lib): a listed maintenance node that passed the filter, a vehicle of the listing
        self.network.maintenance_nodes@.contains(maintenance),
        slot_count(schedule, maintenance) < slot_tracks(&self.network, maintenance),
        sched_vehicles(schedule).contains(receiver),
        // A-carried
        spawn_move(maintenance, receiver).req_carried(schedule),
    ensures
        r is Some ==> spawn_move(maintenance, receiver).result(schedule, Ok(r->Some_0.schedule)), // @obl C11.generator.spawn_candidate_is_the_move_applied_to_the_base_schedule
//@first
        broadcast use gen_fmt_axioms::axiom_fmt_arc_vehicle_type;
        proof {
            // (stated for the move as a value, not for the local that holds it: no anchor inside the closure)
            lemma_spawn_parameters(self, schedule, maintenance, receiver);
            assert(spawn_move(maintenance, receiver).req_base(schedule)); // @obl C11.generator.spawn_parameters_satisfy_the_moves_precondition
            axiom_req_spawn_vehicle_for_maintenance(&spawn_move(maintenance, receiver), schedule);
        }
//@end


// =====================================================================================================
// hitch_hiking_iterator
// =====================================================================================================
//@skeleton solver/src/local_search/neighborhood/mod.rs RSSchedParallelNeighborhood::hitch_hiking_iterator : recv collect 0; let vehicle_type; recv collect 1; closure filter_map#0 = 5c6e51ca39ae32d2

//@frag solver/src/local_search/neighborhood/mod.rs RSSchedParallelNeighborhood::hitch_hiking_iterator : recv collect 0 as frag_hitch_vehicles
//@params schedule: &Schedule
//@ret (r: SeqIter<VehicleIdx>)
//@sig
    ensures r@ == sched_vehicles(schedule), // @obl C11.generator.hitch_hiking_only_real_vehicles
//@end

//@frag solver/src/local_search/neighborhood/mod.rs RSSchedParallelNeighborhood::hitch_hiking_iterator : let vehicle_type as frag_hitch_vehicle_type
//@params &self, schedule: &Schedule, vehicle: VehicleIdx
//@ret (r: VehicleTypeIdx)
//@sig
    requires self.gen_ok(schedule), sched_vehicles(schedule).contains(vehicle),
    ensures
        r == schedule.type_of(vehicle),
        // ... which is a type the network has a service-node list for (`self.service_nodes[&vehicle_type]` in Network::service_nodes)
        self.network.service_nodes@.contains_key(r), // @obl C11.generator.hitch_hiking_service_node_list_exists
//@first
        proof { lemma_listed_vehicle(schedule, vehicle); }
//@end

//@frag solver/src/local_search/neighborhood/mod.rs RSSchedParallelNeighborhood::hitch_hiking_iterator : recv collect 1 as frag_hitch_service_nodes
//@params &self, vehicle_type: VehicleTypeIdx
//@ret (r: SeqIter<NodeIdx>)
//@sig
    requires self.network.service_nodes@.contains_key(vehicle_type),
    ensures r@ == self.network.service_nodes@[vehicle_type]@,
//@end

//@frag solver/src/local_search/neighborhood/mod.rs RSSchedParallelNeighborhood::hitch_hiking_iterator : closure filter_map#0 as frag_hitch_candidate
//@params &self, schedule: &Schedule, vehicle: VehicleIdx, node: NodeIdx
//@ret (r: Option<ScheduleWithInfo>)
//@sig
    requires
        self.gen_ok(schedule),
        // what the iterators yield (A-lib): a vehicle of the listing, a node of the service-node list of its type
        sched_vehicles(schedule).contains(vehicle),
        self.network.service_nodes@.contains_key(schedule.type_of(vehicle)),
        self.network.service_nodes@[schedule.type_of(vehicle)]@.contains(node),
        // A-carried
        hitch_move(node, vehicle).req_carried(schedule),
    ensures
        r is Some ==> hitch_move(node, vehicle).result(schedule, Ok(r->Some_0.schedule)), // @obl C11.generator.hitch_hiking_candidate_is_the_move_applied_to_the_base_schedule
//@first
        proof {
            lemma_hitch_parameters(self, schedule, vehicle, node);
            assert(hitch_move(node, vehicle).req_base(schedule)); // @obl C11.generator.hitch_hiking_parameters_satisfy_the_moves_precondition
            axiom_req_add_trip_for_hitch_hiking(&hitch_move(node, vehicle), schedule);
        }
//@end

// =====================================================================================================
// remove_single_node_iterator
// =====================================================================================================
/// the nodes `all_non_depot_nodes_iter` yields: all nodes of a dummy tour, the nodes between the depots of a real tour
/// (verbatim body; `self.nodes[1..self.nodes.len() - 1]` panics for a real tour with fewer than two nodes)
//@item solution/src/tour.rs Tour::all_non_depot_nodes_iter
//@ret SeqIter<NodeIdx>
//@retname r
//@viter
//@sig
    requires !self.is_dummy ==> self.nodes@.len() >= 2,
    ensures r@ == non_depot_nodes(self),
//@end

//@skeleton solver/src/local_search/neighborhood/mod.rs RSSchedParallelNeighborhood::remove_single_node_iterator : recv collect 0; let tour; recv collect 1; closure filter_map#0 = bd24281f57382f8a

//@frag solver/src/local_search/neighborhood/mod.rs RSSchedParallelNeighborhood::remove_single_node_iterator : recv collect 0 as frag_remove_vehicles
//@params schedule: &Schedule
//@ret (r: SeqIter<VehicleIdx>)
//@sig
    ensures r@ == sched_vehicles(schedule), // @obl C11.generator.remove_only_real_vehicles
//@end

//@frag solver/src/local_search/neighborhood/mod.rs RSSchedParallelNeighborhood::remove_single_node_iterator : let tour as frag_remove_tour
//@params schedule: &Schedule, vehicle: VehicleIdx
//@ret (r: &Tour)
//@sig
    requires sched_gen_ok(schedule), sched_vehicles(schedule).contains(vehicle),
    ensures *r == schedule.tours@[vehicle], r.wf(), !r.is_dummy,
//@first
        proof { lemma_listed_vehicle(schedule, vehicle); }
//@end

//@frag solver/src/local_search/neighborhood/mod.rs RSSchedParallelNeighborhood::remove_single_node_iterator : recv collect 1 as frag_remove_nodes
//@params tour: &Tour
//@ret (r: SeqIter<NodeIdx>)
//@sig
    requires tour.wf(),
    ensures r@ == non_depot_nodes(tour),
//@end

//@frag solver/src/local_search/neighborhood/mod.rs RSSchedParallelNeighborhood::remove_single_node_iterator : closure filter_map#0 as frag_remove_candidate
//@params &self, schedule: &Schedule, vehicle: VehicleIdx, node: NodeIdx
//@ret (r: Option<ScheduleWithInfo>)
//@sig
    requires
        self.gen_ok(schedule),
        // what the iterators yield (A-lib): a vehicle of the listing, an activity of its tour
        sched_vehicles(schedule).contains(vehicle),
        non_depot_nodes(&schedule.tours@[vehicle]).contains(node),
    ensures
        r is Some ==> Ok::<Schedule, String>(r->Some_0.schedule) == remove_move(node, vehicle).result(schedule), // @obl C11.generator.remove_candidate_is_the_move_applied_to_the_base_schedule
//@first
        proof {
            // level B (slices/swaps_sem.vs): the parameter clause of RemoveSingleNode::req there -- the node is a node of the
            // network -- and what remove_segment needs of the pair: a real vehicle, an activity of ITS tour
            lemma_remove_parameters(self, schedule, vehicle, node);
            let w = remove_move(node, vehicle);
            assert(schedule.network.has(w.node) && schedule.vehicles@.contains_key(w.vehicle)
                && schedule.tours@[w.vehicle].has_node(w.node)); // @obl C11.generator.remove_parameters_satisfy_the_moves_precondition
            axiom_req_remove_single_node(&w, schedule);
        }
//@end


// =====================================================================================================
// segments (the segments of a provider's tour offered to PathExchange)
// =====================================================================================================
// R7a stubs: verified in slice depot_usage (text of slices/swaps.vs)
//@item solution/src/tour.rs Tour::first_node : trusted
//@retname r
//@sig
    requires self.nodes@.len() >= 1,
    ensures r == self.nodes@[0],
//@end
//@item solution/src/tour.rs Tour::last_node : trusted
//@retname r
//@sig
    requires self.nodes@.len() >= 1,
    ensures r == self.nodes@[self.nodes@.len() - 1],
//@end
// A-stub (text of env/tour_stubs.vs; `binary_search_by` over the start times)
//@item solution/src/tour.rs Tour::position_of : trusted
//@retname r
//@sig
    requires self.wf(), self.network.has(node),
    ensures
        r is Ok ==> 0 <= r.unwrap() < self.len() && self.nodes@[r.unwrap() as int] == node,
        r is Err ==> !self.nodes@.contains(node),
//@end
// R7a stub: verified in slice tour_pos (text of env/tour_pos_fns.vs)
//@item solution/src/tour.rs Tour::check_removable : trusted
//@retname r
//@sig
    requires self.wf(), self.network.has(segment.start), self.network.has(segment.end),
    ensures
        r is Ok ==> exists|s: int, e: int| 0 <= s < self.len() && 0 <= e < self.len() && self.nodes@[s] == segment.start
            && self.nodes@[e] == segment.end && self.removable(s, e),
//@end
/// A-iter: `Schedule::dummy_iter` yields the sorted dummy ids in order (`self.dummy_ids_sorted.iter().copied()`)
//@item solution/src/schedule.rs Schedule::dummy_iter : trusted
//@ret SeqIter<VehicleIdx>
//@retname r
//@sig
    ensures r@ == self.dummy_ids_sorted@,
//@end

// verbatim bodies, verified: "the overhead time (dead_head + idle) between the predecessor and the node itself" -- never an
// error for a node OF the tour (position_of finds it; it has a predecessor unless it is the first node, which is asked first;
// the predecessor ends before the node starts: `DateTime - DateTime` asserts that)
//@item solution/src/tour.rs Tour::preceding_overhead
//@retname r
//@sig
    requires self.wf(), self.has_node(node),
    ensures r is Ok, // @obl C11.generator.overhead_of_a_node_of_the_tour_is_defined
//@first
        proof { lemma_tour_member(self, node); }
//@after "let pos"
            proof { if pos >= 1 { lemma_gap(self, pos as int); } }
//@end
//@item solution/src/tour.rs Tour::subsequent_overhead
//@retname r
//@sig
    requires self.wf(), self.has_node(node),
    ensures r is Ok, // @obl C11.generator.overhead_of_a_node_of_the_tour_is_defined
//@first
        proof { lemma_tour_member(self, node); }
//@after "let pos"
            proof {
                // (a Vec holds at most usize::MAX items: `pos + 1` does not overflow)
                assert(vstd::std_specs::vec::spec_vec_len(&self.nodes) == self.nodes@.len());
                if pos + 1 < self.len() { lemma_gap(self, pos + 1); }
            }
//@end

//@skeleton solver/src/local_search/neighborhood/mod.rs RSSchedParallelNeighborhood::segments : let tour; closure filter#0; closure filter#1; closure take_while#0; recv last_node 0; closure map#0; closure filter#3 = 397f7bf9b13d13bf

//@frag solver/src/local_search/neighborhood/mod.rs RSSchedParallelNeighborhood::segments : let tour as frag_segments_tour
//@params provider: VehicleIdx, schedule: &Schedule
//@ret (r: &Tour)
//@sig
    requires sched_gen_ok(schedule), provider_listed(schedule, provider),
    ensures *r == schedule.sp_tour_of(provider), provider_tour_ok(schedule, provider),
//@first
        proof { lemma_provider(schedule, provider); }
//@end

//@frag solver/src/local_search/neighborhood/mod.rs RSSchedParallelNeighborhood::segments : closure filter#0 as frag_segments_start_filter
//@params schedule: &Schedule, provider: VehicleIdx, tour: &Tour, threshold: Duration, n: &NodeIdx
//@ret (r: bool)
//@sig
    requires
        provider_tour_ok(schedule, provider), *tour == schedule.sp_tour_of(provider),
        // A-lib: the items are the activities of the tour (with their index)
        non_depot_nodes(tour).contains(*n),
//@first
        proof { lemma_non_depot_member(tour, *n); }
//@end

//@frag solver/src/local_search/neighborhood/mod.rs RSSchedParallelNeighborhood::segments : closure filter#1 as frag_segments_end_filter
//@params schedule: &Schedule, provider: VehicleIdx, tour: &Tour, threshold: Duration, n: &NodeIdx
//@ret (r: bool)
//@sig
    requires
        provider_tour_ok(schedule, provider), *tour == schedule.sp_tour_of(provider),
        non_depot_nodes(tour).contains(*n),
//@first
        proof { lemma_non_depot_member(tour, *n); }
//@end

//@frag solver/src/local_search/neighborhood/mod.rs RSSchedParallelNeighborhood::segments : closure take_while#0 as frag_segments_length_limit
//@params &self, schedule: &Schedule, provider: VehicleIdx, i: usize, j: usize, seg_start: NodeIdx, seg_end: &NodeIdx
//@ret (r: bool)
//@sig
    requires
        self.gen_ok(schedule), provider_tour_ok(schedule, provider),
        // A-lib: `enumerate` pairs the i-th activity with i; `skip(i)` passes on the activities from the i-th on
        i <= j < non_depot_nodes(&schedule.sp_tour_of(provider)).len(),
        seg_start == non_depot_nodes(&schedule.sp_tour_of(provider))[i as int],
        *seg_end == non_depot_nodes(&schedule.sp_tour_of(provider))[j as int],
//@first
        proof { lemma_segment_span(&schedule.sp_tour_of(provider), i as int, j as int); }
//@end

//@frag solver/src/local_search/neighborhood/mod.rs RSSchedParallelNeighborhood::segments : recv last_node 0 as frag_segments_tour_again
//@params provider: VehicleIdx, schedule: &Schedule
//@ret (r: &Tour)
//@sig
    requires sched_gen_ok(schedule), provider_listed(schedule, provider),
    ensures *r == schedule.sp_tour_of(provider), r.nodes@.len() >= 1,
//@first
        proof { lemma_provider(schedule, provider); }
//@end

//@frag solver/src/local_search/neighborhood/mod.rs RSSchedParallelNeighborhood::segments : closure map#0 as frag_segments_make
//@params seg_start: NodeIdx, seg_end: NodeIdx
//@ret (r: Segment)
//@sig
    ensures r.start == seg_start, r.end == seg_end,
//@end

//@frag solver/src/local_search/neighborhood/mod.rs RSSchedParallelNeighborhood::segments : closure filter#3 as frag_segments_removable
//@params provider: VehicleIdx, schedule: &Schedule, seg: &Segment
//@ret (r: bool)
//@sig
    requires
        sched_gen_ok(schedule), provider_listed(schedule, provider),
        // A-lib: start and end of the segment are nodes of the provider's tour (an activity / an activity or the last node)
        schedule.sp_tour_of(provider).has_node(seg.start), schedule.sp_tour_of(provider).has_node(seg.end),
    ensures
        // what passes is a segment OF the provider's tour, start not after end (parameter clause of override_reassign's or_pre)
        r ==> exists|i: int, j: int| #[trigger] Schedule::seg_at(&schedule.sp_tour_of(provider), *seg, i, j), // @obl C11.generator.segments_yields_segments_of_the_providers_tour
//@first
        proof {
            let t = schedule.sp_tour_of(provider);
            lemma_provider(schedule, provider); lemma_tour_member(&t, seg.start); lemma_tour_member(&t, seg.end);
            // (the body is one expression: the step from check_removable's witness to seg_at is offered for every pair of positions)
            assert forall|s: int, e: int| #![trigger t.nodes@[s], t.nodes@[e]] 0 <= s < t.len() && 0 <= e < t.len() && t.nodes@[s] == seg.start
                && t.nodes@[e] == seg.end && t.removable(s, e) implies Schedule::seg_at(&t, *seg, s, e) by {}
        }
//@end


// =====================================================================================================
// segment_exchange_iterator, dummy_and_real_vehicles, real_and_dummy_vehicles
// =====================================================================================================
//@skeleton solver/src/local_search/neighborhood/mod.rs RSSchedParallelNeighborhood::dummy_and_real_vehicles : recv collect 0 = 47564f11b051b24c
//@frag solver/src/local_search/neighborhood/mod.rs RSSchedParallelNeighborhood::dummy_and_real_vehicles : recv collect 0 as frag_providers
//@params schedule: &Schedule
//@ret (r: SeqIter<VehicleIdx>)
//@sig
    ensures
        r@ == schedule.dummy_ids_sorted@ + sched_vehicles(schedule),
        forall|i: int| 0 <= i < r@.len() ==> provider_listed(schedule, #[trigger] r@[i]), // @obl C11.generator.providers_and_receivers_are_listed
//@end
//@skeleton solver/src/local_search/neighborhood/mod.rs RSSchedParallelNeighborhood::real_and_dummy_vehicles : recv collect 0 = b69903dd32f33ca2
//@frag solver/src/local_search/neighborhood/mod.rs RSSchedParallelNeighborhood::real_and_dummy_vehicles : recv collect 0 as frag_receivers
//@params schedule: &Schedule
//@ret (r: SeqIter<VehicleIdx>)
//@sig
    ensures
        r@ == sched_vehicles(schedule) + schedule.dummy_ids_sorted@,
        forall|i: int| 0 <= i < r@.len() ==> provider_listed(schedule, #[trigger] r@[i]), // @obl C11.generator.providers_and_receivers_are_listed
//@end

//@skeleton solver/src/local_search/neighborhood/mod.rs RSSchedParallelNeighborhood::segment_exchange_iterator : stmt "if let SwapInfo::PathExchange"; closure filter#0; let swap = 04e3f474bceee891

//@item solver/src/local_search/mod.rs ScheduleWithInfo::get_last_swap_info
//@retname r
//@sig
    ensures r == self.last_swap_info,
//@end
// "rotate providers such that start_provider is the first provider": `rotate_left(mid)` panics if mid > len
//@frag solver/src/local_search/neighborhood/mod.rs RSSchedParallelNeighborhood::segment_exchange_iterator : stmt "if let SwapInfo::PathExchange" as frag_exchange_rotate
//@params schedule_with_info: &ScheduleWithInfo, providers0: Vec<VehicleIdx>
//@ret (r: Vec<VehicleIdx>)
//@tail providers
//@viter
//@closure-params position#0
    &VehicleIdx
//@closure position#0
    -> (b: bool) ensures b == (*p0 == last_provider)
//@sig
    ensures
        // the same providers, each as often as before (a rotation)
        r@.to_multiset() == providers0@.to_multiset(), // @obl C11.generator.rotation_keeps_the_providers
//@first
        let mut providers = providers0;
        proof {
            // (whatever position is found: every rotation of the list is a rearrangement of it)
            assert forall|mid: int| 0 <= mid <= providers0@.len() implies
                (#[trigger] providers0@.subrange(mid, providers0@.len() as int) + providers0@.subrange(0, mid)).to_multiset() == providers0@.to_multiset() by {
                lemma_rotation_multiset(providers0@, mid);
            }
        }
//@end

//@frag solver/src/local_search/neighborhood/mod.rs RSSchedParallelNeighborhood::segment_exchange_iterator : closure filter#0 as frag_exchange_skip_provider
//@params provider: VehicleIdx, u: VehicleIdx
//@ret (r: bool)
//@sig
    ensures r == (u != provider), // @obl C11.generator.path_exchange_receiver_differs_from_provider
//@end

// The body of the `filter_map` closure is NOT lifted as a whole: its `format!` holds two closures (`.map(|vt| format!(..,
// self.network.vehicle_types().get(vt).unwrap()))`) that sit inside macro arguments, where vx cannot attach a contract (no rule
// of SLICES.md drops a `format!`).  Lifted instead: the initialiser of `let swap`; the `match swap.apply(schedule) { .. }` that
// follows is pinned by the skeleton hash (A-lib-px in the header).
//@frag solver/src/local_search/neighborhood/mod.rs RSSchedParallelNeighborhood::segment_exchange_iterator : let swap as frag_exchange_move
//@params schedule: &Schedule, seg: Segment, provider: VehicleIdx, receiver: VehicleIdx
//@ret (r: PathExchange)
//@sig
    requires
        sched_gen_ok(schedule),
        // what the iterators yield (A-lib): listed provider and receiver, the receiver passed the filter `u != provider`,
        // the segment passed the filter of `segments` and starts at an activity of the provider's tour
        provider_listed(schedule, provider), provider_listed(schedule, receiver), receiver != provider,
        exists|i: int, j: int| #[trigger] Schedule::seg_at(&schedule.sp_tour_of(provider), seg, i, j),
        !schedule.network.sp_node(seg.start).sp_is_depot(),
        // A-carried: PathExchange::req (env/swaps_shim.vs) speaks about the intermediate schedules only
        exchange_move(seg, provider, receiver).req(schedule),
    ensures
        r == exchange_move(seg, provider, receiver),
        // the parameter clauses of override_reassign's precondition (or_pre, env/override_reassign_shim.vs)
        r.provider != r.receiver && schedule.has_tour(r.provider) && schedule.has_tour(r.receiver)
            && exchange_segment_ok(schedule, r.segment, r.provider), // @obl C11.generator.exchange_parameters_satisfy_the_moves_precondition
        // the precondition of `apply` as the trait declares it
        swap_req(&r, schedule), // @obl C11.generator.exchange_parameters_satisfy_the_moves_precondition
//@first
        proof {
            lemma_exchange_parameters(schedule, seg, provider, receiver);
            axiom_req_path_exchange(&exchange_move(seg, provider, receiver), schedule);
        }
//@end


// =====================================================================================================
// GLUE between the fragments (what the pinned plumbing hands from one fragment to the next; each `requires` that is not a
// fragment's contract is an A-lib assumption of the header)
// =====================================================================================================
/// hitch-hiking: `vehicles.into_par_iter().flat_map(|vehicle| ..)` calls the closure on the collected vehicles;
/// `service_nodes.into_par_iter().filter_map(|node| ..)` on the collected service nodes of the vehicle's type
pub proof fn lemma_glue_hitch_hiking(g: &RSSchedParallelNeighborhood, s: &Schedule, vehicles: SeqIter<VehicleIdx>, vehicle: VehicleIdx,
        vt: VehicleTypeIdx, nodes: SeqIter<NodeIdx>, node: NodeIdx)
    requires
        g.gen_ok(s),
        call_ensures(RSSchedParallelNeighborhood::frag_hitch_vehicles, (s,), vehicles), vehicles@.contains(vehicle),
        call_ensures(RSSchedParallelNeighborhood::frag_hitch_vehicle_type, (g, s, vehicle), vt),
        call_ensures(RSSchedParallelNeighborhood::frag_hitch_service_nodes, (g, vt), nodes), nodes@.contains(node),
        hitch_move(node, vehicle).req_carried(s),
    ensures
        call_requires(RSSchedParallelNeighborhood::frag_hitch_vehicle_type, (g, s, vehicle)), // @obl C11.generator.hitch_hiking_parameters_satisfy_the_moves_precondition
        call_requires(RSSchedParallelNeighborhood::frag_hitch_service_nodes, (g, vt)), // @obl C11.generator.hitch_hiking_service_node_list_exists
        call_requires(RSSchedParallelNeighborhood::frag_hitch_candidate, (g, s, vehicle, node)), // @obl C11.generator.hitch_hiking_parameters_satisfy_the_moves_precondition
{
}
/// single-node removal: the same shape over the vehicles and the activities of the vehicle's tour
pub proof fn lemma_glue_remove_single_node(g: &RSSchedParallelNeighborhood, s: &Schedule, vehicles: SeqIter<VehicleIdx>, vehicle: VehicleIdx,
        tour: &Tour, nodes: SeqIter<NodeIdx>, node: NodeIdx)
    requires
        g.gen_ok(s),
        call_ensures(RSSchedParallelNeighborhood::frag_remove_vehicles, (s,), vehicles), vehicles@.contains(vehicle),
        call_ensures(RSSchedParallelNeighborhood::frag_remove_tour, (s, vehicle), tour),
        call_ensures(RSSchedParallelNeighborhood::frag_remove_nodes, (tour,), nodes), nodes@.contains(node),
    ensures
        call_requires(RSSchedParallelNeighborhood::frag_remove_tour, (s, vehicle)), // @obl C11.generator.remove_parameters_satisfy_the_moves_precondition
        call_requires(RSSchedParallelNeighborhood::frag_remove_nodes, (tour,)), // @obl C11.generator.remove_parameters_satisfy_the_moves_precondition
        call_requires(RSSchedParallelNeighborhood::frag_remove_candidate, (g, s, vehicle, node)), // @obl C11.generator.remove_parameters_satisfy_the_moves_precondition
{
}
/// segments: the tour looked up first is the tour the closures work on; `enumerate` pairs the i-th activity with i, `skip(i)`
/// passes on the activities from the i-th on (so the j-th with j >= i); `filter` hands the closure a reference to an item
pub proof fn lemma_glue_segments(g: &RSSchedParallelNeighborhood, s: &Schedule, provider: VehicleIdx, tour: &Tour, threshold: Duration,
        i: usize, j: usize)
    requires
        g.gen_ok(s), provider_listed(s, provider),
        call_ensures(RSSchedParallelNeighborhood::frag_segments_tour, (provider, s), tour),
        i <= j < non_depot_nodes(tour).len(),
    ensures
        call_requires(RSSchedParallelNeighborhood::frag_segments_tour, (provider, s)), // @obl C11.generator.segments_provider_has_a_tour
        call_requires(Tour::all_non_depot_nodes_iter, (tour,)), // @obl C11.generator.segments_provider_has_a_tour
        call_requires(RSSchedParallelNeighborhood::frag_segments_start_filter, (s, provider, tour, threshold, &non_depot_nodes(tour)[i as int])), // @obl C11.generator.overhead_of_a_node_of_the_tour_is_defined
        call_requires(RSSchedParallelNeighborhood::frag_segments_end_filter, (s, provider, tour, threshold, &non_depot_nodes(tour)[j as int])), // @obl C11.generator.overhead_of_a_node_of_the_tour_is_defined
        call_requires(RSSchedParallelNeighborhood::frag_segments_length_limit, (g, s, provider, i, j, non_depot_nodes(tour)[i as int], &non_depot_nodes(tour)[j as int])), // @obl C11.generator.segment_length_is_defined
        call_requires(RSSchedParallelNeighborhood::frag_segments_tour_again, (provider, s)), // @obl C11.generator.segments_provider_has_a_tour
{
    let nd = non_depot_nodes(tour);
    assert(nd.contains(nd[i as int]));
    assert(nd.contains(nd[j as int]));
}
/// segments: both kinds of segment ends -- the j-th activity (j >= i) and the tour's last node -- give the final filter a
/// segment whose two ends are nodes of the provider's tour; what it lets pass (with a provider and a receiver that passed
/// `u != provider`) satisfies the precondition of the fragment that builds the PathExchange
pub proof fn lemma_glue_segment_exchange(g: &RSSchedParallelNeighborhood, s: &Schedule, provider: VehicleIdx, receiver: VehicleIdx,
        tour: &Tour, i: usize, seg_end: NodeIdx, seg: Segment)
    requires
        g.gen_ok(s), provider_listed(s, provider), provider_listed(s, receiver),
        call_ensures(RSSchedParallelNeighborhood::frag_segments_tour, (provider, s), tour),
        i < non_depot_nodes(tour).len(),
        // the end: an activity of the tour or `tour.last_node()`
        non_depot_nodes(tour).contains(seg_end) || seg_end == tour.nodes@[tour.len() - 1],
        call_ensures(RSSchedParallelNeighborhood::frag_segments_make, (non_depot_nodes(tour)[i as int], seg_end), seg),
        // it passed the final filter of `segments`, the receiver passed `u != provider`
        call_ensures(RSSchedParallelNeighborhood::frag_segments_removable, (provider, s, &seg), true),
        call_ensures(RSSchedParallelNeighborhood::frag_exchange_skip_provider, (provider, receiver), true),
        exchange_move(seg, provider, receiver).req(s),
    ensures
        call_requires(RSSchedParallelNeighborhood::frag_segments_removable, (provider, s, &seg)), // @obl C11.generator.segments_yields_segments_of_the_providers_tour
        call_requires(RSSchedParallelNeighborhood::frag_exchange_move, (s, seg, provider, receiver)), // @obl C11.generator.exchange_parameters_satisfy_the_moves_precondition
{
    lemma_provider(s, provider);
    lemma_non_depot_at(tour, i as int);
    if non_depot_nodes(tour).contains(seg_end) {
        lemma_non_depot_member(tour, seg_end);
    } else {
        assert(tour.nodes@[tour.len() - 1] == seg_end);
        assert(tour.has_node(seg_end));
    }
    assert(s.network.sp_node(seg.start).sp_is_activity());
}

} // mod tr
} // verus!
fn main() {}
