// slice `net_enum`: successors / predecessors enumerate exactly the reachable nodes (C17, C14, C01)
// R8: the range bound and the filter closure of each function are lifted verbatim; the plumbing
// (`BTreeMap::range(b)` yields exactly the entries whose key lies in b, `filter_map(f)` keeps exactly
// the Some images) is A-lib; the sorted maps are keyed ((time(n), n), n) for the nodes of the type
// (A-index, built by Network::new which is not under contract).
use vstd::prelude::*;
use std::ops::Add;
use std::ops::Sub;
use std::collections::{BTreeMap, HashMap};
use std::sync::Arc;
//@include env/display_time.rs
//@include env/display_model.rs
verus! {
//@include env/std_specs.vs
//@include env/time_types.vs
//@include-trusted env/time_ops.vs
//@include env/model_types.vs
//@include env/broadcast_model.vs
//@include env/model_network_types.vs
//@include env/model_spec.vs
//@include-trusted env/model_fns.vs

/// A-derive: derived Ord of NodeIdx = variant order (StartDepot < Service < Maintenance < EndDepot), then index
pub open spec fn node_idx_rank(n: NodeIdx) -> int {
    match n {
        NodeIdx::StartDepot(i) => i as int,
        NodeIdx::Service(i) => 0x10000 + i as int,
        NodeIdx::Maintenance(i) => 0x20000 + i as int,
        NodeIdx::EndDepot(i) => 0x30000 + i as int,
    }
}
/// A-derive: tuples are ordered lexicographically
pub open spec fn key_lt(a: (DateTime, NodeIdx), b: (DateTime, NodeIdx)) -> bool {
    dt_cmp(a.0, b.0) is Less || (dt_cmp(a.0, b.0) is Equal && node_idx_rank(a.1) < node_idx_rank(b.1))
}
pub open spec fn key_le(a: (DateTime, NodeIdx), b: (DateTime, NodeIdx)) -> bool {
    dt_cmp(a.0, b.0) is Less || (dt_cmp(a.0, b.0) is Equal && node_idx_rank(a.1) <= node_idx_rank(b.1))
}

//@item model/src/base_types.rs NodeIdx::smallest
//@retname r
//@sig
    ensures r == NodeIdx::StartDepot(0),
//@end

// ---------------------------------------------------------------- successors
//@skeleton model/src/network.rs Network::successors : arg range 0; closure 0 = e4f939b323e235b5
//@frag model/src/network.rs Network::successors : arg range 0 as frag_successors_range
//@params &self, node: NodeIdx
//@ret (r: std::ops::RangeFrom<(DateTime, NodeIdx)>)
//@sig
    requires self.wf(), self.has(node),
    ensures
        // C17: every node the given node can reach lies inside the scanned key range (key = (start_time(n), n))
        forall|n: NodeIdx| self.has(n) && #[trigger] self.reach(node, n) ==> key_le(r.start, (self.sp_node(n).sp_start_time(), n)), // @obl C17.successors.range_complete
//@first
        proof {
            assert(self.nodes@.contains_key(node));
            assert forall|n: NodeIdx| self.has(n) && #[trigger] self.reach(node, n) implies // @obl C17.successors.range_complete
                key_le((self.sp_node(node).sp_end_time(), NodeIdx::StartDepot(0)), (self.sp_node(n).sp_start_time(), n)) by {
                lemma_reach_key(self, node, n);
            }
        }
//@end
//@frag model/src/network.rs Network::successors : closure 0 as frag_successors_filter
//@params &self, node: NodeIdx, n: NodeIdx
//@ret (r: Option<NodeIdx>)
//@sig
    requires self.wf(), self.has(node), self.has(n),
    ensures
        self.reach(node, n) <==> r == Some(n), // @obl C17.successors.filter_exact
        !self.reach(node, n) <==> r is None,
//@end

// ---------------------------------------------------------------- predecessors
//@skeleton model/src/network.rs Network::predecessors : arg range 0; closure 0 = 32f16d435725aad3
//@frag model/src/network.rs Network::predecessors : arg range 0 as frag_predecessors_range
//@params &self, node: NodeIdx
//@ret (r: std::ops::RangeToInclusive<(DateTime, NodeIdx)>)
//@sig
    requires self.wf(), self.has(node),
    ensures
        // C17: every node that can reach the given node lies inside the scanned key range (key = (end_time(n), n))
        forall|n: NodeIdx| self.has(n) && #[trigger] self.reach(n, node) ==> key_le((self.sp_node(n).sp_end_time(), n), r.end), // @obl C17.predecessors.range_complete
//@first
        proof {
            assert(self.nodes@.contains_key(node));
            assert forall|n: NodeIdx| self.has(n) && #[trigger] self.reach(n, node) implies // @obl C17.predecessors.range_complete
                key_le((self.sp_node(n).sp_end_time(), n), (self.sp_node(node).sp_start_time(), NodeIdx::EndDepot(0xffff))) by {
                lemma_reach_key(self, n, node);
            }
        }
//@end
//@frag model/src/network.rs Network::predecessors : closure 0 as frag_predecessors_filter
//@params &self, node: NodeIdx, n: NodeIdx
//@ret (r: Option<NodeIdx>)
//@sig
    requires self.wf(), self.has(node), self.has(n),
    ensures
        self.reach(n, node) <==> r == Some(n), // @obl C17.predecessors.filter_exact
        !self.reach(n, node) <==> r is None,
//@end

/// reach(a, b) implies end(a) <= start(b) in the derived order of DateTime
pub proof fn lemma_reach_key(net: &Network, a: NodeIdx, b: NodeIdx)
    requires net.wf(), net.has(a), net.has(b), net.reach(a, b),
    ensures dt_cmp(net.sp_node(a).sp_end_time(), net.sp_node(b).sp_start_time()) is Less
        || dt_cmp(net.sp_node(a).sp_end_time(), net.sp_node(b).sp_start_time()) is Equal,
{
    lemma_reach_implies_le(net, a, b);
    assert(net.nodes@.contains_key(a) && net.nodes@.contains_key(b));
    lemma_dt_cmp_rank(net.sp_node(a).sp_end_time(), net.sp_node(b).sp_start_time());
}
//@include env/reach_lemmas.vs
} // verus!
fn main() {}
