// slice `network`: reachability rule, durations, limits (C17, C02, C01)
use vstd::prelude::*;
use std::ops::Add;
use std::ops::Sub;
use std::collections::{BTreeMap, HashMap};
use std::sync::Arc;
//@include env/display_time.rs
//@include env/display_model.rs
verus! {
//@include env/time_types.vs
//@include env/time_ops.vs
//@include env/model_types.vs
//@include env/broadcast_model.vs
//@include env/model_network_types.vs
//@include env/model_spec.vs
//@include env/model_fns.vs
} // verus!
fn main() {}
