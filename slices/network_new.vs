// slice `network_new`: overflow depot capacity (Network::new) and default depots (create_network /
// create_depots) — C17 "the given depots (or one unlimited depot per location) with their total and
// per-type capacities plus an overflow depot that can always host every vehicle"; C06 (D5).
//
// Loader (C17 first sentence), also R8: create_service_trips (arrival = departure + duration, distance, seated, formation
// limit, the node built from exactly these values), create_maintenance_slots (per-slot closure), create_depots
// `Some(depots)` branch (total and per-type capacities of a given depot).  A-text: DateTime::new (string parser)
// is a stub over the uninterpreted `dt_of_text`; StdMap Index (`map[&key]` panics unless the key is present).
//
// R8: Network::new, create_network and create_depots are not brought in as a whole; the expressions that
// decide the capacities are lifted verbatim, the rest of each function is pinned by its skeleton hash.
//
// ASSUMPTIONS of this slice
//  A-map    env/network_new_shim.vs `StdMap`: a std HashMap that a fragment only iterates is declared as
//           StdMap in the fragment's parameter list; `values()` yields the value of every entry exactly
//           once in some order; `len()` = number of entries.
//  A-iter   env/seqiter.vs `SeqIter::map/sum/collect`; shim additions `SeqIter<u32>::max` (None iff empty,
//           else the maximum), `VSum<u32>` (`sum_req`: the total fits u32), `collect()` into a std HashMap
//           (keys = first components, value of a key = second component of a pair with that key).
//  A-std    `<u32 as From<u32>>::from` is the identity; truncating `as` casts are Verus' built-in semantics.
//  A-derive `derive_more::From` on `DepotIdx(pub Idx)` wraps its argument.
//  A-stub   VehicleTypes::iter yields `ids_sorted` in order; VehicleTypes::get = lookup in `vehicle_types`
//           (contract text of slice `limits`).
//  A-lib    (pinned plumbing, not verified) Network::new: `number_of_service_nodes` is `.sum::<usize>()`
//           (the total, no usize overflow) of the items of frag_service_trip_counts; `max_formation_count` /
//           `overflow_capacity` are the two `let` fragments evaluated on the constructor's arguments resp.
//           on those two values; `overflow_capacity` is handed to `Depot::new` as total capacity together
//           with `vehicle_types.iter().map(frag_overflow_allowed_type).collect()` as allowed types.
//           create_network: the result of frag_number_of_service_trips is the 5th argument
//           (`vehicle_upper_limit`) of create_depots.  create_depots, `None` branch:
//           `loc.iter().enumerate().map(closure).collect()` applies frag_default_depot once to every
//           location of `loc` with the captured `vehicle_upper_limit` / `allowed_vehicle_types`.
//  A-wf     VehicleTypes: `ids_sorted` lists exactly the keys of `vehicle_types` (established by
//           VehicleTypes::new, not under contract here).
//  ASSUMED preconditions (NOT established by the callers, see report): frag_overflow_capacity — the trip
//           count fits u32 and count * max_formation_count does not overflow u32 (demonstrated to be
//           violable: maximalFormationCount = 2^31 and two trips); frag_number_of_service_trips — the
//           number of service trips fits u32.
// EXPECTED FAILURE on the unchanged tree: lemma_overflow_depot_can_host_every_vehicle (D5, demonstrated).
#![feature(allocator_api)]
use vstd::prelude::*;
use std::ops::Add;
use std::ops::Sub;
use std::collections::{BTreeMap, HashMap};
use std::sync::Arc;
//@include env/display_time.rs
//@include env/display_model.rs
verus! {
//@include env/std_specs.vs
//@include env/time_types.vs
//@include-trusted env/time_ops.vs
//@include env/model_types.vs
//@include env/broadcast_model.vs
//@include env/model_network_types.vs
//@include env/model_spec.vs
//@include env/seqiter.vs
//@include env/sums.vs
//@include env/network_new_shim.vs

pub type ModelDepot = Depot;
pub type ModelServiceTrip = ServiceTrip;
pub type IdType = String;

// ---------------------------------------------------------------- callees
//@item model/src/vehicle_types.rs VehicleType::maximal_formation_count
//@retname r
//@sig
    ensures r == self.maximal_formation_count,
//@end
//@item model/src/vehicle_types.rs VehicleTypes::get : trusted
//@retname r
//@sig
    ensures
        self.vehicle_types@.contains_key(idx) ==> r is Some && r.unwrap() == self.vehicle_types@[idx],
        !self.vehicle_types@.contains_key(idx) ==> r is None,
//@end
//@item model/src/vehicle_types.rs VehicleTypes::iter : trusted
//@ret SeqIter<VehicleTypeIdx>
//@sig
    ensures r@ == self.ids_sorted@,
//@end
//@item model/src/locations.rs Locations::get_id
//@retname r
//@sig
    ensures (location is Nowhere || self.stations@.contains_key(location->Station_0)) ==> r is Ok,
//@end
//@item model/src/network/depot.rs Depot::new
//@retname r
//@sig
    ensures r.idx == depot_idx, r.id == name, r.location == location, r.total_capacity == total_capacity,
        r.allowed_types == allowed_types,
//@end
/// C02 (slice `limits`): the smaller of total and per-type capacity; types not listed never start there
pub open spec fn sp_capacity_for(d: Depot, vt: VehicleTypeIdx) -> int {
    if !d.allowed_types@.contains_key(vt) { 0 }
    else if d.allowed_types@[vt] is Some && d.allowed_types@[vt].unwrap() <= d.total_capacity { d.allowed_types@[vt].unwrap() as int }
    else { d.total_capacity as int }
}
//@item model/src/network/depot.rs Depot::capacity_for
//@retname r
//@sig
    ensures r == sp_capacity_for(*self, vehicle_type_idx),
//@end

impl VehicleTypes {
    /// A-wf: `ids_sorted` lists exactly the keys of `vehicle_types`
    pub open spec fn wf_ids(&self) -> bool {
        forall|k: VehicleTypeIdx| self.ids_sorted@.contains(k) <==> self.vehicle_types@.contains_key(k)
    }
    /// formation count the overflow depot reckons with for type k
    pub open spec fn fc_or_1(&self, k: VehicleTypeIdx) -> int {
        // types without limit count with the flow network's own cap (slice mcf_bounds: UNLIMITED_FORMATION = 100)
        match self.vehicle_types@[k].maximal_formation_count { Some(l) => l as int, None => 100 }
    }
}

// ================================================================ Network::new : overflow depot
//@skeleton model/src/network.rs Network::new : recv sum 0; let max_formation_count; let overflow_capacity; let overflow_depot; closure map#6; closure map#8; closure map#10 = f8835c362d476487

// ---- A-index, the part of it that is code of this repository: the entries of the time-sorted maps (`SortedNodes` =
// BTreeMap<(DateTime, NodeIdx), NodeIdx>) that `Network::new` builds are ((start time of n, n), n) resp. ((end time of n, n), n).
// WHICH nodes are fed into the closures (the chain service nodes of the type + maintenance nodes + start depots + end depots)
// and the `collect` into the BTreeMap stay plumbing under the skeleton hash.
//@item model/src/network/nodes.rs Node::start_time : trusted
//@retname r
//@sig
    ensures r == self.sp_start_time(),
//@end
//@item model/src/network/nodes.rs Node::end_time : trusted
//@retname r
//@sig
    ensures r == self.sp_end_time(),
//@end
//@frag model/src/network.rs Network::new : closure map#6 as frag_index_entry_all_nodes
//@params nodes: &HashMap<NodeIdx, Node>, n: NodeIdx
//@ret (r: ((DateTime, NodeIdx), NodeIdx))
//@sig
    requires nodes@.contains_key(n),
    ensures r == ((nodes@[n].sp_start_time(), n), n), // @obl C17.index.all_nodes_keyed_by_start_time_then_node
//@end
//@frag model/src/network.rs Network::new : closure map#8 as frag_index_entry_by_start
//@params nodes: &HashMap<NodeIdx, Node>, n: NodeIdx
//@ret (r: ((DateTime, NodeIdx), NodeIdx))
//@sig
    requires nodes@.contains_key(n),
    ensures r == ((nodes@[n].sp_start_time(), n), n), // @obl C17.index.type_nodes_keyed_by_start_time_then_node
//@end
//@frag model/src/network.rs Network::new : closure map#10 as frag_index_entry_by_end
//@params nodes: &HashMap<NodeIdx, Node>, n: NodeIdx
//@ret (r: ((DateTime, NodeIdx), NodeIdx))
//@sig
    requires nodes@.contains_key(n),
    ensures r == ((nodes@[n].sp_end_time(), n), n), // @obl C17.index.type_nodes_keyed_by_end_time_then_node
//@end

//@frag model/src/network.rs Network::new : recv sum 0 as frag_service_trip_counts
//@params service_trips: &StdMap<VehicleTypeIdx, Vec<ServiceTrip>>
//@ret (r: SeqIter<usize>)
//@closure-params local#0
    &Vec<ServiceTrip>
//@closure local#0
    -> (c: usize) ensures c == vec@.len()
//@sig
    ensures
        // the items sum up to the number of service trips of the instance, whatever the order of values()
        isum(r@.map_values(|x: usize| x as int)) == total_len(service_trips@),
//@first
        broadcast use lemma_sum_enum;
//@end

//@frag model/src/network.rs Network::new : let max_formation_count as frag_max_formation_count
//@params vehicle_types: &VehicleTypes
//@ret (r: VehicleCount)
//@closure-params local#0
    VehicleTypeIdx
//@closure local#0
    -> (c: VehicleCount) requires vehicle_types.vehicle_types@.contains_key(vt) ensures c as int == vehicle_types.fc_or_1(vt)
//@sig
    requires vehicle_types.wf_ids(),
    ensures
        // exact: the largest formation limit over all vehicle types, a type without limit counting as 1;
        // 1 if there is no vehicle type
        vehicle_types.ids_sorted@.len() == 0 ==> r == 1,
        forall|i: int| 0 <= i < vehicle_types.ids_sorted@.len() ==> vehicle_types.fc_or_1(#[trigger] vehicle_types.ids_sorted@[i]) <= r,
        vehicle_types.ids_sorted@.len() > 0 ==> exists|i: int| 0 <= i < vehicle_types.ids_sorted@.len() && #[trigger] vehicle_types.fc_or_1(vehicle_types.ids_sorted@[i]) == r,
//@first
        broadcast use lemma_touch_same_index;
        proof {
            assert forall|i: int| 0 <= i < vehicle_types.ids_sorted@.len() implies vehicle_types.vehicle_types@.contains_key(#[trigger] vehicle_types.ids_sorted@[i]) by {
                assert(vehicle_types.ids_sorted@.contains(vehicle_types.ids_sorted@[i]));
            }
        }
//@end

//@item model/src/network/nodes.rs MaintenanceSlot::track_count
//@retname r
//@sig
    ensures r == self.track_count,
//@end
/// the tracks of all maintenance slots (every track can make the flow stage send a vehicle of its own through the slot)
pub open spec fn tracks_total(ms: Seq<MaintenanceSlot>) -> int { isum(ms.map_values(|m: MaintenanceSlot| m.track_count as int)) }
pub open spec fn sat_u32(x: int) -> int { if x <= u32::MAX { x } else { u32::MAX as int } }
pub open spec fn is_tracks_of(ms: Seq<MaintenanceSlot>, s: Seq<u64>) -> bool {
    s.len() == ms.len() && forall|i: int| 0 <= i < s.len() ==> #[trigger] s[i] == ms[i].track_count as u64
}
pub proof fn lemma_tracks_sum(ms: Seq<MaintenanceSlot>)
    requires ms.len() <= 0x1_0000_0000,
    ensures
        0 <= tracks_total(ms) <= u64::MAX,
        forall|s: Seq<u64>| is_tracks_of(ms, s) ==> #[trigger] <u64 as VSum<u64>>::sum_req(s),
        forall|s: Seq<u64>| is_tracks_of(ms, s) ==> (#[trigger] <u64 as VSum<u64>>::spec_sum(s)) as int == tracks_total(ms),
{
    let f = ms.map_values(|m: MaintenanceSlot| m.track_count as int);
    lemma_isum_bounds(f, 0, u32::MAX as int);
    assert(u32::MAX * f.len() <= u64::MAX) by (nonlinear_arith) requires f.len() <= 0x1_0000_0000;
    assert(0 * f.len() == 0) by (nonlinear_arith);
    assert forall|s: Seq<u64>| #[trigger] is_tracks_of(ms, s) implies <u64 as VSum<u64>>::sum_req(s) && (<u64 as VSum<u64>>::spec_sum(s)) as int == tracks_total(ms) by {
        assert(s.map_values(|x: u64| x as int) =~= f);
    }
}
//@frag model/src/network.rs Network::new : let overflow_capacity as frag_overflow_capacity
//@params number_of_service_nodes: usize, max_formation_count: VehicleCount, maintenance_slots: &Vec<MaintenanceSlot>
//@ret (r: VehicleCount)
//@viter
//@closure-params local#0
    &MaintenanceSlot
//@closure local#0
    -> (c: u64) ensures c == slot.track_count as u64
//@sig
    requires
        // ASSUMED (not established by Network::new): the counts fit (at most 2^16 trips and slots: Idx = u16)
        number_of_service_nodes <= u32::MAX, maintenance_slots@.len() <= 0x1_0000_0000,
    ensures
        // D13: trips * formation count PLUS the maintenance tracks, saturating
        r as int == sat_u32(sat_u32(number_of_service_nodes * max_formation_count) + sat_u32(tracks_total(maintenance_slots@))), // @obl C17.overflow_depot.capacity_counts_trips_and_maintenance_tracks
//@first
        proof { lemma_tracks_sum(maintenance_slots@); }
//@end

//@frag model/src/network.rs Network::new : let overflow_depot as frag_overflow_depot
//@params overflow_depot_id: DepotIdx, overflow_capacity: VehicleCount, vehicle_types: &VehicleTypes
//@ret (r: Depot)
//@closure-params local#0
    VehicleTypeIdx
//@closure local#0
    -> (p: (VehicleTypeIdx, Option<VehicleCount>)) ensures p.0 == vt, p.1 is None
//@sig
    requires vehicle_types.wf_ids(),
    ensures
        // the overflow depot is located Nowhere, has the computed total capacity and NO per-type limit for every type of
        // the instance: capacity_for(vt) == total capacity
        r.idx == overflow_depot_id, r.location == Location::Nowhere,
        r.total_capacity == overflow_capacity, // @obl C17.overflow_depot.total_capacity_is_the_computed_one
        overflow_allowed_items(vehicle_types, r.allowed_types), // @obl C17.overflow_depot.no_per_type_limit_for_any_type
//@end
/// the allowed-types table of the overflow depot was collected from one `(type, None)` item per vehicle type
pub open spec fn overflow_allowed_items(vts: &VehicleTypes, m: HashMap<VehicleTypeIdx, Option<VehicleCount>>) -> bool {
    &&& hm_source(m).len() == vts.ids_sorted@.len()
    &&& forall|i: int| 0 <= i < vts.ids_sorted@.len() ==> (#[trigger] hm_source(m)[i]).0 == vts.ids_sorted@[i] && hm_source(m)[i].1 is None
}
/// hence (A-lib: collect into a HashMap) every type of the instance is allowed and none has a per-type limit
pub proof fn lemma_overflow_no_type_limit(vts: &VehicleTypes, m: HashMap<VehicleTypeIdx, Option<VehicleCount>>, vt: VehicleTypeIdx)
    requires vts.wf_ids(), overflow_allowed_items(vts, m), vts.vehicle_types@.contains_key(vt),
    ensures m@.contains_key(vt) && m@[vt] is None, // @obl C17.overflow_depot.no_per_type_limit_for_any_type
{
    broadcast use axiom_hm_collect;
    assert(vts.ids_sorted@.contains(vt));
    let j = choose|j: int| 0 <= j < vts.ids_sorted@.len() && vts.ids_sorted@[j] == vt;
    assert(hm_source(m)[j].0 == vt);
    assert(m@.contains_key(hm_source(m)[j].0));
    let i = choose|i: int| 0 <= i < hm_source(m).len() && hm_source(m)[i] == (vt, m@[vt]);
    assert(hm_source(m)[i].1 is None);
}

/// vehicles needed by all service trips: need(k, i) for the i-th trip of type k
pub open spec fn need_of<T>(m: Map<VehicleTypeIdx, Vec<T>>, need: spec_fn(VehicleTypeIdx, int) -> int) -> spec_fn(VehicleTypeIdx) -> int {
    |k: VehicleTypeIdx| isum(Seq::new(m[k]@.len(), |i: int| need(k, i)))
}
pub open spec fn need_total<T>(m: Map<VehicleTypeIdx, Vec<T>>, need: spec_fn(VehicleTypeIdx, int) -> int) -> int {
    set_sum(m.dom(), need_of(m, need))
}
/// hypothesis of the property: a trip never needs more vehicles than its type's formation limit, if any
pub open spec fn need_within_limits(trips: Map<VehicleTypeIdx, Vec<ServiceTrip>>, vts: VehicleTypes, need: spec_fn(VehicleTypeIdx, int) -> int) -> bool {
    forall|k: VehicleTypeIdx, i: int| trips.dom().contains(k) && 0 <= i < trips[k]@.len() ==> {
        &&& vts.vehicle_types@.contains_key(k)
        &&& 0 <= #[trigger] need(k, i)
        &&& (vts.vehicle_types@[k].maximal_formation_count is Some ==> need(k, i) <= vts.vehicle_types@[k].maximal_formation_count.unwrap())
        // without a limit the flow stage asks for at most 100 coupled vehicles per trip (slice mcf_bounds)
        &&& (vts.vehicle_types@[k].maximal_formation_count is None ==> need(k, i) <= 100)
    }
}
/// what the three fragments of Network::new guarantee (their `ensures`, connected by the pinned plumbing)
pub open spec fn overflow_fragments(trips: Map<VehicleTypeIdx, Vec<ServiceTrip>>, vts: VehicleTypes, ms: Seq<MaintenanceSlot>, n: usize, m: VehicleCount, cap: VehicleCount) -> bool {
    &&& n as int == total_len(trips)          // frag_service_trip_counts + `.sum::<usize>()`
    &&& (forall|k: VehicleTypeIdx| vts.vehicle_types@.contains_key(k) ==> #[trigger] vts.fc_or_1(k) <= m)  // frag_max_formation_count
    &&& m >= 1
    &&& cap as int == sat_u32(sat_u32(n * m) + sat_u32(tracks_total(ms)))   // frag_overflow_capacity (saturating product plus the maintenance tracks)
}
/// C17 / C06: the overflow depot can host every vehicle the instance may need (up to the largest
/// representable vehicle count)
pub proof fn lemma_overflow_depot_can_host_every_vehicle(trips: Map<VehicleTypeIdx, Vec<ServiceTrip>>, vts: VehicleTypes, ms: Seq<MaintenanceSlot>,
        need: spec_fn(VehicleTypeIdx, int) -> int, n: usize, m: VehicleCount, cap: VehicleCount)
    requires
        overflow_fragments(trips, vts, ms, n, m, cap),
        need_within_limits(trips, vts, need),
    // every vehicle: those the trips may need and one per maintenance track (D13: the flow stage sends exactly
    // `count` vehicles through a slot, and none of them needs to serve a trip)
    ensures cap >= need_total(trips, need) + tracks_total(ms) || cap == u32::MAX, // @obl C17.overflow_depot.can_host_every_vehicle
{
    let g = need_of(trips, need);
    let f = len_of(trips);
    assert forall|k: VehicleTypeIdx| trips.dom().contains(k) implies #[trigger] g(k) <= (m as int) * f(k) by {
        let s = Seq::new(trips[k]@.len(), |i: int| need(k, i));
        if trips[k]@.len() > 0 {
            assert(need(k, 0) >= 0);
            assert(vts.vehicle_types@.contains_key(k));
            assert(vts.fc_or_1(k) <= m);
            assert forall|i: int| 0 <= i < s.len() implies 0 <= #[trigger] s[i] <= m as int by {
                assert(need(k, i) >= 0);
            }
            lemma_isum_bounds(s, 0, m as int);
        } else {
            assert(s =~= Seq::<int>::empty());
            assert((m as int) * 0 == 0) by (nonlinear_arith);
        }
    }
    lemma_set_sum_le_scaled(trips.dom(), g, f, m as int);
    assert((m as int) * (n as int) == (n as int) * (m as int)) by (nonlinear_arith);
    let tr = ms.map_values(|x: MaintenanceSlot| x.track_count as int);
    lemma_isum_bounds(tr, 0, u32::MAX as int);
    assert(0 * tr.len() == 0) by (nonlinear_arith);
    assert(0 <= need_total(trips, need)) by {
        assert forall|k: VehicleTypeIdx| trips.dom().contains(k) implies 0 <= #[trigger] g(k) by {
            let s = Seq::new(trips[k]@.len(), |i: int| need(k, i));
            assert forall|i: int| 0 <= i < s.len() implies 0 <= #[trigger] s[i] by { assert(need(k, i) >= 0); }
            lemma_isum_bounds(s, 0, 0x7fff_ffff_ffff_ffff);
            assert(0 * s.len() == 0) by (nonlinear_arith);
        }
        lemma_set_sum_nonneg(trips.dom(), g);
    }
}
/// the overflow depot's capacity for every listed type without per-type limit is its total capacity
pub proof fn lemma_no_type_limit_means_total(d: Depot, vt: VehicleTypeIdx)
    requires d.allowed_types@.contains_key(vt), d.allowed_types@[vt] is None,
    ensures sp_capacity_for(d, vt) == d.total_capacity,
{
}

// ================================================================ create_network / create_depots : default depots
//@skeleton model/src/json_serialisation/mod.rs fn create_network : let number_of_service_trips = d9445dd15e65f180

//@frag model/src/json_serialisation/mod.rs fn create_network : let number_of_service_trips as frag_number_of_service_trips
//@params service_trips: &StdMap<VehicleTypeIdx, Vec<ModelServiceTrip>>
//@ret (r: VehicleCount)
//@closure-params? map#0
    &Vec<ModelServiceTrip>
//@closure? map#0
    -> (c: VehicleCount) ensures c == trips@.len() as u32
//@sig
    requires
        // ASSUMED: the instance has at most u32::MAX service trips (node indices are u16 anyway)
        total_len(service_trips@) <= u32::MAX,
    ensures
        r as int == total_len(service_trips@), // @obl C17.default_depots.capacity_covers_all_trips
//@first
        broadcast use {lemma_sum_enum, lemma_enum_len_le_total};
//@end

//@skeleton model/src/json_serialisation/mod.rs fn create_depots : let allowed_vehicle_types; closure map#1; closure map#2 = fcc39b2e64e99b30

//@frag model/src/json_serialisation/mod.rs fn create_depots : let allowed_vehicle_types as frag_allowed_vehicle_types
//@params vehicle_type_lookup: &StdMap<IdType, VehicleTypeIdx>
//@ret (r: HashMap<VehicleTypeIdx, Option<VehicleCount>>)
//@closure-params map#0
    &VehicleTypeIdx
//@closure map#0
    -> (p: (VehicleTypeIdx, Option<VehicleCount>)) ensures p.0 == *vehicle_type_idx, p.1 is None
//@sig
    ensures
        // every vehicle type of the instance is allowed, none with a per-type limit
        forall|id: IdType| vehicle_type_lookup@.contains_key(id) ==> r@.contains_key(#[trigger] vehicle_type_lookup@[id]),
        forall|vt: VehicleTypeIdx| #[trigger] r@.contains_key(vt) ==> r@[vt] is None, // @obl C17.default_depots.capacity_covers_all_trips
//@first
        broadcast use {axiom_hm_collect, lemma_enum_hits, lemma_touch_same_index};
//@end

//@frag model/src/json_serialisation/mod.rs fn create_depots : closure map#1 as frag_default_depot
//@params loc: &Locations, idx: usize, location: Location, vehicle_upper_limit: VehicleCount, allowed_vehicle_types: &HashMap<VehicleTypeIdx, Option<VehicleCount>>
//@ret (r: ModelDepot)
//@sig
    requires location is Station ==> loc.stations@.contains_key(location->Station_0),
    ensures
        r.location == location,
        r.total_capacity == vehicle_upper_limit, // @obl C17.default_depots.capacity_covers_all_trips
        r.allowed_types@ == allowed_vehicle_types@, // @obl C17.default_depots.capacity_covers_all_trips
//@first
        broadcast use {axiom_from_id_u32, axiom_from_id_u32_obeys};
//@end

/// C17: without a `depots` entry every location gets a depot (A-lib: one call of the closure per location)
/// whose total capacity and whose capacity for every vehicle type of the instance is at least the
/// number of service trips of the instance
pub proof fn lemma_default_depot_covers_all_trips(
        service_trips: Map<VehicleTypeIdx, Vec<ServiceTrip>>, lookup: Map<IdType, VehicleTypeIdx>,
        n: VehicleCount, allowed: Map<VehicleTypeIdx, Option<VehicleCount>>, d: Depot, id: IdType)
    requires
        n as int == total_len(service_trips),                                    // frag_number_of_service_trips
        forall|id: IdType| lookup.contains_key(id) ==> allowed.contains_key(#[trigger] lookup[id]),    // frag_allowed_vehicle_types
        forall|vt: VehicleTypeIdx| #[trigger] allowed.contains_key(vt) ==> allowed[vt] is None,
        d.total_capacity == n, d.allowed_types@ == allowed,                       // frag_default_depot
        lookup.contains_key(id),
    ensures
        d.total_capacity >= total_len(service_trips), // @obl C17.default_depots.capacity_covers_all_trips
        sp_capacity_for(d, lookup[id]) >= total_len(service_trips), // @obl C17.default_depots.capacity_covers_all_trips
{
    assert(allowed.contains_key(lookup[id]));
}
// ================================================================ create_service_trips : one node per departure segment
// C17: "one service node per departure segment with the route's vehicle type, origin, destination, distance,
// departure, arrival = departure + duration, passengers (zero counted as one), seated passengers and formation
// limit".  The per-segment computations are lifted (R8) out of the loop of create_service_trips; the loop
// plumbing (look-ups by id in std HashMaps keyed by String, the `passengers == 0 -> 1` statement, the push into the
// per-type list) is pinned by the skeleton hash, not verified.
//@item model/src/json_serialisation/mod.rs struct RouteSegment : plain
//@end
//@item model/src/json_serialisation/mod.rs struct DepartureSegment : plain
//@end
//@item model/src/json_serialisation/mod.rs struct Route : plain
//@end
//@item model/src/json_serialisation/mod.rs struct Departures : plain
//@end
pub type Integer = u64;
pub type DateTimeString = String;
//@item model/src/base_types/distance.rs Distance::from_meter
//@retname r
//@sig
    ensures r == Distance::Distance(m),
//@end
//@item model/src/network/nodes.rs Node::create_service_trip
//@retname r
//@sig
    ensures r.id == id, r.vehicle_type == vehicle_type, r.origin == origin, r.destination == destination,
        r.departure == departure, r.arrival == arrival, r.distance == distance, r.passengers == passengers,
        r.seated == seated, r.maximal_formation_count == maximal_formation_count,
//@end
//@item model/src/network/nodes.rs Node::create_maintenance
//@retname r
//@sig
    ensures r.id == id, r.location == location, r.start == start, r.end == end, r.track_count == track_count,
//@end

//@skeleton model/src/json_serialisation/mod.rs fn create_service_trips : closure find#0; let vehicle_type; closure find#1; let id; let origin; let destination; let departure_time; let arrival_time; let distance; let seated; stmt "if passengers == 0"; let maximal_formation_count; let service_trip = b19af178e4145b5c

// the two look-ups by id (`.iter().find(<closure>).unwrap()`: A-lib, `find` returns the first element the closure accepts;
// the `unwrap` needs that one exists: "references resolve" of the input format)
//@frag model/src/json_serialisation/mod.rs fn create_service_trips : closure find#0 as frag_route_of_departure
//@params departure: &Departures, route: &&Route
//@ret (r: bool)
//@sig
    ensures r == (route.id@ == departure.route@), // @obl C17.loader.route_is_found_by_the_departures_route_id
//@end
//@frag model/src/json_serialisation/mod.rs fn create_service_trips : closure find#1 as frag_route_segment_of_departure_segment
//@params departure_segment: &DepartureSegment, segment: &&RouteSegment
//@ret (r: bool)
//@sig
    ensures r == (segment.id@ == departure_segment.route_segment@), // @obl C17.loader.route_segment_is_found_by_the_referenced_id
//@end

//@frag model/src/json_serialisation/mod.rs fn create_service_trips : let vehicle_type as frag_trip_vehicle_type
//@params vehicle_type_lookup: &StdMap<IdType, VehicleTypeIdx>, route: &Route
//@ret (r: VehicleTypeIdx)
//@sig
    requires vehicle_type_lookup@.contains_key(route.vehicle_type), // "references resolve"
    ensures r == vehicle_type_lookup@[route.vehicle_type], // @obl C17.loader.vehicle_type_is_the_routes_vehicle_type
//@end
//@frag model/src/json_serialisation/mod.rs fn create_service_trips : let id as frag_trip_id
//@params departure_segment: &DepartureSegment
//@ret (r: String)
//@sig
    ensures r@ == departure_segment.id@, // @obl C17.loader.node_id_is_the_departure_segments_id
//@end
//@frag model/src/json_serialisation/mod.rs fn create_service_trips : let origin as frag_trip_origin
//@params locations: &Locations, location_lookup: &StdMap<IdType, LocationIdx>, route_segment: &&RouteSegment
//@ret (r: Location)
//@sig
    requires
        // documented input format: "references resolve"
        location_lookup@.contains_key(route_segment.origin),
        locations.stations@.contains_key(location_lookup@[route_segment.origin]),
    ensures r == Location::Station(location_lookup@[route_segment.origin]), // @obl C17.loader.origin_is_the_route_segments_origin
//@end
//@frag model/src/json_serialisation/mod.rs fn create_service_trips : let destination as frag_trip_destination
//@params locations: &Locations, location_lookup: &StdMap<IdType, LocationIdx>, route_segment: &&RouteSegment
//@ret (r: Location)
//@sig
    requires
        location_lookup@.contains_key(route_segment.destination),
        locations.stations@.contains_key(location_lookup@[route_segment.destination]),
    ensures r == Location::Station(location_lookup@[route_segment.destination]), // @obl C17.loader.destination_is_the_route_segments_destination
//@end
//@frag model/src/json_serialisation/mod.rs fn create_service_trips : let departure_time as frag_trip_departure
//@params departure_segment: &DepartureSegment
//@ret (r: DateTime)
//@sig
    requires dt_text_ok(departure_segment.departure@),
    ensures r == dt_of_text(departure_segment.departure@), // @obl C17.loader.departure_is_the_departure_segments_time
//@end
//@frag model/src/json_serialisation/mod.rs fn create_service_trips : let arrival_time as frag_arrival_time
//@params departure_time: DateTime, route_segment: &&RouteSegment
//@ret (r: DateTime)
//@sig
    requires
        // the arrival must be representable (DateTime + Duration panics otherwise: A-time, slice `time`)
        vstd::std_specs::ops::AddSpec::add_req(departure_time, Duration::Length(DurationLength { seconds: route_segment.duration })),
    ensures
        r == dt_add(departure_time, Duration::Length(DurationLength { seconds: route_segment.duration })), // @obl C17.loader.arrival_is_departure_plus_duration
//@end
//@frag model/src/json_serialisation/mod.rs fn create_service_trips : let distance as frag_trip_distance
//@params route_segment: &&RouteSegment
//@ret (r: Distance)
//@sig
    ensures r == Distance::Distance(route_segment.distance), // @obl C17.loader.distance_of_the_route_segment
//@end
//@frag model/src/json_serialisation/mod.rs fn create_service_trips : let seated as frag_trip_seated
//@params departure_segment: &DepartureSegment
//@ret (r: PassengerCount)
//@sig
    ensures r == departure_segment.seated as u32,
        departure_segment.seated <= u32::MAX ==> r == departure_segment.seated, // @obl C17.loader.seated_of_the_departure_segment
//@end
//@frag model/src/json_serialisation/mod.rs fn create_service_trips : stmt "if passengers == 0" as frag_zero_passengers_rule
//@params passengers0: PassengerCount, warnings_printed0: bool
//@ret (r: (PassengerCount, bool))
//@tail (passengers, warnings_printed)
//@sig
    ensures
        // C17: "passengers (zero counted as one)": for EVERY segment, whether or not the warning was printed before
        r.0 == (if passengers0 == 0 { 1u32 } else { passengers0 }), // @obl C17.loader.zero_passengers_counted_as_one
//@first
        let mut passengers = passengers0;
        let mut warnings_printed = warnings_printed0;
//@end
//@frag model/src/json_serialisation/mod.rs fn create_service_trips : let maximal_formation_count as frag_trip_formation_limit
//@params route_segment: &&RouteSegment
//@ret (r: Option<VehicleCount>)
//@closure-params map#0
    Integer
//@closure map#0
    -> (c: VehicleCount) ensures c == x as u32
//@sig
    ensures
        route_segment.maximal_formation_count is None <==> r is None,
        route_segment.maximal_formation_count is Some ==> r == Some(route_segment.maximal_formation_count->Some_0 as u32), // @obl C17.loader.formation_limit_of_the_route_segment
//@end
//@frag model/src/json_serialisation/mod.rs fn create_service_trips : let service_trip as frag_service_trip
//@params id: String, vehicle_type: VehicleTypeIdx, origin: Location, destination: Location, departure_time: DateTime, arrival_time: DateTime, distance: Distance, passengers: PassengerCount, seated: PassengerCount, maximal_formation_count: Option<VehicleCount>
//@ret (r: ModelServiceTrip)
//@sig
    ensures
        r.id == id, r.vehicle_type == vehicle_type, r.origin == origin, r.destination == destination,
        r.departure == departure_time, r.arrival == arrival_time, r.distance == distance,
        r.passengers == passengers, r.seated == seated, r.maximal_formation_count == maximal_formation_count, // @obl C17.loader.node_carries_the_segments_own_data
//@end
// ================================================================ create_maintenance_slots : one node per slot
// C17: "one node per maintenance slot": the per-slot computation (closure of the `map`) is lifted (R8); that the
// closure runs once per slot of the input, in order, is `iter().map(..).collect()` (A-lib, skeleton-pinned).
//@item model/src/json_serialisation/mod.rs struct MaintenanceSlots : plain
//@end
//@item model/src/locations.rs Locations::get
//@retname r
//@sig
    ensures self.stations@.contains_key(location_idx) ==> r == Ok::<Location, &'static str>(Location::Station(location_idx)),
        !self.stations@.contains_key(location_idx) ==> r is Err,
//@end
/// A-text: rapid_time's `DateTime::new(&str)` (string parser, not under contract)
//@item @rapid_time/src/date_time.rs DateTime::new : trusted
//@retname r
//@sig
    requires dt_text_ok(string@),
    ensures r == dt_of_text(string@),
//@end

//@skeleton model/src/json_serialisation/mod.rs fn create_maintenance_slots : closure map#0 = b991fbd5b9d31d2d

//@frag model/src/json_serialisation/mod.rs fn create_maintenance_slots : closure map#0 as frag_maintenance_slot
//@params locations: &Locations, location_lookup: &StdMap<IdType, LocationIdx>, maintenance_slot: &MaintenanceSlots
//@ret (r: MaintenanceSlot)
//@sig
    requires
        // documented input format: "references resolve" and the times are well-formed date-time strings
        location_lookup@.contains_key(maintenance_slot.location),
        locations.stations@.contains_key(location_lookup@[maintenance_slot.location]),
        dt_text_ok(maintenance_slot.start@), dt_text_ok(maintenance_slot.end@),
    ensures
        r.id@ == maintenance_slot.id@,
        r.location == Location::Station(location_lookup@[maintenance_slot.location]),
        r.start == dt_of_text(maintenance_slot.start@), r.end == dt_of_text(maintenance_slot.end@),
        r.track_count == maintenance_slot.track_count as u32,
        maintenance_slot.track_count <= u32::MAX ==> r.track_count == maintenance_slot.track_count, // @obl C17.loader.maintenance_node_carries_the_slots_own_data
//@end
// ================================================================ create_depots : the given depots
// C17: "the given depots … with their total and per-type capacities": the per-depot computation (closure of the
// `map` in the `Some(depots)` branch) is lifted (R8).  The JSON structs live in `mod json` (their names clash with
// the model's).
pub mod json {
use super::*;
//@item model/src/json_serialisation/mod.rs struct TypeCapacities : plain
//@end
//@item model/src/json_serialisation/mod.rs struct Depot : plain
//@end
}
pub open spec fn cast_limit(c: Option<Integer>) -> Option<VehicleCount> {
    match c { Some(x) => Some(x as u32), None => None }
}
/// the per-type capacities of a given depot: one entry per listed type (a later entry for the same type
/// overrides an earlier one), the limit cast to u32, None = no per-type limit
pub open spec fn json_allowed(lookup: Map<IdType, VehicleTypeIdx>, ts: Seq<json::TypeCapacities>, k: int) -> Map<VehicleTypeIdx, Option<VehicleCount>>
    decreases k,
{
    if k <= 0 { Map::empty() }
    else { json_allowed(lookup, ts, k - 1).insert(lookup[ts[k - 1].vehicle_type], cast_limit(ts[k - 1].capacity)) }
}
//@frag model/src/json_serialisation/mod.rs fn create_depots : closure map#2 as frag_given_depot
//@params loc: &Locations, location_lookup: &StdMap<IdType, LocationIdx>, vehicle_type_lookup: &StdMap<IdType, VehicleTypeIdx>, idx: usize, depot: &json::Depot
//@ret (r: ModelDepot)
//@closure-params map#3
    Integer
//@closure map#3
    -> (c: VehicleCount) ensures c == x as u32
//@sig
    requires
        // documented input format: "references resolve"
        location_lookup@.contains_key(depot.location),
        loc.stations@.contains_key(location_lookup@[depot.location]),
        forall|i: int| 0 <= i < depot.allowed_types@.len() ==> vehicle_type_lookup@.contains_key(#[trigger] depot.allowed_types@[i].vehicle_type),
    ensures
        r.idx == DepotIdx(idx as u16),
        r.id@ == depot.id@,
        r.location == Location::Station(location_lookup@[depot.location]),
        r.total_capacity == depot.capacity as u32,
        depot.capacity <= u32::MAX ==> r.total_capacity == depot.capacity, // @obl C17.loader.given_depot_total_capacity
        r.allowed_types@ == json_allowed(vehicle_type_lookup@, depot.allowed_types@, depot.allowed_types@.len() as int), // @obl C17.loader.given_depot_per_type_capacities
//@loop "for allowed_type in"
            invariant
                it.index@ <= depot.allowed_types@.len(),
                allowed_types@ == json_allowed(vehicle_type_lookup@, depot.allowed_types@, it.index@ as int), // @obl C17.loader.given_depot_per_type_capacities
                forall|i: int| 0 <= i < depot.allowed_types@.len() ==> vehicle_type_lookup@.contains_key(#[trigger] depot.allowed_types@[i].vehicle_type),
//@first
        broadcast use {axiom_from_id_u32, axiom_from_id_u32_obeys};
//@end
} // verus!
fn main() {}
