// slice `new_fast`: Transition::new_fast = Transition::one_cluster_per_maintenance and its helper
// Transition::push_vehicle_to_end_of_cluster (solution/src/transition.rs) -- how the rotation cycles of one vehicle type are
// rebuilt from scratch (called by Schedule::recompute_transitions_and_violation_fast and, with no vehicles, by Schedule::empty).
//
//   C15 / C10  "every real vehicle belongs to exactly one rotation cycle of its type": every given vehicle is a key of
//        `cycle_lookup`, is in the cycle the lookup names and in no other cycle; no other vehicle is a key or in a cycle; no cycle
//        is empty and `empty_cycles` is empty.
//   C15 / C09  "cached aggregates equal recomputation": the result satisfies the representation invariant
//        `Transition::wf(network, tours)` of slices/transition.vs (env/transition_spec.vs, written from the property text): cycles
//        duplicate-free and pairwise disjoint, `cycle_lookup` matches the cycles, every cycle counter ==
//        `spec_cycle_counter(network, tours, cycle)` (sum of the members' tour counters + the dead-head distances between
//        consecutive members + the closing edge from the last end depot to the first start depot), `total_maintenance_counter` /
//        `total_maintenance_violation` == the sums of the counters / of their positive parts.
//   WHICH cluster a vehicle joins (the greedy choice, the order the three sorts establish) is NOT part of the contract.
//
// What is verified how
//   (1) push_vehicle_to_end_of_cluster: the verbatim body against "the cluster gains the vehicle at its end and the running counter
//       stays `open_counter` (the cycle counter WITHOUT the closing edge)".
//   (2) one_cluster_per_maintenance cannot be verified in place: the keys of its sorts are closures with the parameter pattern
//       `|&(_, maintenance_counter)|` (Verus: no reference patterns, neither as closure parameter nor in the `let` R6 would emit) and the
//       closing closure is FnMut (captures `&mut total_maintenance_*`; Verus: no closures capturing mutable references).  So (R8)
//       seven pieces are lifted VERBATIM into functions of their own and verified against contracts, the rest of the function is
//       pinned by its token hash (skeleton d2e3485b9b6e3136; the pinned text is printed into the build output):
//         frag_split_vehicles  = the whole `for vehicle_id in vehicles.iter() { … }` (loop 1, with a loop invariant),
//         frag_key_unassigned / frag_key_cluster = the bodies of the keys of the first two sorts (they do not panic),
//         frag_find_cluster    = `sorted_clusters.iter_mut().find(|(_, maintenance_counter)| …)` (initialiser of `best_cluster_opt`),
//         frag_join_cluster    = the whole `match best_cluster_opt { … }` of loop 2 (incl. `last_mut()` and both calls of (1)),
//         frag_close_cluster   = the body of the closure of `.into_iter().map(|(vehicles, mut maintenance_counter)| …)`,
//         frag_cycle_lookup    = `cycles.iter().enumerate().flat_map(..).collect()` (initialiser of `cycle_lookup`).
//       lemma_one_cluster_per_maintenance (proved) derives `wf` + membership from [V] the contracts of these pieces and [P] facts read
//       off the pinned plumbing; every hypothesis of the lemma is marked [V] or [P] in its text.  lemma_lp2_pre / lemma_close_pre /
//       lemma_cluster_facts (proved) show that the preconditions of the pieces hold where the plumbing calls them.
//       new_fast itself is the one call `Transition::one_cluster_per_maintenance(vehicles, tours, network)` (skeleton 5f12dd2b9f4c5810).
//   CONTRACT this justifies for stubs of Transition::new_fast elsewhere (slices/depot_ops.vs has an uninterpreted one):
//       requires given_ok(network, tours@, vehicles@)
//       ensures  r.wf(network, tours@), forall v: r.has_vehicle(v) <==> vehicles@.contains(v), r.total_len() == vehicles@.len(),
//                r.empty_cycles@.len() == 0, 0 <= r.total_maintenance_violation <= vehicles@.len() * 2^41 (TView::lemma_bounds)
//
// ASSUMPTIONS introduced / used by this slice
//   A-iter (NEW, env/new_fast_shim.vs)
//            `vec.iter_mut().find(p)`: inside module `tr` the call `.iter_mut()` on a Vec resolves to the shim trait VIterMut (a trait
//                 method with receiver `&mut Vec<T>` is found before the slice's inherent method) and `.find` to VecIterMut::find:
//                 one reference INTO the vector per element; the result is one of them (or None); every other reference is dropped
//                 unmodified, so that when the borrow ends the vector is the old one with (at most) that element replaced by the
//                 final value of the returned reference.  (vstd specifies `<[T]>::iter_mut` / `Iterator::find` natively, but its
//                 `find` does not say that the skipped items keep their values.)  Which element is returned is NOT specified.
//            SeqIter::flat_map (the closure is applied to every item in order, the results are concatenated); SeqIter::enumerate (text of
//                 env/fit_reassign_shim.vs); VCycleIter::viter = TransitionCycle::iter (`self.cycle.iter().copied()`: the vehicles of the
//                 cycle in order -- the contract of the stub in slices/transition.vs; R5 rewrites `cycle.iter()` inside the fragment);
//            env/seqiter.vs: Viter::viter for Vec, SeqIter::map, SeqIter::collect.
//   A-im     env/im_shim.vs (`get`); `collect()` into an im::HashMap (text of env/sched_ctor_shim.vs: the keys are exactly the first
//            components, every key maps to the second component of SOME pair with that key).
//   A-std    (pinned plumbing, hypotheses [P] of lemma_one_cluster_per_maintenance, not verified)
//            `<[T]>::sort_by_key` only rearranges (`permutes`: the new slice is the old one under a bijection of the positions);
//            `Vec::new()` is empty; `for vehicle in sorted_unassigned_vehicles` visits the elements in order;
//            `sorted_clusters.into_iter().map(closure).collect::<Vec<_>>()` calls the FnMut closure once per cluster, in order, every
//            call seeing the captured totals as the previous call left them, and collects the results in order; the struct literal.
//            vstd's own specifications: `<[T]>::last_mut`, `<[T]>::last`, `<[T]>::first`, `Vec::push`, `vec![x]`, `for x in slice.iter()`,
//            `Ord::max` on i64; env/std_specs.vs `Result::unwrap_or`.
//   A-stub / R7a (contract text of slices/transition.vs): Tour::maintenance_counter (= the uninterpreted `tour_counter`),
//            Tour::start_depot / Tour::end_depot (first / last node of a real tour); env/time_ops.vs, env/model_fns.vs included
//            trusted (Network::dead_head_distance_between); Distance::in_meter and TransitionCycle::new are verified here again.
//   A-derive derived Clone of TransitionCycle is structural (not used by the code of this slice).
//   Ghost out-parameter: frag_close_cluster reports the values of the two captured totals after the body through `totals:
//            &mut Ghost<(int, int)>`, written by ghost text in front of the tail expression.
//
// PRECONDITIONS (given_ok, from the code)
//   * every given vehicle has a tour in `tours` (`tours.get(..).unwrap()` in loop 1, in the first sort key, in loop 2, in
//     push_vehicle_to_end_of_cluster and in the closing closure; "It is assumed that each vehicle has a tour");
//   * these tours are `tour_ok`: real (non-dummy: `start_depot().unwrap()` / `end_depot().unwrap()`), well-formed tours of `network`
//     whose counters are within +-2^40; Network::wf (dead-head distances at most 2^40);
//   * at most 2^17 vehicles: all i64 sums stay within +-2^58 (`-tour.maintenance_counter()`, `-maintenance_counter`,
//     `*maintenance_counter + maintenance_counter_of_tour`, `+=` in push_vehicle_to_end_of_cluster and in the closing closure);
//   * the vehicle list has NO DUPLICATES.  The code relies on it in loop 1: a vehicle listed twice is pushed twice (two one-vehicle
//     clusters, or twice into `sorted_unassigned_vehicles` and from there into one or two clusters), so it ends up in two cycles (or
//     twice in one) and `cycle_lookup` keeps the last one -- confirmed by a cargo test on HEAD (new_fast(&[v0, v1, v0], ..): v0 occurs
//     twice).  The only caller with vehicles (recompute_transitions_and_violation_fast) passes the id list of one vehicle type, which is
//     duplicate-free by C10 (listing_sorted).
//
// NOT covered
//   * the greedy choice (which cluster a vehicle joins; "biggest maintenance counter that can accommodate the vehicle"), what the sorts
//     establish, any optimality of the violation;  "It is assumed that all vehicles are of the same type" is not needed;
//   * the pinned plumbing itself is not verified (only hashed): the [P] hypotheses are read off its text by hand;
//   * push_vehicle_to_end_of_cluster is private and only called with non-empty clusters (`cluster.last().unwrap()`): precondition.
#![feature(allocator_api)]
use vstd::prelude::*;
use std::ops::Add;
use std::ops::Sub;
use std::collections::{BTreeMap, HashMap};
use std::sync::Arc;
//@include env/display_time.rs
//@include env/display_model.rs
verus! {
//@include env/std_specs.vs
//@include env/seqiter.vs
//@include env/time_types.vs
//@include-trusted env/time_ops.vs
//@include env/model_types.vs
//@include env/broadcast.vs
//@include env/model_network_types.vs
//@include env/model_spec.vs
//@include-trusted env/model_fns.vs
//@include env/solution_types.vs
//@include env/tour_spec.vs

//@item model/src/base_types/distance.rs Distance::in_meter
//@retname r
//@sig
    ensures
        self is Distance ==> r == Ok::<Meter, &str>(self->Distance_0),
        self is Infinity ==> r is Err,
//@end

pub mod tr {
use super::*;
use vstd::prelude::*;
use vstd::std_specs::iter::IteratorSpec;
use self::im::HashMap;
//@include env/im_shim.vs

//@item solution/src/transition.rs type CycleIdx : plain
//@end
//@item solution/src/transition/transition_cycle.rs struct TransitionCycle : plain
//@drop-derive Clone
//@end
impl Clone for TransitionCycle {
    #[verifier::external_body]
    fn clone(&self) -> (r: Self)
        ensures r == *self
    { unimplemented!() }
}
//@item solution/src/transition.rs struct Transition : plain
//@end
//@include env/transition_spec.vs
//@include env/new_fast_shim.vs

// ---- Tour: trusted stubs (contract text of slices/transition.vs) ---------------------------------------
//@item solution/src/tour.rs Tour::maintenance_counter : trusted
//@retname r
//@sig
    requires -counter_bound() <= tour_counter(self) <= counter_bound(),
    ensures r == tour_counter(self),
//@end
//@item solution/src/tour.rs Tour::start_depot : trusted
//@retname r
//@sig
    requires self.wf(),
    ensures !self.is_dummy ==> r == Ok::<NodeIdx, String>(sp_start_depot(self)),
//@end
//@item solution/src/tour.rs Tour::end_depot : trusted
//@retname r
//@sig
    requires self.wf(),
    ensures !self.is_dummy ==> r == Ok::<NodeIdx, String>(sp_end_depot(self)),
//@end

// ---- TransitionCycle ---------------------------------------------------------------------------------
//@item solution/src/transition/transition_cycle.rs TransitionCycle::new
//@retname r
//@sig
    ensures r.cycle == cycle, r.maintenance_counter == maintenance_counter,
//@end

// ---- step 1: Transition::push_vehicle_to_end_of_cluster ---------------------------------------------------
//@item solution/src/transition.rs Transition::push_vehicle_to_end_of_cluster
//@sig
    requires
        old(cluster)@.len() >= 1,
        old(cluster)@.len() < max_vehicles(),
        cycle_tours_ok(network, tours@, old(cluster)@),
        tours@.contains_key(vehicle),
        tour_ok(network, &tours@[vehicle]),
        *old(maintenance_counter) == open_counter(network, tours@, old(cluster)@),
    ensures
        final(cluster)@ == old(cluster)@.push(vehicle),
        *final(maintenance_counter) == *old(maintenance_counter) + tour_counter(&tours@[vehicle])
            + depot_edge(network, tours@, old(cluster)@[old(cluster)@.len() - 1], vehicle), // @obl C15.push_vehicle_to_end_of_cluster.open_counter_exact
        *final(maintenance_counter) == open_counter(network, tours@, final(cluster)@), // @obl C15.push_vehicle_to_end_of_cluster.open_counter_exact
//@first
        proof {
            let c = old(cluster)@;
            let l = c[c.len() - 1];
            assert(tours@.contains_key(l) && tour_ok(network, &tours@[l]));
            lemma_tour_ok_depots(network, &tours@[l]);
            lemma_tour_ok_depots(network, &tours@[vehicle]);
            lemma_edge_bound(network, tours@, l, vehicle);
            lemma_open_small(network, tours@, c);
            lemma_open_push(network, tours@, c, vehicle);
        }
//@end

// ---- step 2: the closing step (closure `map#0` of one_cluster_per_maintenance), lifted verbatim (R8) -----------------
// The closure captures `total_maintenance_violation` / `total_maintenance_counter` by `&mut` (FnMut), which Verus does not
// support in place.  The lifted fn receives their values before the call (tv0, tc0) and declares them as locals
// (//@first); their values after the body are copied into the GHOST out-parameter `totals` (ghost text in front of the
// tail expression, //@before).
//@frag solution/src/transition.rs Transition::one_cluster_per_maintenance : closure map#0 as frag_close_cluster
//@params vehicles: Vec<VehicleIdx>, mc0: MaintenanceCounter, tv0: MaintenanceCounter, tc0: MaintenanceCounter, tours: &HashMap<VehicleIdx, Tour>, network: &Network, totals: &mut Ghost<(int, int)>
//@ret (r: TransitionCycle)
//@sig
    requires close_pre(network, tours@, vehicles@, mc0 as int, tv0 as int, tc0 as int),
    ensures
        r.cycle@ == vehicles@, // @obl C15.new_fast.cycle_counters_and_totals_exact
        r.maintenance_counter == mc0 + depot_edge(network, tours@, vehicles@[vehicles@.len() - 1], vehicles@[0]), // @obl C15.new_fast.cycle_counters_and_totals_exact
        r.maintenance_counter == spec_cycle_counter(network, tours@, vehicles@), // @obl C15.new_fast.cycle_counters_and_totals_exact
        final(totals)@.0 == tv0 + max0(r.maintenance_counter as int), // @obl C15.new_fast.cycle_counters_and_totals_exact
        final(totals)@.1 == tc0 + r.maintenance_counter, // @obl C15.new_fast.cycle_counters_and_totals_exact
        close_post(network, tours@, vehicles@, mc0 as int, tv0 as int, tc0 as int, r, final(totals)@.0, final(totals)@.1),
//@first
        let mut maintenance_counter = mc0;
        let mut total_maintenance_violation = tv0;
        let mut total_maintenance_counter = tc0;
        proof {
            let c = vehicles@;
            let l = c[c.len() - 1];
            let f = c[0];
            assert(tours@.contains_key(l) && tour_ok(network, &tours@[l]));
            assert(tours@.contains_key(f) && tour_ok(network, &tours@[f]));
            lemma_tour_ok_depots(network, &tours@[l]);
            lemma_tour_ok_depots(network, &tours@[f]);
            lemma_edge_bound(network, tours@, l, f);
            lemma_open_small(network, tours@, c);
            lemma_open_close(network, tours@, c);
        }
//@before "TransitionCycle::new(vehicles"
        proof { *totals.borrow_mut() = (total_maintenance_violation as int, total_maintenance_counter as int); }
//@end

// ---- step 3a: loop 1 (the whole `for` statement, lifted verbatim) ------------------------------------------------------
// `sorted_clusters` / `sorted_unassigned_vehicles` are locals of the host function: the lifted fn receives their values before
// the loop (sc0, su0: both `Vec::new()` in the pinned plumbing) and hands the values after the loop back (//@tail).
//@frag solution/src/transition.rs Transition::one_cluster_per_maintenance : stmt "for vehicle_id in vehicles.iter()" as frag_split_vehicles
//@params vehicles: &[VehicleIdx], tours: &HashMap<VehicleIdx, Tour>, network: &Network, sc0: Vec<Cluster>, su0: Vec<VehicleIdx>
//@ret (r: (Vec<Cluster>, Vec<VehicleIdx>))
//@tail (sorted_clusters, sorted_unassigned_vehicles)
//@sig
    requires given_ok(network, tours@, vehicles@), sc0@.len() == 0, su0@.len() == 0,
    ensures
        lp2_inv(network, tours@, vehicles@, r.1@, 0, r.0@), // @obl C15.new_fast.every_given_vehicle_in_exactly_one_cycle
//@first
        let mut sorted_clusters = sc0;
        let mut sorted_unassigned_vehicles = su0;
        let ghost vs = vehicles@;
        proof { lemma_split_init(network, tours@, vs, sorted_clusters@, sorted_unassigned_vehicles@); }
//@loop "for vehicle_id in vehicles.iter()"
            invariant
                vs == vehicles@, given_ok(network, tours@, vs),
                it.snapshot@.remaining().len() == vs.len(),
                forall|j: int| 0 <= j < vs.len() ==> *(#[trigger] it.snapshot@.remaining()[j]) == vs[j],
                0 <= it.index@ <= vs.len(),
                split_inv(network, tours@, vs, it.index@ as int, sorted_clusters@, sorted_unassigned_vehicles@), // @obl C15.new_fast.every_given_vehicle_in_exactly_one_cycle
//@after "for vehicle_id in vehicles.iter()"
        proof { lemma_split_done(network, tours@, vs, sorted_clusters@, sorted_unassigned_vehicles@); }
//@before "let tour ="
            let ghost k = it.index@ as int;
            let ghost sc_a = sorted_clusters@;
            let ghost su_a = sorted_unassigned_vehicles@;
            proof {
                assert(*vehicle_id == vs[k]);
                assert(tours@.contains_key(vs[k]) && tour_ok(network, &tours@[vs[k]]));
            }
//@after "if tour.maintenance_counter() < 0"
            proof {
                if tour_counter(&tours@[vs[k]]) < 0 {
                    let c = sorted_clusters@[sc_a.len() as int];
                    assert(sorted_clusters@ =~= sc_a.push(c));
                    assert(c.0@ =~= seq![vs[k]]);
                    lemma_split_cluster(network, tours@, vs, k, sc_a, su_a, c); // @obl C15.new_fast.cycle_counters_and_totals_exact
                } else {
                    lemma_split_unassigned(network, tours@, vs, k, sc_a, su_a); // @obl C15.new_fast.every_given_vehicle_in_exactly_one_cycle
                }
            }
//@end

// ---- the keys of the first two sorts (closure bodies, lifted verbatim): they do not panic ----------------------------
//@frag solution/src/transition.rs Transition::one_cluster_per_maintenance : closure sort_by_key#0 as frag_key_unassigned
//@params vehicle: VehicleIdx, tours: &HashMap<VehicleIdx, Tour>
//@ret (r: MaintenanceCounter)
//@sig
    requires tours@.contains_key(vehicle), -counter_bound() <= tour_counter(&tours@[vehicle]) <= counter_bound(),
    ensures r == -tour_counter(&tours@[vehicle]),
//@end
//@frag solution/src/transition.rs Transition::one_cluster_per_maintenance : closure sort_by_key#1 as frag_key_cluster
//@params maintenance_counter: MaintenanceCounter
//@ret (r: MaintenanceCounter)
//@sig
    requires -0x400_0000_0000_0000 <= maintenance_counter <= 0x400_0000_0000_0000,
    ensures r == -maintenance_counter,
//@end

// ---- step 3b: loop 2, `let best_cluster_opt = sorted_clusters.iter_mut().find(..)` (initialiser lifted verbatim) -------
//@frag solution/src/transition.rs Transition::one_cluster_per_maintenance : let best_cluster_opt as frag_find_cluster
//@params sorted_clusters: &mut Vec<Cluster>, maintenance_counter_of_tour: MaintenanceCounter
//@ret (r: Option<&mut Cluster>)
//@closure-params find#0
    &&mut Cluster
//@closure find#0
    -> (b: bool) requires -0x400_0000_0000_0000 <= p0.1 <= 0x400_0000_0000_0000
//@sig
    requires
        forall|i: int| 0 <= i < old(sorted_clusters)@.len() ==> -0x400_0000_0000_0000 <= (#[trigger] old(sorted_clusters)@[i]).1 <= 0x400_0000_0000_0000,
        -counter_bound() <= maintenance_counter_of_tour <= counter_bound(),
    ensures
        // a reference INTO the vector (or None and the vector is untouched); WHICH cluster is not part of the contract
        find_post(old(sorted_clusters)@, match r { Some(y) => Some((*y, *final(y))), None => None }, final(sorted_clusters)@), // @obl C15.new_fast.every_given_vehicle_in_exactly_one_cycle
//@end

// ---- step 3c: loop 2, `match best_cluster_opt { … }` (statement lifted verbatim) ----------------------------------------
// In the host function `best_cluster_opt` borrows from `sorted_clusters`; the lifted fn takes both as independent
// parameters (the Some arm does not touch `sorted_clusters`, the None arm does not use the reference): lemma_step_compose
// puts the two contracts together again.
//@frag solution/src/transition.rs Transition::one_cluster_per_maintenance : stmt "match best_cluster_opt" as frag_join_cluster
//@params best_cluster_opt: Option<&mut Cluster>, sorted_clusters: &mut Vec<Cluster>, vehicle: VehicleIdx, maintenance_counter_of_tour: MaintenanceCounter, tours: &HashMap<VehicleIdx, Tour>, network: &Network
//@ret ()
//@sig
    requires
        match_pre(network, tours@, match best_cluster_opt { Some(y) => Some(*y), None => None }, old(sorted_clusters)@, vehicle, maintenance_counter_of_tour as int),
    ensures
        match_post(network, tours@, match best_cluster_opt { Some(y) => Some((*y, *final(y))), None => None }, old(sorted_clusters)@, final(sorted_clusters)@, vehicle), // @obl C15.new_fast.every_given_vehicle_in_exactly_one_cycle
//@first
        let ghost sc_a = old(sorted_clusters)@;
//@before "Transition::push_vehicle_to_end_of_cluster( last_cluster"
                            let ghost lc = *last_cluster;
                            let ghost lm = *maintenance_counter;
                            proof {
                                assert(member_ok(network, tours@, sc_a[sc_a.len() - 1]));
                            }
//@after "sorted_clusters.push((vec![vehicle]"
                            proof {
                                let c = sorted_clusters@[0];
                                assert(c.0@ =~= seq![vehicle]);
                                lemma_open_single(network, tours@, vehicle);
                            }
//@after "match last_cluster_opt"
                    proof {
                        if sc_a.len() > 0 {
                            assert(gains(network, tours@, sc_a, sorted_clusters@, sc_a.len() - 1, vehicle)); // @obl C15.new_fast.every_given_vehicle_in_exactly_one_cycle
                        }
                    }
//@end

// ---- step 3d: `let cycle_lookup = cycles.iter().enumerate().flat_map(..).collect()` (initialiser lifted verbatim) -----
//@frag solution/src/transition.rs Transition::one_cluster_per_maintenance : let cycle_lookup as frag_cycle_lookup
//@params cycles: &Vec<TransitionCycle>
//@ret (r: HashMap<VehicleIdx, CycleIdx>)
//@viter
//@closure-params flat_map#0
    (usize, &TransitionCycle)
//@closure flat_map#0
    -> (s: SeqIter<(VehicleIdx, CycleIdx)>) ensures pairs_of_cycle(*p0.1, p0.0 as int, s@) /* @obl C15.new_fast.lookup_matches_cycles */
//@closure-params map#1
    VehicleIdx
//@closure map#1
    -> (q: (VehicleIdx, CycleIdx)) ensures q == (vehicle, idx) /* @obl C15.new_fast.lookup_matches_cycles */
//@sig
    ensures
        // the pairs the map is collected from: "maps every member of cycle i to i" (lemma_lookup_of_src)
        lookup_src(cycles@, imhm_source(r)), // @obl C15.new_fast.lookup_matches_cycles
//@end

// ---- the rest of one_cluster_per_maintenance is pinned (token hash with the lifted pieces removed) ------------------------
//@skeleton solution/src/transition.rs Transition::one_cluster_per_maintenance : stmt "for vehicle_id in vehicles.iter()"; closure sort_by_key#0; closure sort_by_key#1; let best_cluster_opt; stmt "match best_cluster_opt"; closure map#0; let cycle_lookup = cdadf89b5bf99fac
//@skeleton solution/src/transition.rs Transition::new_fast : ; = 5f12dd2b9f4c5810

// ---- the whole function: what the verified pieces and the pinned plumbing give together -----------------------------------
/// loop 2, iterations 0 .. k: the invariant holds at the head of iteration k (`heads[k]` = `sorted_clusters` there, `mids[j]` =
/// `sorted_clusters` after the match of iteration j and before the sort)
pub proof fn lemma_lp2_run(net: &Network, tours: Map<VehicleIdx, Tour>, vs: Seq<VehicleIdx>, su: Seq<VehicleIdx>,
        heads: Seq<Seq<Cluster>>, mids: Seq<Seq<Cluster>>, k: int)
    requires
        lp2_inv(net, tours, vs, su, 0, heads[0]),
        heads.len() == su.len() + 1, mids.len() == su.len(), 0 <= k <= su.len(),
        forall|j: int| 0 <= j < su.len() ==> step_post(net, tours, #[trigger] heads[j], mids[j], su[j]) && permutes(mids[j], heads[j + 1]),
    ensures lp2_inv(net, tours, vs, su, k, heads[k]),
    decreases k,
{
    if k > 0 {
        lemma_lp2_run(net, tours, vs, su, heads, mids, k - 1);
        assert(step_post(net, tours, heads[k - 1], mids[k - 1], su[k - 1]) && permutes(mids[k - 1], heads[k - 1 + 1]));
        lemma_lp2_step(net, tours, vs, su, k - 1, heads[k - 1], mids[k - 1]);
        lemma_lp2_perm_sc(net, tours, vs, su, k, mids[k - 1], heads[k]);
    }
}
/// C15 / C10 / C09 for Transition::new_fast = Transition::one_cluster_per_maintenance, derived from
///   [V] facts Verus proves about the lifted pieces (their contracts above), and
///   [P] facts read off the pinned plumbing (skeleton d2e3485b9b6e3136, printed in the build output) under the documented
///       semantics of the std functions it calls (A-std / A-iter, see the header).
/// Ghost names: sc1 / su1 = `sorted_clusters` / `sorted_unassigned_vehicles` after loop 1; su2 / sc2 = after the two sorts;
/// heads[k] = `sorted_clusters` at the head of iteration k of loop 2 (heads[n]: after the loop, n = su2.len()); mids[k] =
/// `sorted_clusters` after the `match` of iteration k; cycles = the collected cycles; tvs[i] / tcs[i] = the two totals before
/// the i-th call of the closing closure; t = the fields of the returned `Transition`.
pub proof fn lemma_one_cluster_per_maintenance(net: &Network, tours: Map<VehicleIdx, Tour>, vs: Seq<VehicleIdx>,
        sc1: Seq<Cluster>, su1: Seq<VehicleIdx>, su2: Seq<VehicleIdx>, sc2: Seq<Cluster>,
        heads: Seq<Seq<Cluster>>, mids: Seq<Seq<Cluster>>,
        cycles: Seq<TransitionCycle>, tvs: Seq<int>, tcs: Seq<int>, lookup: self::im::HashMap<VehicleIdx, CycleIdx>, t: TView)
    requires
        // PRECONDITION of new_fast: every given vehicle has an admissible tour, no duplicates, at most 2^17 vehicles
        given_ok(net, tours, vs),
        // [V] frag_split_vehicles (loop 1), [P] called with `vehicles` and the two `Vec::new()`
        lp2_inv(net, tours, vs, su1, 0, sc1),
        // [P] A-std: the two `sort_by_key` calls rearrange ([V] their keys do not panic: frag_key_unassigned, frag_key_cluster
        //     under lemma_lp2_pre / lemma_cluster_facts)
        permutes(su1, su2), permutes(sc1, sc2),
        // [P] `for vehicle in sorted_unassigned_vehicles`: iteration k handles su2[k]
        heads.len() == su2.len() + 1, mids.len() == su2.len(), heads[0] == sc2,
        // [V] frag_find_cluster + frag_join_cluster (put together by lemma_step_compose; their preconditions: lemma_lp2_pre),
        // [P] A-std: the sort at the end of the loop body rearranges
        forall|k: int| 0 <= k < su2.len() ==> step_post(net, tours, #[trigger] heads[k], mids[k], su2[k]) && permutes(mids[k], heads[k + 1]),
        // [V] frag_close_cluster for every cluster (its precondition: lemma_close_pre), [P] A-iter: `into_iter().map(..).collect()`
        //     calls the closure once per cluster, in order, starting from totals 0, and collects what it returns
        closes_upto(net, tours, heads[su2.len() as int], cycles, tvs, tcs, heads[su2.len() as int].len() as int),
        // [V] frag_cycle_lookup, [P] called with `cycles`
        lookup_src(cycles, imhm_source(lookup)),
        // [P] the struct literal
        t.cycles == cycles, t.total_violation == tvs[cycles.len() as int], t.total_counter == tcs[cycles.len() as int],
        t.lookup == lookup@, t.empty.len() == 0,
    ensures
        // C15 "cached aggregates equal recomputation" / representation invariant of slices/transition.vs
        t.wf(net, tours), // @obl C15.new_fast.cycle_counters_and_totals_exact
        // C15 / C10 "every real vehicle belongs to exactly one rotation cycle of its type"
        forall|v: VehicleIdx| vs.contains(v) ==> #[trigger] t.has_vehicle(v) && 0 <= t.cycle_of(v) < t.n() && t.cyc(t.cycle_of(v)).contains(v)
            && forall|i: int| 0 <= i < t.n() && i != t.cycle_of(v) ==> !(#[trigger] t.cyc(i)).contains(v), // @obl C15.new_fast.every_given_vehicle_in_exactly_one_cycle
        forall|v: VehicleIdx| #[trigger] t.has_vehicle(v) ==> vs.contains(v), // @obl C15.new_fast.every_given_vehicle_in_exactly_one_cycle
        forall|i: int, a: int| 0 <= i < t.n() && 0 <= a < t.cyc(i).len() ==> vs.contains(#[trigger] t.cyc(i)[a]), // @obl C15.new_fast.every_given_vehicle_in_exactly_one_cycle
        t.total_len() == vs.len(),
        // `cycle_lookup` matches the cycles (part of wf), no cycle is empty and `empty_cycles` is empty
        t.wf_lookup(), // @obl C15.new_fast.lookup_matches_cycles
        t.empty.len() == 0 && forall|i: int| 0 <= i < t.n() ==> (#[trigger] t.cyc(i)).len() >= 1,
{
    let n = su2.len() as int;
    lemma_lp2_perm_su(net, tours, vs, su1, su2, sc1);
    lemma_lp2_perm_sc(net, tours, vs, su2, 0, sc1, sc2);
    lemma_lp2_run(net, tours, vs, su2, heads, mids, n);
    lemma_lp2_done(net, tours, vs, su2, heads[n]);
    lemma_lookup_of_src(cycles, lookup);
    lemma_built_wf(net, tours, vs, heads[n], cycles, tvs, tcs, t);
}

} // mod tr
} // verus!
fn main() {}
