// slice `objective`: the four objective indicators of solver/src/objective.rs and the hierarchy built from
// them (C04: "the four reported objective components equal an independent evaluation of the returned
// schedule": here the step "each reported component IS the schedule's aggregate of that name, in the order
// unserved passengers, maintenance violation, vehicle count, costs"; that the aggregates equal their
// recomputation is C09).
// Verified verbatim: the four `Indicator::evaluate` impls (as trait impls: `//@keep-trait`), `objective::build`,
// ScheduleWithInfo::get_schedule, Schedule::{unserved_passengers, maintenance_violation, number_of_vehicles,
// costs}, and rapid_solve's LinearCombination::new / Objective::new (pinned crate source).
//
// ASSUMPTIONS introduced by this slice (env/objective_shim.vs):
//   A-dyn   the trait `Indicator<S>` is declared by hand with `evaluate` only (+ precondition hook `ind_req`,
//           fixed for ScheduleWithInfo by axiom_ind_req); axiom_dyn_{unserved,violation,count,costs}: a boxed
//           indicator evaluates like its impl.  `Indicator::name` (the JSON keys) is not under contract.
//   A-im    im::HashMap::len
//   A-lib   how rapid_solve's Objective::evaluate folds the levels (sum of coefficient * indicator per level,
//           lexicographic comparison) is not under contract; this slice fixes WHAT the levels are.
//   `as i64` casts: `number_of_vehicles() as i64`, `costs() as i64`, `(a + b) as i64` are Rust `as` casts
//           (no overflow check); the contracts state the cast value and, separately, that it is the exact
//           number whenever that number fits (always for the counts; costs < 2^63).
#![feature(allocator_api)]
use vstd::prelude::*;
use std::ops::Add;
use std::ops::Sub;
use std::collections::{BTreeMap, HashMap};
use std::sync::Arc;
//@include env/display_time.rs
//@include env/display_model.rs
verus! {
//@include env/std_specs.vs
//@include env/seqiter.vs
//@include env/time_types.vs
//@include-trusted env/time_ops.vs
//@include env/model_types.vs
//@include env/broadcast_model.vs
//@include env/model_network_types.vs
//@include env/model_spec.vs
//@include env/solution_types.vs
//@include env/tour_spec.vs

pub mod tr {
use super::*;
use vstd::prelude::*;
use self::im::HashMap;
use self::im_set::HashSet;
//@include env/im_shim.vs
pub mod im_set {
use vstd::prelude::*;
#[verifier::external_body]
#[verifier::reject_recursive_types(T)]
pub struct HashSet<T> { inner: std::collections::HashSet<T> }
}

//@item solution/src/vehicle.rs struct Vehicle : plain
//@end
//@item solution/src/transition.rs type CycleIdx : plain
//@end
//@item solution/src/transition/transition_cycle.rs struct TransitionCycle : plain
//@end
//@item solution/src/transition.rs struct Transition : plain
//@end
//@item solution/src/train_formation.rs struct TrainFormation : plain
//@end
//@item solution/src/schedule.rs type DepotUsage : plain
//@end
//@item solution/src/schedule.rs struct Schedule : plain
//@drop-derive Clone
//@end
//@item solver/src/local_search/neighborhood/swaps.rs enum SwapInfo : plain
//@end
//@item solver/src/local_search/mod.rs struct ScheduleWithInfo : plain
//@drop-derive Clone
//@drop-derive Ord
//@drop-derive PartialOrd
//@drop-derive Eq
//@drop-derive PartialEq
//@end

// ---- rapid_solve (pinned crate source): value, coefficient, level, objective ------------------------------
//@item @rapid_solve/src/objective/base_value.rs enum BaseValue : plain
//@end
//@item @rapid_solve/src/objective/coefficient.rs enum Coefficient : plain
//@end
//@item @rapid_solve/src/objective/linear_combination.rs struct LinearCombination : plain
//@attr verifier::reject_recursive_types(S)
//@end
//@item @rapid_solve/src/objective/mod.rs struct Objective : plain
//@attr verifier::reject_recursive_types(S)
//@end
//@item solver/src/objective.rs struct UnservedPassengersIndicator : plain
//@end
//@item solver/src/objective.rs struct MaintenanceViolationIndicator : plain
//@end
//@item solver/src/objective.rs struct VehicleCountIndicator : plain
//@end
//@item solver/src/objective.rs struct CostsIndicator : plain
//@end
//@include env/objective_shim.vs

//@item @rapid_solve/src/objective/linear_combination.rs LinearCombination<S>::new
//@retname r
//@sig
    ensures r.summands == summands,
//@end
//@item @rapid_solve/src/objective/mod.rs Objective<S>::new
//@retname r
//@sig
    ensures r.hierarchy_levels == hierarchy_levels,
//@end

// ---- the schedule's aggregates (accessors, verbatim) -----------------------------------------------------
//@item solver/src/local_search/mod.rs ScheduleWithInfo::get_schedule
//@retname r
//@sig
    ensures *r == self.schedule,
//@end
//@item solution/src/schedule.rs Schedule::unserved_passengers
//@retname r
//@sig
    ensures r == self.unserved_passengers,
//@end
//@item solution/src/schedule.rs Schedule::maintenance_violation
//@retname r
//@sig
    ensures r == self.maintenance_violation,
//@end
//@item solution/src/schedule.rs Schedule::number_of_vehicles
//@retname r
//@sig
    ensures r == self.vehicles@.len(),
//@end
//@item solution/src/schedule.rs Schedule::costs
//@retname r
//@sig
    ensures r == self.costs,
//@end

// ---- C04: each indicator reports the schedule's aggregate of its name ----------------------------------
//@item solver/src/objective.rs traitfn UnservedPassengersIndicator::evaluate
//@keep-trait
//@retname r
//@sig
    ensures
        r == unserved_value(*schedule_with_info), // @obl C04.unserved_passengers_indicator.reports_the_schedules_pair_added
        r is Integer && r->Integer_0 == schedule_with_info.schedule.unserved_passengers.0 + schedule_with_info.schedule.unserved_passengers.1, // @obl C04.unserved_passengers_indicator.exact_sum
//@first
        proof { axiom_ind_req(schedule_with_info); }
//@end
//@item solver/src/objective.rs traitfn MaintenanceViolationIndicator::evaluate
//@keep-trait
//@retname r
//@sig
    ensures r == violation_value(*schedule_with_info), // @obl C04.maintenance_violation_indicator.reports_the_schedules_violation
//@end
//@item solver/src/objective.rs traitfn VehicleCountIndicator::evaluate
//@keep-trait
//@retname r
//@sig
    ensures
        r == count_value(*schedule_with_info), // @obl C04.vehicle_count_indicator.reports_the_number_of_real_vehicles
        schedule_with_info.schedule.vehicles@.len() <= i64::MAX ==> r is Integer && r->Integer_0 == schedule_with_info.schedule.vehicles@.len(), // @obl C04.vehicle_count_indicator.exact
//@end
//@item solver/src/objective.rs traitfn CostsIndicator::evaluate
//@keep-trait
//@retname r
//@sig
    ensures
        r == costs_value(*schedule_with_info), // @obl C04.costs_indicator.reports_the_schedules_costs
        schedule_with_info.schedule.costs <= i64::MAX ==> r is Integer && r->Integer_0 == schedule_with_info.schedule.costs, // @obl C04.costs_indicator.exact
//@end

// ---- C04 / C08: the hierarchy is unserved passengers, maintenance violation, vehicle count, costs ---------
//@item solver/src/objective.rs fn build
//@retname r
//@sig
    ensures
        r.hierarchy_levels@.len() == 4, // @obl C04.build.four_levels
        forall|k: int| 0 <= k < 4 ==> single_term(#[trigger] r.hierarchy_levels@[k]), // @obl C04.build.each_level_is_one_indicator_with_coefficient_one
        forall|s: ScheduleWithInfo| #[trigger] level_value(r.hierarchy_levels@[0], s) == unserved_value(s), // @obl C04.build.level0_is_unserved_passengers
        forall|s: ScheduleWithInfo| #[trigger] level_value(r.hierarchy_levels@[1], s) == violation_value(s), // @obl C04.build.level1_is_maintenance_violation
        forall|s: ScheduleWithInfo| #[trigger] level_value(r.hierarchy_levels@[2], s) == count_value(s), // @obl C04.build.level2_is_vehicle_count
        forall|s: ScheduleWithInfo| #[trigger] level_value(r.hierarchy_levels@[3], s) == costs_value(s), // @obl C04.build.level3_is_costs
//@before "Objective::new"
    proof {
        assert forall|s: ScheduleWithInfo| #[trigger] level_value(unserved_passengers, s) == unserved_value(s) by { axiom_dyn_unserved(s); }
        assert forall|s: ScheduleWithInfo| #[trigger] level_value(maintenance_violation, s) == violation_value(s) by { axiom_dyn_violation(s); }
        assert forall|s: ScheduleWithInfo| #[trigger] level_value(vehicle_count, s) == count_value(s) by { axiom_dyn_count(s); }
        assert forall|s: ScheduleWithInfo| #[trigger] level_value(costs, s) == costs_value(s) by { axiom_dyn_costs(s); }
    }
//@end

} // mod tr
} // verus!
fn main() {}
