// slice `objective_eval`: how rapid_solve (pinned crate, 0.1.7) turns the hierarchy built by solver::objective::build
// into the reported objective vector and how it orders two such vectors.  It discharges most of assumption A-lib of
// slice `objective` ("Objective::evaluate computes each level as sum(coefficient * indicator) and ObjectiveValue
// orders lexicographically").
//   C04 "The four reported objective components equal an independent evaluation of the returned schedule": here the
//       step "evaluate(s) IS the vector [unserved passengers, maintenance violation, vehicle count, costs] of s".
//   C08 "... strictly improves the schedule in the lexicographic order unserved passengers, then maintenance violation,
//       then vehicle count, then costs": here the step "ObjectiveValue::cmp IS that lexicographic order".
// Verified verbatim (pinned crate source, src/objective/): `Ord::cmp` and `PartialOrd::partial_cmp` of ObjectiveValue
// (objective_value.rs), `Ord::cmp` / `PartialOrd::partial_cmp` / `Add::add` / `Sum::sum` of BaseValue (base_value.rs),
// both `Mul<BaseValue>` impls of Coefficient (coefficient.rs), LinearCombination::evaluate (linear_combination.rs),
// Objective::evaluate (mod.rs), ObjectiveValue::new, EvaluatedSolution::new; closing lemmas lemma_reported_vector /
// lemma_order_of_aggregates over these contracts and the verified postcondition of solver::objective::build.
// The trait methods are emitted as inherent methods (a trait impl cannot carry `requires`: BaseValue::cmp panics on mixed
// variants), except the operator impls (Mul, Add), whose preconditions are vstd's `mul_req` / `add_req`.
//
// ASSUMPTIONS introduced by this slice (env/objective_eval_shim.vs):
//   A-std   core::cmp::Ordering::then_with (`match self { Equal => f(), o => o }`); Ordering::then (same text as
//           env/ord_specs.vs; unused by the unchanged source, keeps an edit then_with -> then decidable).
//   A-iter  shim iterator (env/seqiter.vs, R5) extended by `zip` (pairs until the shorter side ends; the argument's items
//           are vstd's `remaining()` of the std slice iterator), `fold` (some trace acc_0 = init, acc_{k+1} = f(acc_k,
//           item_k) exists and the last accumulator is returned; `f` is only called on such pairs), `rev` (unused by the
//           unchanged source); `viter`, `map`, `collect`, `sum` as in env/seqiter.vs.  `Iterator::sum::<BaseValue>()` is
//           `<BaseValue as Sum>::sum(iter)`: VSum<BaseValue> carries the contract under which the verbatim body of
//           `Sum::sum` is verified (fragment base_value_sum: its generic `I: Iterator<Item = Self>` is instantiated with
//           the shim iterator; skeleton pinned).
//   A-dyn   (objective_shim) hand-declared trait `Indicator<S>` with precondition hook `ind_req`, axiom_dyn_*;
//           NEW here: a call `indicator.evaluate(solution)` through `&Box<dyn Indicator<S>>` returns
//           `dyn_eval_s(box, solution)` (extension trait BoxedIndicatorCall, external_body; it shadows the dyn call, whose
//           hand-declared signature has no postcondition) and `dyn_eval_s` at S = ScheduleWithInfo is objective_shim's
//           `dyn_eval` (axiom_dyn_eval_sched).
//   A-im    im::HashMap::len (objective_shim, unused here).
//   stubs   the four `Indicator::evaluate` impls of solver/src/objective.rs (verified in slice `objective` under the
//           same contract text, R7a); needed only so that objective_shim's axioms type-check.
//   Debug   R3 drops `derive(Debug)`; a no-op `Debug for BaseValue` outside `verus!` serves the `panic!("{:?}")` texts.
//   What remains of A-lib: std's default `PartialOrd::lt` (`<` is `partial_cmp == Some(Less)`) used by rapid_solve's
//           local-search improvers; the derived `Ord` of EvaluatedSolution; `PartialEq::eq` of ObjectiveValue
//           (`self.cmp(other).is_eq()`) -- none of them under contract.
//
// PRECONDITIONS
//   * every entry of both compared vectors is `BaseValue::Integer` (all four indicators of the solver return Integer:
//     slice `objective`); the vectors may differ in length: the contract speaks about the common prefix (see Observation 1).
//   * LinearCombination::evaluate / Objective::evaluate: `lc_req`: Integer coefficients, Integer indicator values, every
//     product `c as i64 * x` and every partial sum fits i64 (Rust `*` / `+` on i64: panic in debug, wrap in release);
//     for a level `1 * indicator` with an Integer value this holds unconditionally (lemma_single_unit_term); `ind_req`
//     (A-dyn hook: the two unserved-passenger counters can be added in u32).
//   * closing lemmas: `agg_fit`: unserved.0 + unserved.1 <= u32::MAX, vehicle count <= i64::MAX, costs <= i64::MAX
//     (the `as i64` casts of slice `objective` are then exact).
//
// NOT covered: the Float / Duration / Maximum variants (BaseValue::cmp with tolerance, Coefficient::Float, `Zero` against a
//   value in cmp) -- their match arms are type- and mode-checked by Verus but unreachable under the Integer preconditions;
//   only `Zero + x` (start of `Sum`) is in scope.  Objective::{zero, maximum, print_*, objective_value_to_json},
//   ObjectiveValue::{add, sub, mul}, Display.  That rapid_solve's local search only accepts `<` neighbours (C08 proper).
//
// OBSERVATIONS (rapid_solve 0.1.7, concrete inputs; none is reachable from solver::objective::build, whose vectors
//   always have four Integer entries):
//   1. ObjectiveValue::cmp zips, i.e. compares only the common prefix: cmp([Integer(1)], [Integer(1), Integer(5)]) ==
//      Equal (and `==` is true), where the lexicographic order of sequences says Less.
//   2. BaseValue::cmp panics on mixed variants: ObjectiveValue [Integer(1)] against [Float(1.0)] (or [Duration(..)]) panics
//      with "Cannot compare ..".  `partial_cmp(..).unwrap()` itself never panics (partial_cmp is `Some(self.cmp(other))`);
//      a NaN Float compares Equal to every Float (both tolerance tests are false), and the tolerance order is not
//      transitive (0.0 ~ 0.00009 ~ 0.00018 but 0.0 < 0.00018).
//   3. `Coefficient::Integer(c) * BaseValue::Integer(b)` is `c as i64 * b` and `Integer(a) + Integer(b)` is `a + b`: they
//      overflow i64 for e.g. c = 2, b = i64::MAX (panic in debug builds, wrap-around in release builds);
//      `Coefficient::Float(1.0) * BaseValue::Integer(16777217)` is Integer(16777216) (round trip through f32).
#![feature(allocator_api)]
use vstd::prelude::*;
use std::ops::Add;
use std::ops::Sub;
use std::collections::{BTreeMap, HashMap};
use std::sync::Arc;
//@include env/display_time.rs
//@include env/display_model.rs
verus! {
//@include env/std_specs.vs
//@include env/seqiter.vs
//@include env/time_types.vs
//@include-trusted env/time_ops.vs
//@include env/model_types.vs
//@include env/broadcast_model.vs
//@include env/model_network_types.vs
//@include env/model_spec.vs
//@include env/solution_types.vs
//@include env/tour_spec.vs

pub mod tr {
use super::*;
use vstd::prelude::*;
use self::im::HashMap;
use self::im_set::HashSet;
use std::cmp::Ordering;
use std::ops::Mul;
//@include env/im_shim.vs
pub mod im_set {
use vstd::prelude::*;
#[verifier::external_body]
#[verifier::reject_recursive_types(T)]
pub struct HashSet<T> { inner: std::collections::HashSet<T> }
}

//@item solution/src/vehicle.rs struct Vehicle : plain
//@end
//@item solution/src/transition.rs type CycleIdx : plain
//@end
//@item solution/src/transition/transition_cycle.rs struct TransitionCycle : plain
//@end
//@item solution/src/transition.rs struct Transition : plain
//@end
//@item solution/src/train_formation.rs struct TrainFormation : plain
//@end
//@item solution/src/schedule.rs type DepotUsage : plain
//@end
//@item solution/src/schedule.rs struct Schedule : plain
//@drop-derive Clone
//@end
//@item solver/src/local_search/neighborhood/swaps.rs enum SwapInfo : plain
//@end
//@item solver/src/local_search/mod.rs struct ScheduleWithInfo : plain
//@drop-derive Clone
//@drop-derive Ord
//@drop-derive PartialOrd
//@drop-derive Eq
//@drop-derive PartialEq
//@end

// ---- rapid_solve (pinned crate source): value, coefficient, level, objective ------------------------------
//@item @rapid_solve/src/objective/base_value.rs enum BaseValue : plain
//@end
//@item @rapid_solve/src/objective/coefficient.rs enum Coefficient : plain
//@end
//@item @rapid_solve/src/objective/linear_combination.rs struct LinearCombination : plain
//@attr verifier::reject_recursive_types(S)
//@end
//@item @rapid_solve/src/objective/mod.rs struct Objective : plain
//@attr verifier::reject_recursive_types(S)
//@end
//@item solver/src/objective.rs struct UnservedPassengersIndicator : plain
//@end
//@item solver/src/objective.rs struct MaintenanceViolationIndicator : plain
//@end
//@item solver/src/objective.rs struct VehicleCountIndicator : plain
//@end
//@item solver/src/objective.rs struct CostsIndicator : plain
//@end
//@include env/objective_shim.vs
// the four indicator impls: verified in slice `objective` under the same contract text (stubs here, R7a)
//@item solver/src/objective.rs traitfn UnservedPassengersIndicator::evaluate : trusted
//@keep-trait
//@retname r
//@sig
    ensures
        r == unserved_value(*schedule_with_info), // @obl C04.unserved_passengers_indicator.reports_the_schedules_pair_added
        r is Integer && r->Integer_0 == schedule_with_info.schedule.unserved_passengers.0 + schedule_with_info.schedule.unserved_passengers.1, // @obl C04.unserved_passengers_indicator.exact_sum
//@end
//@item solver/src/objective.rs traitfn MaintenanceViolationIndicator::evaluate : trusted
//@keep-trait
//@retname r
//@sig
    ensures r == violation_value(*schedule_with_info), // @obl C04.maintenance_violation_indicator.reports_the_schedules_violation
//@end
//@item solver/src/objective.rs traitfn VehicleCountIndicator::evaluate : trusted
//@keep-trait
//@retname r
//@sig
    ensures
        r == count_value(*schedule_with_info), // @obl C04.vehicle_count_indicator.reports_the_number_of_real_vehicles
        schedule_with_info.schedule.vehicles@.len() <= i64::MAX ==> r is Integer && r->Integer_0 == schedule_with_info.schedule.vehicles@.len(), // @obl C04.vehicle_count_indicator.exact
//@end
//@item solver/src/objective.rs traitfn CostsIndicator::evaluate : trusted
//@keep-trait
//@retname r
//@sig
    ensures
        r == costs_value(*schedule_with_info), // @obl C04.costs_indicator.reports_the_schedules_costs
        schedule_with_info.schedule.costs <= i64::MAX ==> r is Integer && r->Integer_0 == schedule_with_info.schedule.costs, // @obl C04.costs_indicator.exact
//@end

//@item @rapid_solve/src/objective/objective_value.rs struct ObjectiveValue : plain
//@drop-derive Clone
//@end
//@item @rapid_solve/src/objective/evaluated_solution.rs struct EvaluatedSolution : plain
//@drop-derive Clone
//@drop-derive Ord
//@drop-derive PartialOrd
//@drop-derive Eq
//@drop-derive PartialEq
//@end
//@include env/objective_eval_shim.vs

//@item @rapid_solve/src/objective/base_value.rs const TOLERANCE : plain
//@end
//@item @rapid_solve/src/objective/base_value.rs traitfn BaseValue::cmp
//@retname r
//@sig
    requires *self is Integer, *other is Integer,
    ensures r == int_cmp(ival(*self), ival(*other)), // @obl C08.base_value.cmp_of_integers_is_the_integer_order
    decreases 0int, // the recursive calls (Zero against a value) are unreachable for two Integers
//@end
//@item @rapid_solve/src/objective/base_value.rs traitfn BaseValue::partial_cmp
//@retname r
//@sig
    requires *self is Integer, *other is Integer,
    ensures r == Some(int_cmp(ival(*self), ival(*other))), // @obl C08.base_value.partial_cmp_of_integers_is_some_integer_order
//@end

//@item @rapid_solve/src/objective/objective_value.rs traitfn ObjectiveValue::cmp
//@retname r
//@viter
//@closure-params fold#0
    core::cmp::Ordering
    (&BaseValue, &BaseValue)
//@closure fold#0
    -> (o: core::cmp::Ordering)
    requires *p1.0 is Integer, *p1.1 is Integer,
    ensures o == cmp_step(acc, *p1.0, *p1.1) /* @obl C08.objective_value.cmp_step_keeps_the_first_difference */,
//@closure? then_with#0
    -> (o: core::cmp::Ordering)
    requires *value is Integer, *other_value is Integer,
    ensures o == int_cmp(ival(*value), ival(*other_value)) /* @obl C08.objective_value.cmp_compares_own_entry_against_other_entry */,
//@first
        broadcast use lemma_cmp_fold_ok, lemma_cmp_fold_rel;
//@sig
    requires all_integer(self.objective_vector@), all_integer(other.objective_vector@),
    ensures
        lex_upto(self.objective_vector@, other.objective_vector@, common_len(self.objective_vector@, other.objective_vector@), r), // @obl C08.objective_value.cmp_is_lexicographic
//@end
//@item @rapid_solve/src/objective/objective_value.rs traitfn ObjectiveValue::partial_cmp
//@retname r
//@sig
    requires all_integer(self.objective_vector@), all_integer(other.objective_vector@),
    ensures
        r is Some && lex_upto(self.objective_vector@, other.objective_vector@, common_len(self.objective_vector@, other.objective_vector@), r->Some_0), // @obl C08.objective_value.partial_cmp_is_some_lexicographic_cmp
//@end

// ---- Coefficient * BaseValue and BaseValue + BaseValue (contracts: MulSpecImpl / AddSpecImpl of the shim) -----
//@item @rapid_solve/src/objective/coefficient.rs impl Mul<BaseValue> for Coefficient
//@end
//@item @rapid_solve/src/objective/coefficient.rs impl Mul<BaseValue> for &Coefficient
//@end
//@item @rapid_solve/src/objective/base_value.rs impl Add for BaseValue
//@end

// ---- `impl Sum for BaseValue` (the generic `I: Iterator<Item = Self>` is instantiated with the shim iterator) ---
//@skeleton @rapid_solve/src/objective/base_value.rs traitfn BaseValue::sum : stmt "iter.fold" = 6492b9a76024998c
//@frag @rapid_solve/src/objective/base_value.rs traitfn BaseValue::sum : stmt "iter.fold" as base_value_sum
//@params iter: SeqIter<BaseValue>
//@ret (r: BaseValue)
//@closure-params fold#0
    BaseValue
    BaseValue
//@closure fold#0
    -> (o: BaseValue) requires bv_add_req(a, b), ensures o == bv_add(a, b),
//@sig
    requires bv_sum_req(iter@),
    ensures r == bv_sum(iter@), // @obl C04.base_value.sum_is_the_left_fold_of_add_from_zero
//@first
        broadcast use lemma_sum_fold_ok, lemma_sum_fold_rel;
//@end

// ---- C04: a hierarchy level evaluates to the sum of coefficient * indicator ---------------------------------
//@item @rapid_solve/src/objective/linear_combination.rs LinearCombination<S>::evaluate
//@retname r
//@viter
//@closure-params map#0
    &(Coefficient, Box<dyn Indicator<S>>)
//@closure map#0
    -> (o: BaseValue) requires ind_req(solution), coef_mul_req(p0.0, dyn_eval_s(p0.1, solution)), ensures o == coef_mul(p0.0, dyn_eval_s(p0.1, solution)) /* @obl C04.linear_combination.summand_is_coefficient_times_indicator */,
//@sig
    requires ind_req(solution), lc_req(*self, solution),
    ensures
        r == lc_value(*self, solution), // @obl C04.linear_combination.value_is_sum_of_coefficient_times_indicator
        self.summands@.len() == 1 && self.summands@[0].0 == Coefficient::Integer(1) && dyn_eval_s(self.summands@[0].1, solution) is Integer
            ==> r == dyn_eval_s(self.summands@[0].1, solution), // @obl C04.linear_combination.single_unit_term_is_the_indicator_value
//@first
        proof {
            lemma_lc_terms(*self, solution);
            if self.summands@.len() == 1 && self.summands@[0].0 == Coefficient::Integer(1) && dyn_eval_s(self.summands@[0].1, solution) is Integer {
                lemma_single_unit_term(*self, solution);
            }
        }
//@end

// ---- C04: the objective value is the vector of the level values -----------------------------------------------
//@item @rapid_solve/src/objective/objective_value.rs ObjectiveValue::new
//@retname r
//@sig
    ensures r.objective_vector == objective_vector,
//@end
//@item @rapid_solve/src/objective/evaluated_solution.rs EvaluatedSolution<S>::new
//@retname r
//@sig
    ensures r.solution == solution, r.objective_value == objective_value,
//@end
//@item @rapid_solve/src/objective/mod.rs Objective<S>::evaluate
//@retname r
//@viter
//@closure-params map#0
    &LinearCombination<S>
//@closure map#0
    -> (o: BaseValue) requires ind_req(&solution), lc_req(*level, &solution), ensures o == lc_value(*level, &solution) /* @obl C04.objective.each_entry_is_a_level_value */,
//@sig
    requires
        ind_req(&solution),
        forall|i: int| 0 <= i < self.hierarchy_levels@.len() ==> lc_req(#[trigger] self.hierarchy_levels@[i], &solution),
    ensures
        r.solution == solution, // @obl C04.objective.evaluate_keeps_the_solution
        r.objective_value.objective_vector@.len() == self.hierarchy_levels@.len(), // @obl C04.objective.evaluate_one_entry_per_level
        forall|i: int| 0 <= i < self.hierarchy_levels@.len() ==> #[trigger] r.objective_value.objective_vector@[i] == lc_value(self.hierarchy_levels@[i], &solution), // @obl C04.objective.evaluate_is_the_vector_of_level_values
//@end

// ---- closing lemmas: the objective built by solver::objective::build reports and orders the four aggregates ------
/// the four aggregates of a schedule (C04: "unserved passengers, maintenance violation, vehicle count, costs")
pub open spec fn agg_unserved(s: ScheduleWithInfo) -> int { s.schedule.unserved_passengers.0 + s.schedule.unserved_passengers.1 }
pub open spec fn agg_violation(s: ScheduleWithInfo) -> int { s.schedule.maintenance_violation as int }
pub open spec fn agg_count(s: ScheduleWithInfo) -> int { s.schedule.vehicles@.len() as int }
pub open spec fn agg_costs(s: ScheduleWithInfo) -> int { s.schedule.costs as int }
/// PRECONDITION of the closing lemmas: the aggregates fit the machine types they are reported in (u32 sum of the
/// two unserved-passenger counters: the hook `ind_req`; `as i64` of the vehicle count and of the costs)
pub open spec fn agg_fit(s: ScheduleWithInfo) -> bool {
    agg_unserved(s) <= u32::MAX && agg_count(s) <= i64::MAX && agg_costs(s) <= i64::MAX
}
/// the vector [unserved, violation, vehicle count, costs] as Integers
pub open spec fn agg_vector(s: ScheduleWithInfo) -> Seq<BaseValue> {
    seq![BaseValue::Integer(agg_unserved(s) as i64), BaseValue::Integer(agg_violation(s) as i64),
         BaseValue::Integer(agg_count(s) as i64), BaseValue::Integer(agg_costs(s) as i64)]
}
/// the lexicographic order of two quadruples (C08: "unserved passengers, then maintenance violation, then vehicle
/// count, then costs")
pub open spec fn lex4(a0: int, a1: int, a2: int, a3: int, b0: int, b1: int, b2: int, b3: int) -> Ordering {
    if a0 != b0 { int_cmp(a0, b0) } else if a1 != b1 { int_cmp(a1, b1) } else if a2 != b2 { int_cmp(a2, b2) } else { int_cmp(a3, b3) }
}
/// copy of the VERIFIED postcondition of solver::objective::build (slice `objective`), r := o
pub open spec fn build_post(o: Objective<ScheduleWithInfo>) -> bool {
    &&& o.hierarchy_levels@.len() == 4
    &&& forall|k: int| 0 <= k < 4 ==> single_term(#[trigger] o.hierarchy_levels@[k])
    &&& forall|s: ScheduleWithInfo| #[trigger] level_value(o.hierarchy_levels@[0], s) == unserved_value(s)
    &&& forall|s: ScheduleWithInfo| #[trigger] level_value(o.hierarchy_levels@[1], s) == violation_value(s)
    &&& forall|s: ScheduleWithInfo| #[trigger] level_value(o.hierarchy_levels@[2], s) == count_value(s)
    &&& forall|s: ScheduleWithInfo| #[trigger] level_value(o.hierarchy_levels@[3], s) == costs_value(s)
}
/// copy of the precondition / postcondition of Objective::evaluate above (self := o, solution := s, r := e)
pub open spec fn evaluate_pre(o: Objective<ScheduleWithInfo>, s: ScheduleWithInfo) -> bool {
    &&& ind_req(&s)
    &&& forall|i: int| 0 <= i < o.hierarchy_levels@.len() ==> lc_req(#[trigger] o.hierarchy_levels@[i], &s)
}
pub open spec fn evaluate_post(o: Objective<ScheduleWithInfo>, s: ScheduleWithInfo, e: EvaluatedSolution<ScheduleWithInfo>) -> bool {
    &&& e.solution == s
    &&& e.objective_value.objective_vector@.len() == o.hierarchy_levels@.len()
    &&& forall|i: int| 0 <= i < o.hierarchy_levels@.len() ==> #[trigger] e.objective_value.objective_vector@[i] == lc_value(o.hierarchy_levels@[i], &s)
}
/// copy of the precondition / postcondition of ObjectiveValue::cmp above (self := x, other := y)
pub open spec fn cmp_pre(x: ObjectiveValue, y: ObjectiveValue) -> bool {
    all_integer(x.objective_vector@) && all_integer(y.objective_vector@)
}
pub open spec fn cmp_post(x: ObjectiveValue, y: ObjectiveValue, r: Ordering) -> bool {
    lex_upto(x.objective_vector@, y.objective_vector@, common_len(x.objective_vector@, y.objective_vector@), r)
}
/// each level of the built objective can be evaluated on s and its value is the aggregate of that position
pub proof fn lemma_built_level(o: Objective<ScheduleWithInfo>, s: ScheduleWithInfo, k: int)
    requires build_post(o), agg_fit(s), 0 <= k < 4,
    ensures
        lc_req(o.hierarchy_levels@[k], &s),
        lc_value(o.hierarchy_levels@[k], &s) == agg_vector(s)[k],
{
    let l = o.hierarchy_levels@[k];
    assert(single_term(l));
    axiom_dyn_eval_sched(l.summands@[0].1, s);
    assert(dyn_eval_s(l.summands@[0].1, &s) == level_value(l, s));
    lemma_single_unit_term(l, &s);
}
/// C04: evaluating a schedule with the built objective is admissible and reports exactly the four aggregates,
/// in the order unserved passengers, maintenance violation, vehicle count, costs
pub proof fn lemma_reported_vector(o: Objective<ScheduleWithInfo>, s: ScheduleWithInfo, e: EvaluatedSolution<ScheduleWithInfo>)
    requires build_post(o), agg_fit(s), evaluate_post(o, s, e),
    ensures
        evaluate_pre(o, s), // @obl C04.objective.evaluate_is_admissible_for_the_built_objective
        e.solution == s,
        e.objective_value.objective_vector@ == agg_vector(s), // @obl C04.objective.reported_vector_is_the_four_aggregates
{
    axiom_ind_req(&s);
    assert forall|i: int| 0 <= i < o.hierarchy_levels@.len() implies lc_req(#[trigger] o.hierarchy_levels@[i], &s) by {
        lemma_built_level(o, s, i);
    }
    lemma_built_level(o, s, 0); lemma_built_level(o, s, 1); lemma_built_level(o, s, 2); lemma_built_level(o, s, 3);
    assert(e.objective_value.objective_vector@ =~= agg_vector(s));
}
/// C08: comparing two such reported vectors is admissible and yields the lexicographic order of the four aggregates
pub proof fn lemma_order_of_aggregates(s: ScheduleWithInfo, t: ScheduleWithInfo, x: ObjectiveValue, y: ObjectiveValue, r: Ordering)
    requires
        agg_fit(s), agg_fit(t),
        x.objective_vector@ == agg_vector(s), y.objective_vector@ == agg_vector(t),
        cmp_post(x, y, r),
    ensures
        cmp_pre(x, y), // @obl C08.objective.cmp_is_admissible_for_reported_vectors
        r == lex4(agg_unserved(s), agg_violation(s), agg_count(s), agg_costs(s), agg_unserved(t), agg_violation(t), agg_count(t), agg_costs(t)), // @obl C08.objective.order_is_lexicographic_in_the_four_aggregates
{
    let a = x.objective_vector@; let b = y.objective_vector@;
    assert(ival(a[0]) == agg_unserved(s) && ival(a[1]) == agg_violation(s) && ival(a[2]) == agg_count(s) && ival(a[3]) == agg_costs(s));
    assert(ival(b[0]) == agg_unserved(t) && ival(b[1]) == agg_violation(t) && ival(b[2]) == agg_count(t) && ival(b[3]) == agg_costs(t));
    if ival(a[0]) != ival(b[0]) { assert(first_diff(a, b, 0)); }
    else if ival(a[1]) != ival(b[1]) { assert(first_diff(a, b, 1)); }
    else if ival(a[2]) != ival(b[2]) { assert(first_diff(a, b, 2)); }
    else if ival(a[3]) != ival(b[3]) { assert(first_diff(a, b, 3)); }
    else {
        assert forall|i: int| 0 <= i < 4 implies ival(#[trigger] a[i]) == ival(b[i]) by {}
    }
}

} // mod tr
} // verus!
// `panic!("… {:?} …", value)` in BaseValue needs a Debug impl (R3 drops the derive): no-op, console text is not under contract
impl std::fmt::Debug for tr::BaseValue { fn fmt(&self, _f: &mut std::fmt::Formatter<'_>) -> std::fmt::Result { Ok(()) } }
fn main() {}
