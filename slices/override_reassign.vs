// slice `override_reassign`: Schedule::override_reassign (solution/src/schedule/modifications.rs), "Remove segment from
// provider's tour and inserts the nodes into the tour of receiver vehicle.  All conflicting nodes are removed from the tour
// and in the case that there are conflicts a new dummy tour is created.", verbatim body.
//   C13  "Each schedule modification has its documented effect and nothing else: the provider loses exactly the moved nodes,
//        the receiver gains them (override) …, displaced or removed service trips are handed back (… in a new dummy tour), a
//        vehicle left without activities disappears, … and all other vehicles' tours, formations elsewhere and the input
//        schedule itself stay untouched"
//   C10 / C03  "a vehicle is in the formation of a node exactly if its tour contains the node"
//   C09  "cached aggregates equal recomputation" (costs, depot usage, unserved passengers, maintenance violation)
//   C01  type clause: "a vehicle only serves departure segments whose route prescribes its own vehicle type"
// Vocabulary in env/override_reassign_shim.vs.  p = provider, r = receiver, tp / tr = their old tours, lo / hi = the
// positions of the segment's ends in tp, M = or_moved = tp.mid(lo, hi + 1) (the moved nodes), kept = tp.rest(lo, hi + 1),
// n = or_ins = what tr takes of M (a dummy tour takes no depots), (s, e) = THE insert positions of n in tr (ins_pos;
// lemma_ins_unique: C12 "longest prefix … / longest suffix …" determine them), D = or_displaced = tr.mid(s, e) (the DISPLACED
// nodes), gained = tr.spliced(s, e, n).
// Contract on Ok((res, nd)) -- every clause is an `ensures` line of its own (on Err nothing is claimed but (4), (5)):
//   (4) C01.override_reassign.refuses_incompatible_segment: or_compatible: if r is real and p is not a real vehicle of the
//       same type, every moved node is compatible with r's type (the guarantee of check_receiver_type_compatibility);
//       Ok only if Tour::remove accepts the segment (or_removes);
//   (5) C13.override_reassign.refuses_instead_of_reusing_an_id: a displaced service trip and vehicle_counter > 0xffff ==> Err;
//   (1) C13.override_reassign.provider_loses_receiver_gains_displaced_go_to_new_dummy:
//       or_provider_after: p's tour in res is a tour with nodes == kept (same kind, same map, well-formed, caches exact) or p
//         has no tour, and res.vehicles == vehicles_after(.., tour of p in res): p is deleted iff it is real and has none;
//       or_receiver_after: r's tour in res has nodes == gained (same kind, same map, well-formed, caches exact);
//       or_maps_after: res.tours == tours_after(self.tours, ..), res.dummy_tours == dummies_after(self.dummy_tours, ..) plus --
//         iff D contains a service trip -- ONE new entry under Dummy(self.vehicle_counter): map equalities, every other key
//         untouched (lemma_frame of env/update_tours_shim.vs); res.network == self.network;
//       or_dummy_after: iff D contains a service trip: nd == Some(that id), the id is fresh, its tour holds svc_filter(D) (what
//         Tour::new_dummy keeps) in order, is a dummy tour over the schedule's network with exact caches, counter + 1; else nd
//         is None and the counter is unchanged;
//       or_lists_after: a deleted provider leaves its list, the new dummy id enters the sorted dummy list;
//       C10.override_reassign.listings_still_sorted_and_matching / ids_stay_valid: listings_ok and ids_valid hold for res;
//   (2) formations, node by node (or_form_mid(n) = the formation after the first update: repl_seq(old, p -> r) for a moved
//       non-depot node, the old formation otherwise; or_rcv_leaves(n) = r is real and n is a displaced non-depot node):
//       C13.override_reassign.formations_elsewhere_untouched: same key set; neither moved nor or_rcv_leaves ==> same formation;
//       C10.override_reassign.moved_nodes_provider_replaced_by_receiver: moved and not or_rcv_leaves ==> or_form_mid(n), and
//         that replacement succeeded (repl_ok);
//       C10.override_reassign.receiver_leaves_formations_of_displaced_nodes: or_rcv_leaves(n) ==> r is in or_form_mid(n) and
//         the formation is or_form_mid(n) without r's first occurrence -- INDEPENDENT of whether a dummy tour is created.
//       M and D need NOT be disjoint (p and r may both cover a trip): the clauses are the sequential composition;
//   (3) C09.override_reassign.costs_delta_exact (or_costs_after), .depot_usage_exact (usage_exact for res),
//       .unserved_passengers_delta_exact (or_unserved_after: the delta of the first update, then the one of the second on the
//       table the first one leaves), .maintenance_violation_exact (or_transitions_after: transitions consistent with the new
//       tours, membership, violation == from-scratch sum, types of neither participant untouched).
//   (6) CLOSURE -- C10.override_reassign.result_satisfies_the_schedule_invariants_again (the induction step of C10 "After any
//       sequence of schedule modifications …" / C09 "… for every reachable schedule"): on Ok the result `res` satisfies the
//       SCHEDULE-INVARIANT part of or_pre again, conjunct by conjunct (lemma_orc_* in env/override_reassign_shim.vs: lemmas about
//       the CONTRACT -- their hypotheses are or_pre and the effect clauses (1) / (3) read on res):
//         ids        res.ids_ok();
//         listings   listings_ok(res …);
//         usage      usage_exact(res.depot_usage, &res.network, res.vehicles, res.tours);
//         part_ok    orc_parts_after: EVERY v with self.part_ok(v) that still has a tour in res satisfies res.part_ok(v) (the
//                    provider if it still exists, the receiver, every untouched vehicle / dummy).  MAGNITUDE A-len is not an
//                    invariant of the operation (the receiver's tour grows): for v == receiver under the extra hypothesis
//                    tour_len_ok(or_gained).  orc_new_dummy_part: the new dummy tour satisfies part_ok PROVIDED it is wf (its
//                    connectivity is A-path / D9: Tour::new_dummy's contract does not state wf);
//         cycles     res.or_transitions_ok(), INCLUDING the magnitude clause len_sum + 2 <= 2^17 (no extra hypothesis: no real
//                    vehicle is created; counting lemma lemma_orc_total_len_is_lookup, text of env/sched_ctor_shim.vs);
//         costs      res.orc_costs_cover(p, r): the costs clause of or_pre, verbatim, for the same two participants.
//       Treated as ABOUT THE ARGUMENTS (not targets): p != r; the segment is a segment of p's tour; the u64 headroom clause
//       (costs + costs of the two NEW tours); or_counters_ok (A-counter of the two NEW tours); or_pre_move / or_pre_displace
//       (tfu_pre for the moved / displaced nodes: per-node formation facts and u32 headroom).  The bundle has NO schedule-wide
//       formations / tours agreement clause (it enters through tfu_pre, per moved node), so none is re-established here beyond
//       (2); `tf.dom()` is unchanged (or_formations_elsewhere).
//
// ASSUMPTIONS introduced / used by this slice:
//   A-stub   every callee is a trusted stub with EXACTLY the contract text of the slice that verifies its body (hashes
//            checked against build/*.map.json): Schedule::{is_vehicle, tour_of} (depot_usage), check_receiver_type_compatibility,
//            update_transitions_and_violation_fast (sched_guard), update_tours (update_tours), update_train_formation
//            (train_formation_update), add_dummy_tour, Tour::new_dummy (remove_segment), Tour::insert_path (tour_mod).
//            Verified here (verbatim bodies, text as in remove_segment): Schedule::new, Schedule::next_free_idx,
//            VehicleIdx::dummy_from.
//   A-stub+  NEW: Tour::remove carries the contract of slice tour_mod PLUS ONE clause that tour_mod does not state:
//            `r is Ok ==> r->Ok_0.1.network == self.network` (the removed path carries the tour's network: both returns build
//            it with `Path::new_trusted(removed_nodes, self.network.clone())`).  Needed for the precondition `path.network ==
//            self.network` of Tour::insert_path.  Checked: a scratch copy of slices/tour_mod.vs with this clause added
//            verifies (Tour::remove, 22 s); until tour_mod.vs has it, it is an assumption (contract hash differs).
//   A-iter   Path::iter, Tour::all_nodes_iter: stubs returning SeqIter (text of slices/sched_guard.vs / spawn_vehicle.vs);
//            all_nodes_iter is not called by the code under contract (present so that a tree that calls it still type-checks).
//            NEW `SeqIter<&T>::cloned` (external_body: item-wise clone == the item; `moved_nodes.iter().cloned()`, R5).
//   A-iter / R12  `moved_nodes: impl Iterator<Item = NodeIdx>` of update_tours is retyped to SeqIter<NodeIdx>; the one of
//            update_train_formation to `impl node_items::NodeItems` (NEW, env/override_reassign_shim.vs): any iterator over
//            NodeIdx, `moved_nodes@` = the items it will yield (vstd's IteratorSpec::remaining; for SeqIter its view) --
//            the same assumption, but a call site that hands in `Vec::into_iter()` still type-checks.  Contract text / hash
//            unchanged.
//   A-display `{}` of Segment (DisplaySpecImpl, no-op Display impl outside verus!; text of slices/remove_segment.vs).
//   A-im / A-std7 / A-derive  as in slices/update_tours.vs (env/im_shim.vs, env/depot_usage_shim.vs, env/update_tours_shim.vs:
//            im::HashMap / HashSet shims incl. clone, Index / IndexMut, binary_search, Ord of VehicleIdx, Vehicle::clone);
//            vstd's specifications of Vec::clone, Arc::clone, `vec!`, Result / Option.
//   plus the shared env: env/model_fns.vs, env/time_ops.vs, env/dist_ops.vs included trusted; env/broadcast_model.vs;
//            env/transition_spec.vs (in a module `trs` of its own: it re-declares sp_start_depot / max0).
//   Copied vocabulary (files that cannot be included next to env/depot_usage_shim.vs): see the header of
//            env/override_reassign_shim.vs.
//   vx rewrites applied to the body: R5 (`moved_nodes.iter()` -> `.viter()`), R2 (pub).
//
// PRECONDITIONS the caller must guarantee (Schedule::or_pre, or_pre_move, or_pre_displace; each clause is commented in the shim):
//   * provider != receiver (the bookkeeping runs once per vehicle; Neighborhood::segment_exchange_iterator "skip[s] provider as
//     receiver");
//   * C10 ids (ids_ok): real vehicles have `Vehicle` ids, are stored under their own id and have a tour; dummy ids are `Dummy`
//     ids below the counter; the dummy list is sorted;
//   * part_ok(p), part_ok(r): a vehicle or a dummy of self, not both; its tour is well-formed over the schedule's network
//     (C01 / C10), its caches are exact (C09), at most 2^17 + 2 nodes (A-len); a real vehicle has a real tour and its type
//     has a transition;
//   * the segment is a segment of the provider's tour that is not made of depots only (the two `unwrap`s of the type guard);
//   * C10 listings_ok, C09 usage_exact for the whole schedule;
//   * C09 / magnitudes: self.costs covers the old tours of the real participants; self.costs + spec_costs(kept) +
//     spec_costs(gained) fits into u64;
//   * or_transitions_ok: C15 / C10 / C09 for the rotation cycles (one transition per type, consistent with the tours, exact
//     membership, violation == sum), at most 2^17 - 2 vehicles;
//   * or_counters_ok (A-counter): the maintenance counters of the two new tours are small;
//   * or_pre_move: tfu_pre (slices/train_formation_update.vs) for (Some(p), self.vehicles.get(&r).cloned(), M);
//   * or_pre_displace: if r is real and D is not made of depots only: tfu_pre for (Some(r), None, D) on EVERY table / pair
//     the first update may leave (or_between).
//
// NOT covered: closure of the costs clause for OTHER pairs of vehicles (the clause of or_pre is pairwise -- "costs cover the two
//   participants' tours" -- and as such not inductive: it is a consequence of C09 "costs == sum of all tours' costs + non-negative
//   terms", which this vocabulary does not have); tour_len_ok of the receiver's new tour (A-len, hypothesis of (6)); wf of the new
//   dummy tour (A-path / D9, hypothesis of (6)); formations / tours agreement as a schedule-wide invariant (not in the bundle).
//   On Err nothing is claimed except (4) / (5) (in particular not WHEN the formation updates refuse: Ok <==> all_ok is
//   available from the stubs but not exported); when Tour::remove returns None for the provider (its contract does not say);
//   that the callers establish the preconditions; that M and D are disjoint (not needed); connectivity of the new dummy tour
//   (A-path / D9, see slices/remove_segment.vs); the input schedule `self` is `&self` (untouched by the type system).
#![feature(allocator_api)]
use vstd::prelude::*;
use std::ops::Add;
use std::ops::Sub;
use std::collections::{BTreeMap, HashMap};
use std::sync::Arc;
//@include env/display_time.rs
//@include env/display_model.rs
impl std::fmt::Display for Segment { fn fmt(&self, _f: &mut std::fmt::Formatter) -> std::fmt::Result { Ok(()) } }
verus! {
//@include env/std_specs.vs
//@include env/seqiter.vs
//@include env/time_types.vs
//@include-trusted env/time_ops.vs
//@include env/model_types.vs
//@include env/broadcast_model.vs
//@include env/model_network_types.vs
//@include env/model_spec.vs
//@include-trusted env/model_fns.vs
//@include env/solution_types.vs
//@include env/tour_spec.vs
//@include env/sums.vs
//@include-trusted env/dist_ops.vs
//@include env/vsum_impls.vs
//@include env/cache_spec.vs
// the three lemma files below are proved in their home slice tour_mod; here their bodies are not re-checked
//@include-proved env/cache_lemmas.vs
//@include-proved env/remove_lemmas.vs
//@include-proved env/insert_lemmas.vs

pub mod tr {
use super::*;
use vstd::prelude::*;
use self::im::HashMap;
use self::im_set::HashSet;
//@include env/im_shim.vs
//@include env/depot_usage_shim.vs

//@item solution/src/transition.rs type CycleIdx : plain
//@end
//@item solution/src/transition/transition_cycle.rs struct TransitionCycle : plain
//@end
//@item solution/src/transition.rs struct Transition : plain
//@end
//@item solution/src/train_formation.rs struct TrainFormation : plain
//@end
//@item solution/src/schedule.rs type DepotUsage : plain
//@end
//@item solution/src/schedule.rs struct Schedule : plain
//@drop-derive Clone
//@end

pub mod trs {
use super::*;
use vstd::prelude::*;
//@include env/transition_spec.vs
} // mod trs
use self::trs::*;

//@include env/update_tours_shim.vs
//@include env/train_formation_update_shim.vs
//@include env/override_reassign_shim.vs

//@item model/src/base_types.rs VehicleIdx::dummy_from
//@retname r
//@sig
    ensures r == VehicleIdx::Dummy(idx),
//@end
// verified here, text as in slices/remove_segment.vs.  `//@item?`: on a tree without this function (the unfixed code casts
// `vehicle_counter as Idx`) the item is skipped
//@item? solution/src/schedule/modifications.rs Schedule::next_free_idx
//@retname r
//@fmt-nonempty
//@sig
    ensures
        vehicle_counter <= 0xffff ==> r == Ok::<Idx, String>(vehicle_counter as u16),
        vehicle_counter > 0xffff ==> r is Err, // @obl C13.next_free_idx.refuses_when_all_indices_are_used
//@end
//@item solution/src/schedule.rs Schedule::new
//@retname r
//@sig
    ensures
        r.vehicles == vehicles, r.tours == tours, r.next_period_transitions == next_period_transitions,
        r.train_formations == train_formations, r.depot_usage == depot_usage, r.dummy_tours == dummy_tours,
        r.vehicle_counter == vehicle_counter, r.vehicle_ids_grouped_and_sorted == vehicle_ids_grouped_and_sorted,
        r.dummy_ids_sorted == dummy_ids_sorted, r.unserved_passengers == unserved_passengers,
        r.maintenance_violation == maintenance_violation, r.costs == costs, r.network == network,
//@end
//@item solution/src/schedule.rs Schedule::is_vehicle : trusted
//@retname r
//@sig
    ensures r == self.sp_is_vehicle(vehicle),
//@end
//@item solution/src/schedule.rs Schedule::tour_of : trusted
//@retname r
//@sig
    ensures
        self.tours@.contains_key(vehicle) ==> r is Ok && *r->Ok_0 == self.tours@[vehicle],
        !self.tours@.contains_key(vehicle) && self.dummy_tours@.contains_key(vehicle) ==> r is Ok && *r->Ok_0 == self.dummy_tours@[vehicle],
        !self.tours@.contains_key(vehicle) && !self.dummy_tours@.contains_key(vehicle) ==> r is Err,
//@end
//@item solution/src/path.rs Path::iter : trusted
//@ret SeqIter<NodeIdx>
//@retname r
//@sig
    ensures r@ == self.node_sequence@,
//@end
//@item solution/src/tour.rs Tour::all_nodes_iter : trusted
//@ret SeqIter<NodeIdx>
//@retname r
//@sig
    ensures r@ == self.nodes@,
//@end
//@item solution/src/tour/modifications.rs Tour::remove : trusted
//@retname r
//@sig
    requires self.wf(), self.caches_ok(), self.network.has(segment.start), self.network.has(segment.end), tour_len_ok(self.nodes@),
    ensures
        // C12: "Removing a segment yields the tour without exactly those nodes, is refused when it
        // would strand a depot or leave an unconnectable gap"
        r is Ok <==> self.has_node(segment.start) && self.has_node(segment.end)
            && self.removable(self.index_of(segment.start), self.index_of(segment.end)), // @obl C12.remove.refusal
        r is Ok ==> r->Ok_0.1.node_sequence@ == self.mid(self.index_of(segment.start), self.index_of(segment.end) + 1)
            && (r->Ok_0.0 is Some ==> r->Ok_0.0->Some_0.nodes@ == self.rest(self.index_of(segment.start), self.index_of(segment.end) + 1)), // @obl C12.remove.exactly_those_nodes
        r is Ok && r->Ok_0.0 is Some ==> r->Ok_0.0->Some_0.is_dummy == self.is_dummy && r->Ok_0.0->Some_0.network == self.network
            && r->Ok_0.0->Some_0.wf(), // @obl C01.remove.wf
        r is Ok && r->Ok_0.0 is Some ==> r->Ok_0.0->Some_0.caches_ok(), // @obl C09.remove.caches
        // C13: "a vehicle left without activities disappears": no tour is returned exactly when nothing (dummy) resp.
        // nothing but the two depots (real vehicle) would be left
        r is Ok ==> (r->Ok_0.0 is None <==> (if self.is_dummy { self.rest(self.index_of(segment.start), self.index_of(segment.end) + 1).len() == 0 }
            else { self.rest(self.index_of(segment.start), self.index_of(segment.end) + 1).len() <= 2 })), // @obl C13.remove.no_tour_iff_no_activity_left
        r is Ok ==> r->Ok_0.1.network == self.network,
//@end
//@item solution/src/tour/modifications.rs Tour::insert_path : trusted
//@retname r
//@sig
    requires self.wf(), self.caches_ok(), tour_len_ok(self.nodes@),
        path.network == self.network, tour_len_ok(path.node_sequence@),
        // A-path: the inserted path is a path of the network (connected) with an activity
        path_shape(&self.network, path.node_sequence@),
    ensures ({
        let n = eff_path(self, path.node_sequence@);
        exists|s: int, e: int| {
            &&& ins_positions(self, n, s, e) && 0 <= s <= e <= self.len()
            // C12: longest prefix whose last node reaches the path + the whole path + longest suffix the path reaches
            &&& r.0.nodes@ == #[trigger] self.spliced(s, e, n) // @obl C12.insert_path.prefix_path_suffix
            // C12: reports exactly the dropped nodes
            &&& (all_depots(&self.network, self.mid(s, e)) ==> r.1 is None)
            &&& (!all_depots(&self.network, self.mid(s, e)) ==> r.1 is Some && r.1.unwrap().node_sequence@ == self.mid(s, e)) // @obl C12.insert_path.reports_exactly_dropped
        }
    }),
        r.0.is_dummy == self.is_dummy && r.0.network == self.network,
        r.0.wf(), // @obl C01.insert_path.wf
        r.0.caches_ok(), // @obl C09.insert_path.caches
//@end
//@item solution/src/tour.rs Tour::new_dummy : trusted
//@retname r
//@sig
    requires network.wf(), all_in_net(&network, path.node_sequence@), len_ok(path.node_sequence@),
    ensures
        // "Dummy tour needs to have at least one service nodes."
        r is Ok <==> has_service(&network, path.node_sequence@), // @obl C13.new_dummy.ok_iff_some_service_trip
        // C13: "removed service trips are handed back": exactly the service trips of the path, in order
        r is Ok ==> r->Ok_0.nodes@ == svc_filter(&network, path.node_sequence@) && r->Ok_0.is_dummy && r->Ok_0.network == network, // @obl C13.new_dummy.exactly_the_service_trips_in_order
        r is Ok ==> r->Ok_0.caches_ok(), // @obl C09.new_dummy.caches
//@end
//@item solution/src/schedule/modifications.rs Schedule::check_receiver_type_compatibility : trusted
//@retname r
//@sig
    requires
        // what the callers guarantee (the two `unwrap`s): the provider has a tour, a well-formed tour of
        // the schedule's network, and the segment is a segment of that tour
        self.has_tour(provider),
        self.sp_tour_of(provider).wf(),
        *self.sp_tour_of(provider).network == *self.network,
        tour_len_ok(self.sp_tour_of(provider).nodes@),
        exists|i: int, j: int| #[trigger] Schedule::seg_at(&self.sp_tour_of(provider), segment, i, j)
            && !all_depots(&self.network, self.sp_tour_of(provider).nodes@.subrange(i, j + 1)),
    ensures
        // C01, type clause: the receiver is a real vehicle and the provider is a dummy or a vehicle of
        // another type: the guard only lets segments pass all of whose nodes the receiver's type may serve
        self.vehicles@.contains_key(receiver)
            && !(self.vehicles@.contains_key(provider) && self.type_of(provider) == self.type_of(receiver))
            && r
            ==> forall|i: int, j: int, p: int| #[trigger] Schedule::seg_at(&self.sp_tour_of(provider), segment, i, j) && i <= p <= j
                ==> self.network.sp_compatible(#[trigger] self.sp_tour_of(provider).nodes@[p], self.type_of(receiver)), // @obl C01.type_guard.true_only_if_compatible
//@end
//@item solution/src/schedule/modifications.rs Schedule::update_train_formation : trusted
//@param-type moved_nodes impl self::node_items::NodeItems
//@retname r
//@sig
    requires
        self.tfu_pre(old(train_formations)@, *old(unserved_passengers), provider, receiver_vehicle, moved_nodes@),
    ensures
        // C13: "Each schedule modification has its documented effect and nothing else … formations elsewhere … stay untouched"
        r is Ok ==> self.formations_elsewhere_untouched(moved_nodes@, old(train_formations)@, final(train_formations)@), // @obl C13.update_train_formation.formations_elsewhere_untouched
        // C13: "In a formation a replacing vehicle takes the replaced one's position, additions go to the tail and
        // removals keep the order": every moved non-depot node gets the replacement of its OLD formation
        r is Ok ==> self.moved_get_replacement(moved_nodes@, old(train_formations)@, final(train_formations)@, provider, receiver_vehicle), // @obl C13.update_train_formation.moved_nodes_get_the_replacement
        // C02 / C10: "formation, track and depot limits hold"
        r is Ok ==> self.grown_within_limits(moved_nodes@, final(train_formations)@, provider, receiver_vehicle), // @obl C02.update_train_formation.grown_formations_within_limits
        // C09: "cached aggregates equal recomputation": the delta is exact
        r is Ok ==> final(unserved_passengers).0 == old(unserved_passengers).0
            - self.un_sum(old(train_formations)@, provider, receiver_vehicle, moved_nodes@, moved_nodes@.len() as int, false, 0)
            + self.un_sum(old(train_formations)@, provider, receiver_vehicle, moved_nodes@, moved_nodes@.len() as int, true, 0)
          && final(unserved_passengers).1 == old(unserved_passengers).1
            - self.un_sum(old(train_formations)@, provider, receiver_vehicle, moved_nodes@, moved_nodes@.len() as int, false, 1)
            + self.un_sum(old(train_formations)@, provider, receiver_vehicle, moved_nodes@, moved_nodes@.len() as int, true, 1), // @obl C09.update_train_formation.unserved_passengers_delta_exact
        // the modification is refused iff the replacement fails for some moved non-depot node
        r is Ok <==> self.all_ok(old(train_formations)@, provider, receiver_vehicle, moved_nodes@, moved_nodes@.len() as int), // @obl C13.update_train_formation.refused_iff_a_replacement_fails
//@end
//@item solution/src/schedule/modifications.rs Schedule::update_tours : trusted
//@param-type moved_nodes SeqIter<NodeIdx>
//@retname r
//@sig
    requires
        self.ut_pre(old(vehicles)@, old(tours)@, old(depot_usage)@, old(dummy_tours)@, old(vehicle_ids_grouped_and_sorted)@,
            old(dummy_ids_sorted)@, *old(costs), provider, new_tour_provider, receiver, new_tour_receiver),
        self.tfu_pre(old(train_formations)@, *old(unserved_passengers), provider, self.sp_receiver_vehicle(receiver), moved_nodes@),
    ensures
        final(vehicles)@ == self.vehicles_after(old(vehicles)@, provider, new_tour_provider), // @obl C13.update_tours.provider_and_receiver_tours_replaced_everything_else_untouched
        final(tours)@ == self.tours_after(old(tours)@, provider, new_tour_provider, receiver, new_tour_receiver), // @obl C13.update_tours.provider_and_receiver_tours_replaced_everything_else_untouched
        final(dummy_tours)@ == self.dummies_after(old(dummy_tours)@, provider, new_tour_provider, receiver, new_tour_receiver), // @obl C13.update_tours.provider_and_receiver_tours_replaced_everything_else_untouched
        self.lists_follow(old(vehicle_ids_grouped_and_sorted)@, final(vehicle_ids_grouped_and_sorted)@, old(dummy_ids_sorted)@, final(dummy_ids_sorted)@,
            provider, new_tour_provider), // @obl C13.update_tours.provider_and_receiver_tours_replaced_everything_else_untouched
        listings_ok(old(vehicles)@, old(dummy_tours)@, old(vehicle_ids_grouped_and_sorted)@, old(dummy_ids_sorted)@)
            ==> listings_ok(final(vehicles)@, final(dummy_tours)@, final(vehicle_ids_grouped_and_sorted)@, final(dummy_ids_sorted)@), // @obl C10.update_tours.listings_still_sorted_and_matching
        *final(costs) == *old(costs)
            - self.cost_out_provider(old(tours)@, provider) - self.cost_out_receiver(old(tours)@, receiver)
            + self.cost_in_provider(provider, new_tour_provider) + self.cost_in_receiver(receiver, new_tour_receiver), // @obl C09.update_tours.costs_delta_exact
        usage_exact_for(final(depot_usage)@, &self.network, final(vehicles)@, final(tours)@, receiver), // @obl C09.update_tours.depot_usage_exact_for_provider_and_receiver
        provider is Some ==> usage_exact_for(final(depot_usage)@, &self.network, final(vehicles)@, final(tours)@, provider.unwrap()), // @obl C09.update_tours.depot_usage_exact_for_provider_and_receiver
        usage_same_except_two(old(depot_usage)@, final(depot_usage)@, provider, receiver), // @obl C09.update_tours.depot_usage_exact_for_provider_and_receiver
        r is Ok ==> self.formations_elsewhere_untouched(moved_nodes@, old(train_formations)@, final(train_formations)@), // @obl C13.update_tours.formations_follow_update_train_formation
        r is Ok ==> self.moved_get_replacement(moved_nodes@, old(train_formations)@, final(train_formations)@, provider, self.sp_receiver_vehicle(receiver)), // @obl C13.update_tours.formations_follow_update_train_formation
        r is Ok ==> self.grown_within_limits(moved_nodes@, final(train_formations)@, provider, self.sp_receiver_vehicle(receiver)), // @obl C13.update_tours.formations_follow_update_train_formation
        r is Ok ==> final(unserved_passengers).0 == old(unserved_passengers).0
            - self.un_sum(old(train_formations)@, provider, self.sp_receiver_vehicle(receiver), moved_nodes@, moved_nodes@.len() as int, false, 0)
            + self.un_sum(old(train_formations)@, provider, self.sp_receiver_vehicle(receiver), moved_nodes@, moved_nodes@.len() as int, true, 0)
          && final(unserved_passengers).1 == old(unserved_passengers).1
            - self.un_sum(old(train_formations)@, provider, self.sp_receiver_vehicle(receiver), moved_nodes@, moved_nodes@.len() as int, false, 1)
            + self.un_sum(old(train_formations)@, provider, self.sp_receiver_vehicle(receiver), moved_nodes@, moved_nodes@.len() as int, true, 1), // @obl C13.update_tours.formations_follow_update_train_formation
        r is Ok <==> self.all_ok(old(train_formations)@, provider, self.sp_receiver_vehicle(receiver), moved_nodes@, moved_nodes@.len() as int), // @obl C13.update_tours.err_iff_update_train_formation_refuses
//@end
//@item solution/src/schedule/modifications.rs Schedule::add_dummy_tour : trusted
//@sig
    requires
        // `binary_search` is meaningful on a sorted list only
        sorted_cmp(old(dummy_ids_sorted)@),
    ensures
        final(dummy_tours)@ == old(dummy_tours)@.insert(new_dummy_idx, new_dummy_tour), // @obl C13.add_dummy_tour.tour_stored_under_id
        ids_gain(old(dummy_ids_sorted)@, final(dummy_ids_sorted)@, new_dummy_idx), // @obl C13.add_dummy_tour.id_list_gains_exactly_id
        sorted_cmp(final(dummy_ids_sorted)@), // @obl C13.add_dummy_tour.id_list_stays_sorted
        // CLOSURE: the only schedule invariant among the preconditions (the id list is sorted) holds again
        sorted_cmp(final(dummy_ids_sorted)@), // @obl C10.add_dummy_tour.result_satisfies_the_schedule_invariants_again
//@end
//@item solution/src/schedule/modifications.rs Schedule::update_transitions_and_violation_fast : trusted
//@sig
    requires
        // the old schedule is consistent (C15, C10, C09), no real vehicle is listed twice, every listed real
        // vehicle is an old and / or a new vehicle with an admissible new tour, magnitudes: see upd_pre
        self.upd_pre(old(transitions)@, *old(maintenance_violation) as int, changed_vehicles@, vehicles@, tours@),
        // (clause of upd_pre, repeated: the caller-side assumption the transition slice names) no real vehicle
        // is listed twice: update_vehicle / remove_vehicle read the previous tour of the vehicle from self.tours
        forall|i: int, j: int| 0 <= i < j < changed_vehicles@.len() && changed_vehicles@[i] is Vehicle
            ==> #[trigger] changed_vehicles@[i] != #[trigger] changed_vehicles@[j],
    ensures
        forall|vt: VehicleTypeIdx| old(transitions)@.contains_key(vt) <==> #[trigger] final(transitions)@.contains_key(vt),
        // C15 / C10: every transition is consistent with the NEW tours ...
        forall|vt: VehicleTypeIdx| #[trigger] final(transitions)@.contains_key(vt) ==> final(transitions)@[vt].wf(&self.network, tours@), // @obl C10.update_transitions.consistent_with_new_tours
        // ... and its cycles hold exactly the NEW vehicles of its type ("every real vehicle belongs to
        // exactly one rotation cycle of its type": one cycle by wf_cycles / wf_lookup)
        forall|vt: VehicleTypeIdx, v: VehicleIdx| #![trigger final(transitions)@[vt].has_vehicle(v)] final(transitions)@.contains_key(vt)
            ==> (final(transitions)@[vt].has_vehicle(v) <==> (vehicles@.contains_key(v) && vtype(vehicles@[v]) == vt)), // @obl C10.update_transitions.membership
        // C09: "the schedule's maintenance violation equals its from-scratch value"
        *final(maintenance_violation) == viol_sum(final(transitions)@, sched_types(self)), // @obl C09.update_transitions.violation_sum
        // the transitions of the other types are untouched
        forall|vt: VehicleTypeIdx| #[trigger] final(transitions)@.contains_key(vt) && !self.touches_type(vehicles@, changed_vehicles@, vt)
            ==> final(transitions)@[vt] == old(transitions)@[vt], // @obl C10.update_transitions.other_types_untouched
//@end

// ---- the function under contract ------------------------------------------------------------------------------
//@item solution/src/schedule/modifications.rs Schedule::override_reassign
//@viter
//@viter-skip path
//@viter-skip new_path
//@retname r
//@sig
    requires
        // schedule invariants (C10, C09, C15), provider != receiver, the segment is a segment of the provider's tour, magnitudes
        self.or_pre(segment, provider, receiver),
        // caller-side: the preconditions of the two formation updates (update_train_formation, see slices/train_formation_update.vs)
        self.or_pre_move(segment, provider, receiver),
        self.or_pre_displace(segment, provider, receiver),
    ensures
        // (4) C01 / C10, type clause: "# Errors: If some node of the segment is not compatible with the receivers type an error
        // is returned": Ok only if every moved node may be served by the receiver's type
        r is Ok ==> self.or_compatible(segment, provider, receiver), // @obl C01.override_reassign.refuses_incompatible_segment
        // C12: Ok only if Tour::remove accepts the segment ("Provider tour must be valid after removing the segment")
        r is Ok ==> self.or_removes(segment, provider), // @obl C13.override_reassign.provider_loses_receiver_gains_displaced_go_to_new_dummy
        // D11: ids are handed out once: when a new dummy tour is needed and all 2^16 ids are used the modification is refused
        self.or_removes(segment, provider) && self.or_creates_dummy(segment, provider, receiver) && self.vehicle_counter > 0xffff ==> r is Err, // @obl C13.override_reassign.refuses_instead_of_reusing_an_id
        // (1) C13: "the provider loses exactly the moved nodes, the receiver gains them (override) …, displaced … service trips
        // are handed back (… in a new dummy tour), a vehicle left without activities disappears, … all other vehicles' tours …
        // stay untouched"
        r is Ok ==> self.or_provider_after(segment, provider, receiver, r->Ok_0.0.vehicles@, r->Ok_0.0.tours@, r->Ok_0.0.dummy_tours@), // @obl C13.override_reassign.provider_loses_receiver_gains_displaced_go_to_new_dummy
        r is Ok ==> self.or_receiver_after(segment, provider, receiver, r->Ok_0.0.tours@, r->Ok_0.0.dummy_tours@), // @obl C13.override_reassign.provider_loses_receiver_gains_displaced_go_to_new_dummy
        r is Ok ==> self.or_maps_after(segment, provider, receiver, r->Ok_0.0.tours@, r->Ok_0.0.dummy_tours@), // @obl C13.override_reassign.provider_loses_receiver_gains_displaced_go_to_new_dummy
        r is Ok ==> self.or_dummy_after(segment, provider, receiver, r->Ok_0.0.dummy_tours@, r->Ok_0.0.vehicle_counter, r->Ok_0.1), // @obl C13.override_reassign.provider_loses_receiver_gains_displaced_go_to_new_dummy
        r is Ok ==> self.or_lists_after(segment, provider, receiver, r->Ok_0.0.tours@, r->Ok_0.0.dummy_tours@,
            r->Ok_0.0.vehicle_ids_grouped_and_sorted@, r->Ok_0.0.dummy_ids_sorted@), // @obl C13.override_reassign.provider_loses_receiver_gains_displaced_go_to_new_dummy
        r is Ok ==> r->Ok_0.0.network == self.network, // @obl C13.override_reassign.provider_loses_receiver_gains_displaced_go_to_new_dummy
        // C10: "vehicle and dummy listings are sorted and match the stored tours"; the ids stay valid (every dummy id is below
        // the counter: the next id is fresh again)
        r is Ok ==> listings_ok(r->Ok_0.0.vehicles@, r->Ok_0.0.dummy_tours@, r->Ok_0.0.vehicle_ids_grouped_and_sorted@, r->Ok_0.0.dummy_ids_sorted@), // @obl C10.override_reassign.listings_still_sorted_and_matching
        r is Ok ==> ids_valid(r->Ok_0.0.vehicles@, r->Ok_0.0.tours@, r->Ok_0.0.dummy_tours@, r->Ok_0.0.dummy_ids_sorted@, r->Ok_0.0.vehicle_counter), // @obl C10.override_reassign.ids_stay_valid
        // (2) C10 / C03 / C13: formations
        r is Ok ==> self.or_formations_elsewhere(segment, provider, receiver, r->Ok_0.0.train_formations@), // @obl C13.override_reassign.formations_elsewhere_untouched
        r is Ok ==> self.or_formations_moved(segment, provider, receiver, r->Ok_0.0.train_formations@), // @obl C10.override_reassign.moved_nodes_provider_replaced_by_receiver
        r is Ok ==> self.or_formations_displaced(segment, provider, receiver, r->Ok_0.0.train_formations@), // @obl C10.override_reassign.receiver_leaves_formations_of_displaced_nodes
        // (3) C09: "cached aggregates equal recomputation"
        r is Ok ==> self.or_costs_after(provider, receiver, r->Ok_0.0.tours@, r->Ok_0.0.dummy_tours@, r->Ok_0.0.costs), // @obl C09.override_reassign.costs_delta_exact
        r is Ok ==> usage_exact(r->Ok_0.0.depot_usage@, &self.network, r->Ok_0.0.vehicles@, r->Ok_0.0.tours@), // @obl C09.override_reassign.depot_usage_exact
        r is Ok ==> self.or_unserved_after(segment, provider, receiver, r->Ok_0.0.unserved_passengers), // @obl C09.override_reassign.unserved_passengers_delta_exact
        r is Ok ==> self.or_transitions_after(provider, receiver, r->Ok_0.0.next_period_transitions@, r->Ok_0.0.maintenance_violation,
            r->Ok_0.0.vehicles@, r->Ok_0.0.tours@), // @obl C09.override_reassign.maintenance_violation_exact
        // (6) CLOSURE, the induction step of C10 ("After any sequence of schedule modifications …") / C09 ("… for every reachable
        // schedule"): the result satisfies the schedule-invariant part of or_pre AGAIN, conjunct by conjunct
        // ids (ids_ok)
        r is Ok ==> r->Ok_0.0.ids_ok(), // @obl C10.override_reassign.result_satisfies_the_schedule_invariants_again
        // listings (listings_ok)
        r is Ok ==> listings_ok(r->Ok_0.0.vehicles@, r->Ok_0.0.dummy_tours@, r->Ok_0.0.vehicle_ids_grouped_and_sorted@, r->Ok_0.0.dummy_ids_sorted@), // @obl C10.override_reassign.result_satisfies_the_schedule_invariants_again
        // depot usage table (usage_exact, over the RESULT's network)
        r is Ok ==> usage_exact(r->Ok_0.0.depot_usage@, &r->Ok_0.0.network, r->Ok_0.0.vehicles@, r->Ok_0.0.tours@), // @obl C10.override_reassign.result_satisfies_the_schedule_invariants_again
        // tours / participants (part_ok): every vehicle or dummy that was part_ok and still has a tour is part_ok in the result
        // (provider if it still exists, receiver, all untouched ones); magnitude A-len: for the receiver under the extra
        // hypothesis tour_len_ok(or_gained); the new dummy tour under the hypothesis that it is well-formed (A-path / D9)
        r is Ok ==> self.orc_parts_after(segment, provider, receiver, &r->Ok_0.0), // @obl C10.override_reassign.result_satisfies_the_schedule_invariants_again
        r is Ok ==> self.orc_new_dummy_part(segment, provider, receiver, &r->Ok_0.0), // @obl C10.override_reassign.result_satisfies_the_schedule_invariants_again
        // rotation cycles (or_transitions_ok, INCLUDING the magnitude clause: no real vehicle is created)
        r is Ok ==> r->Ok_0.0.or_transitions_ok(), // @obl C10.override_reassign.result_satisfies_the_schedule_invariants_again
        // costs relation (text of or_pre): the new costs cover the new tours of the (real) participants
        r is Ok ==> r->Ok_0.0.orc_costs_cover(provider, receiver), // @obl C10.override_reassign.result_satisfies_the_schedule_invariants_again
//@first
        // the big predicates stay folded in this body: the lemmas of env/override_reassign_shim.vs unfold them
        hide(Schedule::or_pre);
        hide(Schedule::ut_pre);
        hide(Schedule::tfu_pre);
        hide(Schedule::upd_pre);
        hide(Schedule::or_new_tours);
        hide(Schedule::or_compatible);
        hide(Schedule::or_provider_after);
        hide(Schedule::or_receiver_after);
        hide(Schedule::or_maps_after);
        hide(Schedule::or_dummy_after);
        hide(Schedule::or_lists_after);
        hide(Schedule::or_costs_after);
        hide(Schedule::or_formations_elsewhere);
        hide(Schedule::or_formations_moved);
        hide(Schedule::or_formations_displaced);
        hide(Schedule::or_unserved_after);
        hide(Schedule::lists_follow);
        hide(Schedule::vehicles_after);
        hide(Schedule::tours_after);
        hide(Schedule::dummies_after);
        hide(listings_ok);
        hide(ids_valid);
        hide(usage_exact);
        hide(usage_exact_for);
        hide(usage_same_except_two);
        hide(Network::wf);
        hide(Tour::is_start_pos);
        hide(Tour::is_end_pos);
        hide(Schedule::part_ok);
        hide(Schedule::or_transitions_ok);
        hide(Schedule::orc_parts_after);
        hide(Schedule::orc_new_dummy_part);
        hide(Schedule::orc_costs_cover);
        let ghost mut ndt: Option<Tour> = None;
        proof { lemma_or_setup(self, segment, provider, receiver); }
//@before "let moved_nodes"
        proof {
            // Tour::remove accepted the segment
            assert(self.or_removes(segment, provider));
            assert(path.node_sequence@ == self.or_moved(segment, provider));
            lemma_or_guard(self, segment, provider, receiver);
            lemma_or_path(self, segment, provider, receiver);
        }
//@before "let (new_tour_receiver"
        proof {
            assert(*tour_receiver == self.sp_tour_of(receiver));
            assert(eff_path(tour_receiver, path.node_sequence@) == self.or_ins(segment, provider, receiver));
        }
//@before "self.update_tours("
        let ghost stp = shrinked_tour_provider;
        let ghost ntr = new_tour_receiver;
        proof {
            lemma_or_inserted(self, segment, provider, receiver, ntr, replaced_path);
            assert(self.or_new_tours(segment, provider, receiver, stp, ntr)) by { reveal(Schedule::or_new_tours); }
            lemma_or_ut_pre(self, segment, provider, receiver, stp, ntr);
            lemma_seq_ext_all(self.or_moved(segment, provider));
        }
//@after "self.update_tours("
        let ghost tf1 = train_formations@;
        let ghost u1 = unserved_passengers;
        let ghost ids1 = dummy_ids_sorted@;
        let ghost dm1 = dummy_tours@;
        proof {
            // the state between the two formation updates (triggers or_pre_displace)
            assert(self.or_between(segment, provider, receiver, tf1, u1));
            lemma_listing_sorted(vehicles@, dummy_tours@, vehicle_ids_grouped_and_sorted@, ids1);
        }
//@before "let new_dummy ="
                proof { ndt = Some(new_dummy_tour); }
//@before "self.update_transitions_and_violation_fast("
        proof {
            lemma_or_upd_pre(self, segment, provider, receiver, stp, ntr, vehicles@, tours@);
        }
//@before "Ok(("
        proof {
            lemma_or_tours_post(self, segment, provider, receiver, stp, ntr, ndt, new_dummy_opt, vehicles@, tours@, dummy_tours@, vehicle_counter, costs);
            lemma_or_lists_post(self, segment, provider, receiver, stp, tours@, dummy_tours@, vehicle_ids_grouped_and_sorted@, ids1, dummy_ids_sorted@);
            lemma_or_listings_post(self, segment, provider, receiver, stp, ntr, ndt, vehicles@, dm1, vehicle_ids_grouped_and_sorted@, ids1, dummy_tours@, dummy_ids_sorted@);
            lemma_or_ids_post(self, segment, provider, receiver, stp, ntr, ndt, vehicles@, tours@, dummy_tours@, dummy_ids_sorted@, vehicle_counter);
            lemma_or_formations_post(self, segment, provider, receiver, tf1, u1, train_formations@);
            lemma_or_unserved_post(self, segment, provider, receiver, tf1, u1, unserved_passengers);
            lemma_usage_exact_after(self, self.depot_usage@, depot_usage@, self.vehicles@, self.tours@, Some(provider), stp, receiver, ntr); // @obl C09.override_reassign.depot_usage_exact
            // closure: from the effect clauses above, for whatever schedule Schedule::new builds from these components
            assert(self.or_transitions_after(provider, receiver, next_period_transitions@, maintenance_violation, vehicles@, tours@)); // @obl C09.override_reassign.maintenance_violation_exact
            lemma_orc_closure(self, segment, provider, receiver, new_dummy_opt, vehicles@, tours@, dummy_tours@, vehicle_counter,
                next_period_transitions@, maintenance_violation, costs); // @obl C10.override_reassign.result_satisfies_the_schedule_invariants_again
        }
//@end

} // mod tr
} // verus!
fn main() {}
