// slice `path`: Path constructors (C01: Path::new establishes connectedness, A-path) and Tour::new
#![feature(allocator_api)]
use vstd::prelude::*;
use std::ops::Add;
use std::ops::Sub;
use std::collections::{BTreeMap, HashMap};
use std::sync::Arc;
//@include env/display_time.rs
//@include env/display_model.rs
verus! {
//@include env/std_specs.vs
//@include env/seqiter.vs
//@include env/time_types.vs
//@include-trusted env/time_ops.vs
//@include env/model_types.vs
//@include env/broadcast_model.vs
//@include env/model_network_types.vs
//@include env/model_spec.vs
//@include-trusted env/model_fns.vs
//@include env/solution_types.vs
//@include env/tour_spec.vs
//@include env/path_fns.vs

//@item solution/src/path.rs Path::new
//@retname r
//@viter
//@forpat
//@fmt-nonempty
//@sig
    requires nw.wf(), all_in_net(&nw, node_sequence@),
    ensures
        // C01 / A-path: a Path built by Path::new is connected under the timing rule
        r is Ok <==> connected(&nw, node_sequence@), // @obl C01.path_new.connected
        r is Ok ==> (all_depots(&nw, node_sequence@) ==> r->Ok_0 is None)
            && (!all_depots(&nw, node_sequence@) ==> r->Ok_0 is Some && r->Ok_0->Some_0.node_sequence@ == node_sequence@ && r->Ok_0->Some_0.network == nw),
//@loop "for (&a, &b) in"
            invariant
                nw.wf(), all_in_net(&nw, node_sequence@),
                it.snapshot@@.len() == (if node_sequence@.len() >= 1 { node_sequence@.len() - 1 } else { 0 }),
                forall|k: int| 0 <= k < it.snapshot@@.len() ==> *(#[trigger] it.snapshot@@[k]).0 == node_sequence@[k] && *it.snapshot@@[k].1 == node_sequence@[k + 1],
                0 <= it.index@ <= it.snapshot@@.len(),
                forall|k: int| 0 <= k < it.index@ ==> #[trigger] nw.reach(node_sequence@[k], node_sequence@[k + 1]),
//@end
//@item solution/src/path.rs Path::new_from_single_node
//@retname r
//@sig
    requires network.wf(), network.has(node), !network.sp_node(node).sp_is_depot(),
    ensures r.node_sequence@ == seq![node], r.network == network,
//@end
} // verus!
fn main() {}
