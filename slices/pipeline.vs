// slice `pipeline`: data flow (stage wiring) of the two pipeline entry points (C16)
//   server::solve_instance (server/src/lib.rs)   and   internal::run (internal/src/lib.rs)
// Both bodies are extracted verbatim; every stage they call is a stub with an uninterpreted contract
// (env/pipeline_shim.vs, A-pipe).  The postcondition says which composition of the stages the answer is.
#![feature(allocator_api)]
use vstd::prelude::*;
verus! {
//@include env/seqiter.vs
//@include env/im_shim.vs
//@include env/pipeline_shim.vs

// ---- C16, transcribed --------------------------------------------------------------------------------
// "The answer of a solve request is the start solution improved by the local search, carrying the
//  rotation cycles chosen by the transition optimisation, with end depots then aligned to those cycles."
pub mod c16 {
use vstd::prelude::*;
use std::sync::Arc;
use crate::serde_json;
use crate::model::base_types::VehicleTypeIdx;
use crate::model::network::*;
use crate::model::vehicle_types::*;
use crate::solution::schedule::*;
use crate::solution::transition::Transition;
use crate::solver::local_search::*;
use crate::solver::local_search::neighborhood::swaps::SwapInfo;
use crate::solver::min_cost_flow_solver::*;
use crate::solver::objective::*;
use crate::solver::transition_local_search::*;
use crate::rapid_solve::objective::*;
use crate::rapid_solve::heuristics::parallel_local_search::*;

/// the vehicle types of the network, in iteration order
pub open spec fn vt_ids(net: Arc<Network>) -> Seq<VehicleTypeIdx> {
    spec_vt_ids(*spec_vehicle_types(*net))
}
/// the start solution: min-cost-flow schedule with improved depots
pub open spec fn start_schedule(net: Arc<Network>) -> Schedule {
    spec_improve_depots(spec_mcf_solve(spec_mcf_solver(net)), None)
}
/// the local search: result of the local-search solver built for the network, started at `s`
pub open spec fn local_search(net: Arc<Network>, s: Schedule) -> Schedule {
    spec_swi_schedule(ev_solution(pls_solve(spec_ls_solver(net),
        spec_swi_new(s, SwapInfo::NoSwap, "Result from min cost flow solver"@))))
}
/// S: "the start solution improved by the local search" (skipped if the instance has no maintenance)
pub open spec fn improved_schedule(net: Arc<Network>) -> Schedule {
    if spec_maintenance_considered(*net) { local_search(net, start_schedule(net)) } else { start_schedule(net) }
}
/// the transition optimisation: result of the optimiser built for (s, net), started at transition t
pub open spec fn optimize_transition(net: Arc<Network>, s: Schedule, t: Transition) -> Transition {
    spec_twi_transition(ev_solution(pls_solve(spec_tls_solver(s, net), spec_twi_new(t, "Initial transition"@))))
}
/// M: every vehicle type of the network |-> the optimiser's cycles for that type
pub open spec fn optimized_transitions(net: Arc<Network>, s: Schedule) -> Map<VehicleTypeIdx, Transition> {
    Map::new(
        vt_ids(net).to_set(),
        |vt: VehicleTypeIdx| optimize_transition(net, s, spec_next_day_transition_of(s, vt)),
    )
}
/// the schedule that is reported: S carrying M, end depots then aligned to M
pub open spec fn final_schedule(net: Arc<Network>) -> Schedule {
    let s = improved_schedule(net);
    spec_reassign_end_depots(spec_set_next_day_transitions(s, optimized_transitions(net, s)))
}
/// the answer: the evaluated final schedule, serialised (time stamps etc. are not part of the contract)
pub open spec fn answer(net: Arc<Network>) -> serde_json::Value {
    crate::server::spec_output_json(
        spec_evaluate(spec_objective(),
            spec_swi_new(final_schedule(net), SwapInfo::NoSwap, "Final schedule after reassigning end depots"@)),
        spec_objective())
}
/// the first n items of ids contain vt
pub open spec fn seen(ids: Seq<VehicleTypeIdx>, n: int, vt: VehicleTypeIdx) -> bool {
    exists|k: int| 0 <= k < n && k < ids.len() && ids[k] == vt
}
pub proof fn lemma_seen_step(ids: Seq<VehicleTypeIdx>, n: int)
    requires 0 <= n < ids.len(),
    ensures forall|vt: VehicleTypeIdx| #[trigger] seen(ids, n + 1, vt) <==> (seen(ids, n, vt) || vt == ids[n]),
{
    assert forall|vt: VehicleTypeIdx| #[trigger] seen(ids, n + 1, vt) <==> (seen(ids, n, vt) || vt == ids[n]) by {
        if seen(ids, n + 1, vt) {
            let k = choose|k: int| 0 <= k < n + 1 && k < ids.len() && ids[k] == vt;
            if k < n { assert(seen(ids, n, vt)); }
        }
        if seen(ids, n, vt) {
            let k = choose|k: int| 0 <= k < n && k < ids.len() && ids[k] == vt;
            assert(0 <= k < n + 1 && ids[k] == vt);
        }
        if vt == ids[n] { assert(0 <= n < n + 1 && ids[n] == vt); }
    }
}
pub proof fn lemma_seen_all(ids: Seq<VehicleTypeIdx>)
    ensures forall|vt: VehicleTypeIdx| #[trigger] seen(ids, ids.len() as int, vt) <==> ids.contains(vt),
{
    assert forall|vt: VehicleTypeIdx| #[trigger] seen(ids, ids.len() as int, vt) <==> ids.contains(vt) by {
        if seen(ids, ids.len() as int, vt) {
            let k = choose|k: int| 0 <= k < ids.len() && k < ids.len() && ids[k] == vt;
            assert(ids[k] == vt);
        }
        if ids.contains(vt) {
            let k = choose|k: int| 0 <= k < ids.len() && ids[k] == vt;
            assert(0 <= k < ids.len() && k < ids.len() && ids[k] == vt);
        }
    }
}
} // mod c16

// ---- crate server ------------------------------------------------------------------------------------
#[verifier::loop_isolation(false)]
pub mod server {
use vstd::prelude::*;
// the `use` lines of server/src/lib.rs (crate names resolved inside this file)
use crate::im::HashMap;
use crate::model::base_types::VehicleTypeIdx;
use crate::model::json_serialisation::load_rolling_stock_problem_instance_from_json;
use crate::rapid_solve::heuristics::Solver;
use crate::rapid_solve::objective::EvaluatedSolution;
use crate::rapid_solve::objective::Objective;
use crate::solution::transition::Transition;
use crate::solver::local_search::neighborhood::swaps::SwapInfo;
use crate::solver::local_search::ScheduleWithInfo;
use crate::solver::min_cost_flow_solver::MinCostFlowSolver;
use crate::solver::objective;
use crate::solver::transition_local_search::build_transition_local_search_solver;
use crate::solver::transition_local_search::TransitionWithInfo;
use crate::{serde_json, solver};
use std::sync::Arc;
use std::time as stdtime;
// ghost names
use crate::c16;
use crate::model::json_serialisation::spec_load_network;
use crate::model::network::*;
use crate::model::vehicle_types::*;
use crate::solution::schedule::*;

/// the serialised answer is a function of the evaluated final solution and the objective only
pub uninterp spec fn spec_output_json(final_solution: EvaluatedSolution<ScheduleWithInfo>, objective: Objective<ScheduleWithInfo>) -> serde_json::Value;

//@item server/src/lib.rs fn create_output_json : trusted
//@retname r
//@sig
    ensures r == spec_output_json(*final_solution, *objective),
//@end

//@item server/src/lib.rs fn solve_instance
//@retname r
//@sig
    ensures
        r == c16::answer(spec_load_network(input_data)), // @obl C16.solve_instance.product_of_all_stages
//@loop "for vehicle_type in network.vehicle_types().iter() { println!( "\nOptimizing"
        invariant
            it.snapshot@@ == c16::vt_ids(network),
            0 <= it.index@ <= it.snapshot@@.len(),
            forall|vt: VehicleTypeIdx| #[trigger] optimized_transitions@.contains_key(vt) <==> c16::seen(it.snapshot@@, it.index@, vt),
            forall|vt: VehicleTypeIdx| #[trigger] optimized_transitions@.contains_key(vt) ==>
                optimized_transitions@[vt] == c16::optimize_transition(network, *schedule, spec_next_day_transition_of(*schedule, vt)),
//@before "optimized_transitions.insert"
        proof { c16::lemma_seen_step(it.snapshot@@, it.index@); }
//@before "let schedule_with_optimized_transitions"
        proof {
            c16::lemma_seen_all(c16::vt_ids(network));
            assert(optimized_transitions@ =~= c16::optimized_transitions(network, *schedule));
        }
//@end
} // mod server

// ---- crate internal ----------------------------------------------------------------------------------
#[verifier::loop_isolation(false)]
pub mod internal {
use vstd::prelude::*;
// the `use` lines of internal/src/lib.rs (crate names resolved inside this file)
use crate::im::HashMap;
use crate::model::base_types::VehicleTypeIdx;
use crate::rapid_solve::heuristics::Solver;
use crate::solution::transition::Transition;
use crate::solver::local_search::neighborhood::swaps::SwapInfo;
use crate::solver::local_search::ScheduleWithInfo;
use crate::solver::min_cost_flow_solver::MinCostFlowSolver;
use crate::solver::objective;
use crate::model::json_serialisation::load_rolling_stock_problem_instance_from_json;
use crate::solver::transition_local_search::{build_transition_local_search_solver, TransitionWithInfo};
use crate::{serde_json, server, solver};
use std::sync::Arc;
use std::time as stdtime;
// ghost names
use crate::c16;
use crate::model::json_serialisation::spec_load_network;
use crate::model::network::*;
use crate::model::vehicle_types::*;
use crate::solution::schedule::*;

//@item internal/src/lib.rs fn run
//@retname r
//@sig
    ensures
        r == c16::answer(spec_load_network(input_data)), // @obl C16.internal_run.product_of_all_stages
//@loop "for vehicle_type in network.vehicle_types().iter() { println!( "\nOptimizing"
        invariant
            it.snapshot@@ == c16::vt_ids(network),
            0 <= it.index@ <= it.snapshot@@.len(),
            forall|vt: VehicleTypeIdx| #[trigger] optimized_transitions@.contains_key(vt) <==> c16::seen(it.snapshot@@, it.index@, vt),
            forall|vt: VehicleTypeIdx| #[trigger] optimized_transitions@.contains_key(vt) ==>
                optimized_transitions@[vt] == c16::optimize_transition(network, *schedule, spec_next_day_transition_of(*schedule, vt)),
//@before "optimized_transitions.insert"
        proof { c16::lemma_seen_step(it.snapshot@@, it.index@); }
//@before "let schedule_with_optimized_transitions"
        proof {
            c16::lemma_seen_all(c16::vt_ids(network));
            assert(optimized_transitions@ =~= c16::optimized_transitions(network, *schedule));
        }
//@end
} // mod internal
} // verus!
fn main() {}
