// slice `reassign`: Schedule::reassign_end_depots_consistent_with_transitions (C05 at schedule level, C13 depot-only)
#![feature(allocator_api)]
use vstd::prelude::*;
use std::ops::Add;
use std::ops::Sub;
use std::collections::{BTreeMap, HashMap};
use std::sync::Arc;
//@include env/display_time.rs
//@include env/display_model.rs
verus! {
//@include env/std_specs.vs
//@include env/seqiter.vs
//@include env/time_types.vs
//@include-trusted env/time_ops.vs
//@include env/model_types.vs
//@include env/broadcast_model.vs
//@include env/model_network_types.vs
//@include env/model_spec.vs
//@include-trusted env/model_fns.vs
//@include env/solution_types.vs
//@include env/tour_spec.vs
//@include env/sums.vs
//@include-trusted env/dist_ops.vs
//@include env/vsum_impls.vs
//@include env/cache_spec.vs
//@include-proved env/cache_lemmas.vs

pub mod tr {
use super::*;
use vstd::prelude::*;
use self::im::HashMap;
use self::im_set::HashSet;
//@include env/im_shim.vs

//@item solution/src/transition.rs type CycleIdx : plain
//@end
//@item solution/src/transition/transition_cycle.rs struct TransitionCycle : plain
//@drop-derive Clone
//@end
impl Clone for TransitionCycle {
    #[verifier::external_body]
    fn clone(&self) -> (r: Self)
        ensures r == *self
    { unimplemented!() }
}
//@item solution/src/transition.rs struct Transition : plain
//@end
//@include env/transition_spec.vs
//@include env/schedule_shim.vs

// ---- Tour: trusted stubs (verified in the tour slices; contract text copied from there) --------------
//@item solution/src/tour.rs Tour::start_depot : trusted
//@retname r
//@sig
    requires self.wf(),
    ensures !self.is_dummy ==> r == Ok::<NodeIdx, String>(sp_start_depot(self)),
//@end
//@item solution/src/tour.rs Tour::costs : trusted
//@retname r
//@sig
    ensures r == self.costs,
//@end
//@item solution/src/tour/modifications.rs Tour::replace_end_depot : trusted
//@retname r
//@sig
    requires self.wf(), self.caches_ok(), self.network.has(new_end_depot), tour_len_ok(self.nodes@),
    ensures
        r is Ok <==> !self.is_dummy && self.network.sp_node(new_end_depot) is EndDepot,
        r is Ok ==> r->Ok_0.nodes@ == self.nodes@.update(self.len() - 1, new_end_depot) && r->Ok_0.is_dummy == self.is_dummy && r->Ok_0.network == self.network, // @obl C05.replace_end_depot.only_end_depot_changes
        r is Ok ==> r->Ok_0.wf(), // @obl C01.replace_end_depot.wf
        r is Ok ==> r->Ok_0.caches_ok(), // @obl C09.replace_end_depot.caches
//@end

// ---- Transition: trusted stub (verified in the transition slice; contract text copied from there) ---
//@item solution/src/transition.rs Transition::get_successor_of : trusted
//@retname r
//@sig
    requires self.wf_cycles(), self.wf_lookup(), self.has_vehicle(vehicle),
    ensures r == self.succ_of(vehicle), // @obl C05.get_successor_of.cyclic_successor
//@end

// ---- Network: depot table look-ups (verified here) ---------------------------------------------------
//@item model/src/network/nodes.rs Node::as_depot
//@retname r
//@sig
    requires self.sp_is_depot(),
    ensures *r == (match self { Node::StartDepot((_, d)) => *d, Node::EndDepot((_, d)) => *d, _ => arbitrary() }),
//@end
//@item model/src/network/nodes.rs DepotNode::depot_idx
//@retname r
//@sig
    ensures r == self.depot_idx,
//@end
//@item model/src/network.rs Network::get_depot_idx
//@retname r
//@sig
    requires self.has(node_idx), self.sp_node(node_idx).sp_is_depot(),
    ensures r == sp_depot_idx(self, node_idx),
//@end
//@item model/src/network.rs Network::get_end_depot_node
//@retname r
//@sig
    requires self.depots@.contains_key(depot_idx),
    ensures r == sp_end_depot_node(self, depot_idx),
//@first
        broadcast use key_axioms::axiom_key_model_depot_idx;
//@end

// ---- Schedule: trusted stubs --------------------------------------------------------------------------
//@item solution/src/schedule.rs Schedule::vehicles_iter_all : trusted
//@ret SeqIter<VehicleIdx>
//@retname r
//@sig
    ensures r@ == sched_vehicles(self),
//@end
//@item solution/src/schedule.rs Schedule::tour_of : trusted
//@retname r
//@sig
    ensures
        self.tours@.contains_key(vehicle) ==> r is Ok && *r->Ok_0 == self.tours@[vehicle],
        !self.tours@.contains_key(vehicle) && self.dummy_tours@.contains_key(vehicle) ==> r is Ok && *r->Ok_0 == self.dummy_tours@[vehicle],
        !self.tours@.contains_key(vehicle) && !self.dummy_tours@.contains_key(vehicle) ==> r is Err,
//@end
//@item solution/src/schedule.rs Schedule::vehicle_type_of : trusted
//@retname r
//@sig
    ensures
        self.vehicles@.contains_key(vehicle) ==> r == Ok::<VehicleTypeIdx, String>(self.type_of(vehicle)),
        !self.vehicles@.contains_key(vehicle) ==> r is Err,
//@end
// the depot bookkeeping and the rotation-cycle update are not under contract here: nothing is known
// about the maps they modify (they get `tours` by shared reference)
//@item solution/src/schedule/modifications.rs Schedule::update_depot_usage : trusted
//@end
//@item solution/src/schedule/modifications.rs Schedule::update_transitions_and_violation_fast : trusted
//@end
//@item solution/src/schedule.rs Schedule::new
//@retname r
//@sig
    ensures
        r.vehicles == vehicles, r.tours == tours, r.next_period_transitions == next_period_transitions,
        r.train_formations == train_formations, r.depot_usage == depot_usage, r.dummy_tours == dummy_tours,
        r.vehicle_counter == vehicle_counter, r.vehicle_ids_grouped_and_sorted == vehicle_ids_grouped_and_sorted,
        r.dummy_ids_sorted == dummy_ids_sorted, r.unserved_passengers == unserved_passengers,
        r.maintenance_violation == maintenance_violation, r.costs == costs, r.network == network,
//@end

// ---- the function under contract ----------------------------------------------------------------------
//@item solution/src/schedule/modifications.rs Schedule::reassign_end_depots_consistent_with_transitions
//@retname r
//@sig
    requires self.sched_ok(),
    ensures
        // C05: "every vehicle ends its day in the depot where its successor in the cycle starts (the
        // sole member of a one-vehicle cycle ends where it starts)"; C13: "depot-only operations
        // change no activity"
        forall|v: VehicleIdx| #[trigger] self.tours@.contains_key(v) ==> self.aligned(v, r.tours@[v]), // @obl C05.reassign.end_depot_is_successors_start_depot
        forall|v: VehicleIdx| #[trigger] self.tours@.contains_key(v) ==>
            sp_depot_idx(&self.network, sp_end_depot(&r.tours@[v])) == sp_depot_idx(&self.network, sp_start_depot(&r.tours@[self.succ_of(v)])), // @obl C05.reassign.ends_in_successors_depot
        r.tours@.dom() == self.tours@.dom()
            && r.dummy_tours@ == self.dummy_tours@ && r.vehicles@ == self.vehicles@ && r.train_formations@ == self.train_formations@
            && r.vehicle_ids_grouped_and_sorted@ == self.vehicle_ids_grouped_and_sorted@ && r.dummy_ids_sorted@ == self.dummy_ids_sorted@
            && r.vehicle_counter == self.vehicle_counter && r.unserved_passengers == self.unserved_passengers && r.network == self.network, // @obl C05.reassign.other_tours_untouched
        // C09: the schedule's costs follow the tours' costs
        r.costs - tours_costs(r.tours@, sched_vehicles(self)) == self.costs - tours_costs(self.tours@, sched_vehicles(self)), // @obl C09.reassign.costs
//@loop "for vehicle in"
            invariant
                self.sched_ok(),
                it.snapshot@@ == sched_vehicles(self),
                0 <= it.index@ <= it.snapshot@@.len(),
                tours@.dom() == self.tours@.dom(),
                forall|j: int| 0 <= j < it.index@ ==> self.aligned(#[trigger] it.snapshot@@[j], tours@[it.snapshot@@[j]]), // @obl C05.reassign.every_visited_vehicle_is_aligned
                forall|j: int| it.index@ <= j < it.snapshot@@.len() ==> tours@[#[trigger] it.snapshot@@[j]] == self.tours@[it.snapshot@@[j]], // @obl C05.reassign.unvisited_tours_untouched
                costs == self.costs - pre_costs(self.tours@, it.snapshot@@, it.index@ as int) + pre_costs(tours@, it.snapshot@@, it.index@ as int), // @obl C09.reassign.costs_follow_the_visited_tours
                costs <= self.costs + it.index@ * leg_cost_bound(),
//@before "let tour ="
            proof {
                let vs = it.snapshot@@;
                let k = it.index@ as int;
                assert(vs.contains(vs[k]));
                lemma_step_ok(self, vehicle);
                lemma_step_ok(self, self.succ_of(vehicle));
                lemma_pre_costs_mono(self.tours@, vs, k + 1, vs.len() as int);
                lemma_pre_costs_mono(tours@, vs, 0, k);
            }
//@before "costs ="
            proof {
                let k = it.index@ as int;
                lemma_end_depot_costs(tour, &new_tour, new_end_depot);
                assert((k + 1) * leg_cost_bound() == k * leg_cost_bound() + leg_cost_bound()) by (nonlinear_arith);
                assert(0 <= k * leg_cost_bound() <= max_vehicles() * leg_cost_bound()) by (nonlinear_arith)
                    requires 0 <= k <= max_vehicles(), leg_cost_bound() >= 0;
            }
//@before "tours.insert"
            let ghost tours_before = tours@;
//@after "tours.insert"
            proof {
                let vs = it.snapshot@@;
                let k = it.index@ as int;
                assert forall|j: int| 0 <= j < k implies tours_before[#[trigger] vs[j]] == tours@[vs[j]] by { assert(vs[j] != vs[k]); }
                lemma_pre_costs_frame(tours_before, tours@, vs, k);
                assert forall|j: int| 0 <= j < k + 1 implies self.aligned(#[trigger] vs[j], tours@[vs[j]]) by {
                    if j < k { assert(vs[j] != vs[k]); }
                }
                assert forall|j: int| k + 1 <= j < vs.len() implies tours@[#[trigger] vs[j]] == self.tours@[vs[j]] by {
                    assert(vs[j] != vs[k]);
                }
                assert(tours@.dom() =~= self.tours@.dom());
            }
//@before "Schedule::new"
        proof {
            let vs = sched_vehicles(self);
            assert forall|v: VehicleIdx| #[trigger] self.tours@.contains_key(v) implies self.aligned(v, tours@[v]) by {
                assert(vs.contains(v));
                let j = choose|j: int| 0 <= j < vs.len() && vs[j] == v;
                assert(self.aligned(vs[j], tours@[vs[j]]));
            }
            assert forall|v: VehicleIdx| #[trigger] self.tours@.contains_key(v) implies
                sp_depot_idx(&self.network, sp_end_depot(&tours@[v])) == sp_depot_idx(&self.network, sp_start_depot(&tours@[self.succ_of(v)])) by {
                lemma_step_ok(self, v);
                assert(self.aligned(v, tours@[v]));
                assert(self.aligned(self.succ_of(v), tours@[self.succ_of(v)]));
            }
        }
//@end

} // mod tr
} // verus!
fn main() {}
