// slice `remove_segment`: Schedule::remove_segment (C13: "Each schedule modification has its documented effect and
// nothing else"), wiring-level proof over the contracts of its callees, verbatim body; plus the helpers
// Schedule::add_dummy_tour and Tour::new_dummy (verified here, verbatim bodies).
//
// Contract of remove_segment(&self, segment, vehicle_idx) (vocabulary in env/remove_segment_shim.vs; t = the provider's
// tour, lo / hi = t.index_of(segment.start / end), removed = t.mid(lo, hi + 1), kept = t.rest(lo, hi + 1) as in the
// contract of Tour::remove):
//   * Err IFF the vehicle is not a real vehicle, or Tour::remove refuses (C12: segment not in the tour, would strand a
//     depot, would leave an unconnectable gap), or (D11) `removed` holds a service trip -- a new dummy tour is needed -- and
//     all 2^16 ids have been handed out (vehicle_counter > 0xffff; id_left);
//   * the case split is deterministic (Tour::remove returns no tour iff nothing but depots would be left,
//     C13.remove.no_tour_iff_no_activity_left): whole_tour <=> kept.len() <= 2;
//   * WHOLE-TOUR CASE ("If the segment contains all non-depot nodes of the tour, the vehicle is replaced by a dummy"): the
//     result is the one of replace_vehicle_by_dummy, whose verified contract (slices/dummy_ops.vs) is stubbed here with the
//     same text: vehicle_gone (no vehicle / tour under the id, exactly one occurrence of the id leaves the sorted id list of
//     its type, which stays sorted), trips_in_new_dummy / no_new_dummy (ONE new dummy tour under the unused id
//     Dummy(vehicle_counter) holds exactly the service trips of the tour in order; none without a service trip),
//     others_untouched (vehicles - v, tours - v as map equalities; the id lists of the other types, every dummy tour that was
//     there, the network), costs = old - old tour;
//   * PARTIAL CASE (3 or more nodes kept): vehicle set / grouped id lists / network unchanged; tours[v].nodes == kept (real,
//     well-formed, caches exact); every other key of `tours` keeps its tour, same key set; costs = old - old tour + new tour;
//   * BOTH CASES (in the whole-tour case derived from the callee's contract, which speaks about the nodes of the whole tour =
//     `removed` with at most the two depots around it: lemma_whole_tour_case): if `removed` contains a service trip, a NEW
//     dummy tour under VehicleIdx::Dummy(self.vehicle_counter as Idx) (an id not in use) holds exactly the service trips of
//     `removed` in order, all other dummy tours are untouched, the sorted id list gains exactly that id and stays sorted, and
//     the counter advances by one (fresh_dummy_id); without a service trip dummy tours, id list and counter are unchanged;
//     formations: same key set, only the removed activities change, there the provider leaves (order kept);
//     unserved passengers: exact delta over `removed`; depot usage exact for the new maps; rotation cycles consistent with the
//     new vehicles / tours, membership, violation sum, other types untouched; ids_ok preserved.
//
// ASSUMPTIONS introduced by this slice (env/remove_segment_shim.vs unless said otherwise):
//   A-std7   <[T]>::binary_search (result on a slice sorted w.r.t. Ord::cmp, transcribed from the std documentation),
//            Result::unwrap_or_else                                                      -- assume_specification
//   A-derive derived PartialOrd / Ord of VehicleIdx: variant order, then the index (vidx_rank)  -- *SpecImpl
//   A-display `{}` of Segment has no precondition (no-op Display impl below)              -- DisplaySpecImpl
//   A-iter   Path::iter yields the node sequence (SeqIter, as in the other slices; R7b)
//   stubs with the contract text of the slice that verifies them (R7a; `python3 tools/stub_sync.py slices/remove_segment.vs`
//            reports 0 differences): Tour::remove, Tour::new_computing (tour_mod),
//            Schedule::update_tour_and_costs, Schedule::update_depot_usage (depot_usage),
//            Schedule::update_transitions_and_violation_fast (sched_guard),
//            Schedule::update_train_formation (train_formation_update; R12 parameter type SeqIter<NodeIdx>),
//            Schedule::replace_vehicle_by_dummy (dummy_ops; NO LONGER an uninterpreted stub: the former A-stub
//            `r == spec_replace_by_dummy(self, v)` is gone.  Its vocabulary -- listed_ok, needs_dummy, rd_id_left, vehicle_gone,
//            trips_in_new_dummy, no_new_dummy, others_untouched, rd_formations_follow, rd_unserved_follow, rd_transitions_follow,
//            ids_lose, Schedule::listing -- is copied, text unchanged, from env/dummy_ops_shim.vs / env/spawn_vehicle_shim.vs
//            into env/remove_segment_shim.vs: open spec functions only, no assumption; see the header of that file.)
//   plus the shared ones: env/im_shim.vs (im::HashMap / Vec::retain), env/schedule_shim.vs (im::HashSet, sched_vehicles),
//            env/seqiter.vs, env/model_fns.vs / time_ops.vs / dist_ops.vs included trusted, key model of the index types.
//
// PRECONDITIONS (caller side):
//   rs_ok          sched_ok (env/schedule_shim.vs) + ids_ok (vehicles stored under their own `Vehicle` id and have a tour,
//                  dummy ids are `Dummy` ids below the counter, sorted id list) + formations_ok (every activity has a
//                  formation; it lists the vehicles whose tours contain the node) + transitions_ok (the old-schedule
//                  clauses of upd_pre, fewer than 2^17 vehicles) + usage_exact
//   segment ends are nodes of the network
//   A-counter      shrunk_counter_ok: the maintenance counter of the shrunk tour is small (tour_counter is an
//                  uninterpreted atom of env/transition_spec.vs, so the magnitude cannot be derived here); vacuous in the
//                  whole-tour case (no tour of fewer than 3 nodes is a real tour)
//   tfu_pre        the precondition of update_train_formation for the removed nodes (u32 magnitudes, the trips' vehicle
//                  types, C09 for the unserved-passenger pair); required as is, not derived from rs_ok.  In the whole-tour
//                  case replace_vehicle_by_dummy needs it for the nodes of the WHOLE tour: derived from the one for the
//                  removed nodes (lemma_tfu_pre_around: depots have no formation and no passengers), NOT a new precondition
//   listed_ok      WHOLE-TOUR CASE ONLY (guarded by removes && whole_tour), NEW: the precondition of replace_vehicle_by_dummy,
//                  C10 "vehicle … listings are sorted and match the stored tours" for the vehicle that goes: its type has an id
//                  list, sorted, holding the id.  Not derivable from rs_ok (sched_ok says that the listing sched_vehicles -- the
//                  grouped id lists of the network's types, concatenated -- holds exactly the vehicles with a tour, once each; not
//                  that a vehicle is in the list of ITS type, nor that the lists are sorted)
//   (no precondition on the counter: D11 is fixed in /repo, the operation refuses when an id is needed and none is left)
//
// CLOSURE (the induction step of C10 "after any sequence of schedule modifications" and C09 / C11 "for every reachable schedule /
//   candidate"; obligations `C10.remove_segment.result_satisfies_the_schedule_invariants_again`): on Ok the result satisfies the
//   schedule-invariant bundle rs_ok AGAIN, both cases (partial / whole-tour), conjunct by conjunct, proved from the effect clauses of
//   this contract (bundled as rs_effect) by the lemmas of block CLOSURE in env/remove_segment_shim.vs (lemma_closure_*); in the
//   whole-tour case from the effect clauses of the stub of replace_vehicle_by_dummy, not from closure clauses of that stub.
//   "Schedule invariant" = rs_ok (sched_ok, ids_ok, formations_ok, transitions_ok, usage_exact).  "About the arguments" (not a
//   target): network.has(segment ends), shrunk_counter_ok (A-counter: the shrunk tour), tfu_pre for the removed nodes, listed_ok
//   for the vehicle that goes.
//     proved, no extra hypothesis:  so_network (network wf, depots_ok; the network is the same), so_vehicles (every stored tour is
//        the valid tour of a real vehicle whose type's cycle structure is consistent and holds it), ids_ok, formations_ok,
//        transitions_ok (including the magnitude "fewer than 2^17 vehicles in the cycles": no vehicle is added, lemma_total_len_le
//        counts the vehicles of a cycle structure), usage_exact w.r.t. the result's own network; plus listings_kept (not a conjunct
//        of rs_ok: every vehicle that stays and satisfied listed_ok still does -- the whole-tour-case precondition of the NEXT call)
//     proved, no extra hypothesis EITHER (the former premise A-listing is DISCHARGED):  listing_exact(result) -- the listing of the
//        result is duplicate-free and lists exactly the vehicles with a tour, the two conjuncts of sched_ok that say what the listing
//        is --, at most 2^17 listed vehicles, and C09 tours_costs(result) <= result.costs (so_listing, so_costs_cover; sums over
//        duplicate-free listings are order independent: lemma_pre_costs_perm).  sched_vehicles is DEFINED now (env/schedule_shim.vs:
//        listing_of(vehicle types of the network, grouped id lists), the id lists concatenated in type order), so the listing of the
//        result follows the grouped id lists, whose change is an effect clause: listing_follows -- listing unchanged in the partial
//        case (same network, same lists: lemma_sched_vehicles_frame) / one occurrence of the id taken out in the whole-tour case
//        (the list of the provider's type loses it, the other lists are the same: lemma_listing_lose; the type is listed exactly
//        once: it has a rotation-cycle structure (vehicle_ok) and transitions_ok -- part of rs_ok -- says that the structures'
//        keys are the listed types and that the type list is duplicate-free) -- is PROVED (lemma_listing_follows_holds), and the
//        listing of `self` was exact (sched_ok): lemma_listing_follows
//     magnitude costs <= 2^61 (so_costs_small):  an invariant of the whole-tour case (the costs shrink by the tour's costs) and of
//        the partial case when the shrunk tour does not cost more than the old one; otherwise NOT an invariant of the operation
//        (closing the gap may cost more than the removed legs; no triangle inequality) -- there it is the premise
//        `result.costs <= sched_cost_bound()`
//     rs_ok(result) as the next modification requires it:  under `result.costs <= sched_cost_bound()` only (no premise in the
//        whole-tour case)
//   add_dummy_tour: its only schedule invariant (sorted id list) is re-established (C10.add_dummy_tour.…); Tour::new_dummy,
//   next_free_idx, the small getters: no schedule invariant among their preconditions.
//
// NOT covered: costs <= 2^61 in the partial case (premise; the ONLY premise of the closure of rs_ok that is left);
//   closure of the caller-side preconditions that are not part of rs_ok (tfu_pre's C09 clause for the unserved-passenger pair,
//   A-counter); listed_ok for every vehicle is preserved (listings_kept) but not established; connectedness of the new dummy tour
//   (A-path / D9); that the callers establish listed_ok in the whole-tour case; the error messages.
//   The stub of replace_vehicle_by_dummy carries the contract text of slices/dummy_ops.vs WITHOUT the closure clauses that slice
//   gained in parallel (a subset of its ensures, same requires: sound; stub_sync reports the difference); they are not needed here.
//   slices/swaps.vs / swaps_sem.vs stub remove_segment without the unconditional closure clauses added here (merely weaker: the stub of
//   swaps_sem carries the former premised forms `.. && listing_exact(result) ==> ..`, which are kept in the contract below -- implied
//   by the unconditional ones -- until that stub has been synced).
#![feature(allocator_api)]
use vstd::prelude::*;
use std::ops::Add;
use std::ops::Sub;
use std::collections::{BTreeMap, HashMap};
use std::sync::Arc;
//@include env/display_time.rs
//@include env/display_model.rs
impl std::fmt::Display for Segment { fn fmt(&self, _f: &mut std::fmt::Formatter) -> std::fmt::Result { Ok(()) } }
verus! {
//@include env/std_specs.vs
//@include env/seqiter.vs
//@include env/time_types.vs
//@include-trusted env/time_ops.vs
//@include env/model_types.vs
//@include env/broadcast_model.vs
//@include env/model_network_types.vs
//@include env/model_spec.vs
//@include-trusted env/model_fns.vs
//@include env/solution_types.vs
//@include env/tour_spec.vs
//@include env/sums.vs
//@include-trusted env/dist_ops.vs
//@include env/vsum_impls.vs
//@include env/cache_spec.vs
//@include-proved env/cache_lemmas.vs

pub mod tr {
use super::*;
use vstd::prelude::*;
use self::im::HashMap;
use self::im_set::HashSet;
//@include env/im_shim.vs

//@item solution/src/transition.rs type CycleIdx : plain
//@end
//@item solution/src/transition/transition_cycle.rs struct TransitionCycle : plain
//@drop-derive Clone
//@end
impl Clone for TransitionCycle {
    #[verifier::external_body]
    fn clone(&self) -> (r: Self)
        ensures r == *self
    { unimplemented!() }
}
//@item solution/src/transition.rs struct Transition : plain
//@end
//@include env/transition_spec.vs
//@include env/schedule_shim.vs
//@include env/sched_guard_shim.vs
//@include env/remove_segment_shim.vs
// the vocabulary and lemmas of slice `train_formation_update` (in a module of its own: its `max0` has the same
// name as the one of env/transition_spec.vs)
pub mod tfu {
use super::*;
use vstd::prelude::*;
//@include env/train_formation_update_shim.vs
} // mod tfu
use self::tfu::*;

// ---- small functions verified here (verbatim bodies) ---------------------------------------------------
//@item model/src/base_types.rs VehicleIdx::dummy_from
//@retname r
//@sig
    ensures r == VehicleIdx::Dummy(idx),
//@end
//@item solution/src/schedule.rs Schedule::is_vehicle
//@retname r
//@sig
    ensures r == self.vehicles@.contains_key(vehicle),
//@end
//@item solution/src/schedule.rs Schedule::tour_of
//@retname r
//@sig
    ensures
        self.has_tour(vehicle) ==> r is Ok && *r->Ok_0 == self.sp_tour_of(vehicle),
        !self.has_tour(vehicle) ==> r is Err,
//@end
//@item solution/src/schedule.rs Schedule::new
//@retname r
//@sig
    ensures
        r.vehicles == vehicles, r.tours == tours, r.next_period_transitions == next_period_transitions,
        r.train_formations == train_formations, r.depot_usage == depot_usage, r.dummy_tours == dummy_tours,
        r.vehicle_counter == vehicle_counter, r.vehicle_ids_grouped_and_sorted == vehicle_ids_grouped_and_sorted,
        r.dummy_ids_sorted == dummy_ids_sorted, r.unserved_passengers == unserved_passengers,
        r.maintenance_violation == maintenance_violation, r.costs == costs, r.network == network,
//@end

// ---- Tour / Path: trusted stubs (verified in the tour slices; contract text copied from there) ------
//@item solution/src/path.rs Path::iter : trusted
//@ret SeqIter<NodeIdx>
//@retname r
//@sig
    ensures r@ == self.node_sequence@,
//@end
//@item solution/src/tour/modifications.rs Tour::remove : trusted
//@retname r
//@sig
    requires self.wf(), self.caches_ok(), self.network.has(segment.start), self.network.has(segment.end), tour_len_ok(self.nodes@),
    ensures
        // C12: "Removing a segment yields the tour without exactly those nodes, is refused when it
        // would strand a depot or leave an unconnectable gap"
        r is Ok <==> self.has_node(segment.start) && self.has_node(segment.end)
            && self.removable(self.index_of(segment.start), self.index_of(segment.end)), // @obl C12.remove.refusal
        r is Ok ==> r->Ok_0.1.node_sequence@ == self.mid(self.index_of(segment.start), self.index_of(segment.end) + 1)
            && (r->Ok_0.0 is Some ==> r->Ok_0.0->Some_0.nodes@ == self.rest(self.index_of(segment.start), self.index_of(segment.end) + 1)), // @obl C12.remove.exactly_those_nodes
        r is Ok && r->Ok_0.0 is Some ==> r->Ok_0.0->Some_0.is_dummy == self.is_dummy && r->Ok_0.0->Some_0.network == self.network
            && r->Ok_0.0->Some_0.wf(), // @obl C01.remove.wf
        r is Ok && r->Ok_0.0 is Some ==> r->Ok_0.0->Some_0.caches_ok(), // @obl C09.remove.caches
        // C13: "a vehicle left without activities disappears": no tour is returned exactly when nothing (dummy) resp.
        // nothing but the two depots (real vehicle) would be left
        r is Ok ==> (r->Ok_0.0 is None <==> (if self.is_dummy { self.rest(self.index_of(segment.start), self.index_of(segment.end) + 1).len() == 0 }
            else { self.rest(self.index_of(segment.start), self.index_of(segment.end) + 1).len() <= 2 })), // @obl C13.remove.no_tour_iff_no_activity_left
        r is Ok ==> r->Ok_0.1.network == self.network,
//@end
// ---- Tour::new_dummy: verified here (verbatim body); Tour::new_computing is verified in slice tour_mod ----
//@item solution/src/path.rs Path::consume
//@retname r
//@sig
    ensures r@ == self.node_sequence@,
//@end
//@item solution/src/tour.rs Tour::new_computing : trusted
//@retname r
//@sig
    requires network.wf(), all_in_net(&network, nodes@), len_ok(nodes@),
    ensures r.nodes@ == nodes@, r.is_dummy == is_dummy, r.network == network,
        r.caches_ok(), // @obl C09.new_computing.caches
//@end
// Nothing is claimed about the dummy tour being connected (A-path / D9: dropping the non-service nodes of a
// path keeps it connected only under a triangle inequality of the network).
//@item solution/src/tour.rs Tour::new_dummy
//@retname r
//@sig
    requires network.wf(), all_in_net(&network, path.node_sequence@), len_ok(path.node_sequence@),
    ensures
        // "Dummy tour needs to have at least one service nodes."
        r is Ok <==> has_service(&network, path.node_sequence@), // @obl C13.new_dummy.ok_iff_some_service_trip
        // C13: "removed service trips are handed back": exactly the service trips of the path, in order
        r is Ok ==> r->Ok_0.nodes@ == svc_filter(&network, path.node_sequence@) && r->Ok_0.is_dummy && r->Ok_0.network == network, // @obl C13.new_dummy.exactly_the_service_trips_in_order
        r is Ok ==> r->Ok_0.caches_ok(), // @obl C09.new_dummy.caches
//@closure-params retain#0
    &NodeIdx
//@closure retain#0
    -> (b: bool) requires network.has(*p0) ensures b == (network.sp_node(*p0) is Service)
//@first
        let ghost s0 = path.node_sequence@;
//@after "nodes.retain"
        proof { lemma_svc_filter(&network, s0, nodes@); }
//@end

// ---- Schedule: trusted stubs ----------------------------------------------------------------------------
// verified in slice dummy_ops; contract text copied from there (vocabulary: block "Schedule::replace_vehicle_by_dummy"
// of env/remove_segment_shim.vs).
// The whole-tour case of remove_segment delegates to it.
//@item solution/src/schedule/modifications.rs Schedule::replace_vehicle_by_dummy : trusted
//@retname r
//@sig
    requires
        self.rs_ok(),
        // C10 listings, as far as the body needs them (`[&vehicle_type_id]`, `binary_search(..).unwrap()`)
        self.vehicles@.contains_key(vehicle_idx) ==> self.listed_ok(vehicle_idx),
        // caller-side: the precondition of the formation bookkeeping for the nodes of the tour (u32 magnitudes of the
        // formations' capacities, the trips' vehicle types are types of the network, and C09 for the
        // unserved-passenger pair: it covers the tour's contribution) -- not derived from rs_ok
        self.vehicles@.contains_key(vehicle_idx) ==> self.tfu_pre(self.train_formations@, self.unserved_passengers,
            Some(vehicle_idx), None::<Vehicle>, self.tours@[vehicle_idx].nodes@),
    ensures
        // "# Errors: If the vehicle is not a real vehicle an error is returned." -- and in no other case ...
        !self.vehicles@.contains_key(vehicle_idx) ==> r is Err, // @obl C13.replace_by_dummy.err_iff_not_a_real_vehicle
        self.vehicles@.contains_key(vehicle_idx) && self.rd_id_left(vehicle_idx) ==> r is Ok, // @obl C13.replace_by_dummy.err_iff_not_a_real_vehicle
        // ... but D11: ids are 16 bit and never reused: when all 2^16 have been handed out and the trips of the tour need a
        // new dummy tour, the modification is refused (the unfixed code wrapped around and overwrote the tour under id 0)
        self.vehicles@.contains_key(vehicle_idx) && !self.rd_id_left(vehicle_idx) ==> r is Err, // @obl C13.replace_by_dummy.refuses_instead_of_reusing_an_id
        // C13 "a vehicle left without activities disappears … service trips are handed back (… in a new dummy tour)"
        r is Ok ==> self.vehicle_gone(vehicle_idx, &r->Ok_0), // @obl C13.replace_by_dummy.vehicle_disappears_trips_go_to_one_new_dummy
        r is Ok && self.needs_dummy(vehicle_idx) ==> self.trips_in_new_dummy(vehicle_idx, &r->Ok_0), // @obl C13.replace_by_dummy.vehicle_disappears_trips_go_to_one_new_dummy
        r is Ok && !self.needs_dummy(vehicle_idx) ==> self.no_new_dummy(&r->Ok_0), // @obl C13.replace_by_dummy.vehicle_disappears_trips_go_to_one_new_dummy
        // C13 "all other vehicles' tours … stay untouched"
        r is Ok ==> self.others_untouched(vehicle_idx, &r->Ok_0), // @obl C13.replace_by_dummy.everything_else_untouched
        // C13 "formations elsewhere … stay untouched": the vehicle leaves the formation of every activity of its tour
        r is Ok ==> self.rd_formations_follow(vehicle_idx, &r->Ok_0), // @obl C13.replace_by_dummy.formations_follow_update_train_formation
        // C09 "cached aggregates equal recomputation"
        r is Ok ==> self.rd_unserved_follow(vehicle_idx, &r->Ok_0), // @obl C09.replace_by_dummy.unserved_passengers_delta_exact
        r is Ok ==> r->Ok_0.costs == self.costs - self.tours@[vehicle_idx].costs, // @obl C09.replace_by_dummy.costs_minus_tour_costs
        r is Ok ==> usage_exact_for(r->Ok_0.depot_usage@, &self.network, r->Ok_0.vehicles@, r->Ok_0.tours@, vehicle_idx)
            && usage_same_except(self.depot_usage@, r->Ok_0.depot_usage@, vehicle_idx)
            && usage_exact(r->Ok_0.depot_usage@, &self.network, r->Ok_0.vehicles@, r->Ok_0.tours@), // @obl C09.replace_by_dummy.depot_usage_exact
        // C15 / C10 / C09: rotation cycles and maintenance violation
        r is Ok ==> self.rd_transitions_follow(vehicle_idx, &r->Ok_0), // @obl C10.replace_by_dummy.transitions_follow
        // C10: the ids stay valid (in particular every dummy id is below the counter: the next id is fresh again)
        r is Ok ==> r->Ok_0.ids_ok(), // @obl C10.replace_by_dummy.ids_stay_valid
//@end
// verified in slice train_formation_update; contract text copied from there (R12: the parameter
// `moved_nodes: impl Iterator<Item = NodeIdx>` is retyped to the shim iterator SeqIter<NodeIdx>)
//@item solution/src/schedule/modifications.rs Schedule::update_train_formation : trusted
//@param-type moved_nodes SeqIter<NodeIdx>
//@retname r
//@sig
    requires
        self.tfu_pre(old(train_formations)@, *old(unserved_passengers), provider, receiver_vehicle, moved_nodes@),
    ensures
        // C13: "Each schedule modification has its documented effect and nothing else … formations elsewhere … stay untouched"
        r is Ok ==> self.formations_elsewhere_untouched(moved_nodes@, old(train_formations)@, final(train_formations)@), // @obl C13.update_train_formation.formations_elsewhere_untouched
        // C13: "In a formation a replacing vehicle takes the replaced one's position, additions go to the tail and
        // removals keep the order": every moved non-depot node gets the replacement of its OLD formation
        r is Ok ==> self.moved_get_replacement(moved_nodes@, old(train_formations)@, final(train_formations)@, provider, receiver_vehicle), // @obl C13.update_train_formation.moved_nodes_get_the_replacement
        // C02 / C10: "formation, track and depot limits hold"
        r is Ok ==> self.grown_within_limits(moved_nodes@, final(train_formations)@, provider, receiver_vehicle), // @obl C02.update_train_formation.grown_formations_within_limits
        // C09: "cached aggregates equal recomputation": the delta is exact
        r is Ok ==> final(unserved_passengers).0 == old(unserved_passengers).0
            - self.un_sum(old(train_formations)@, provider, receiver_vehicle, moved_nodes@, moved_nodes@.len() as int, false, 0)
            + self.un_sum(old(train_formations)@, provider, receiver_vehicle, moved_nodes@, moved_nodes@.len() as int, true, 0)
          && final(unserved_passengers).1 == old(unserved_passengers).1
            - self.un_sum(old(train_formations)@, provider, receiver_vehicle, moved_nodes@, moved_nodes@.len() as int, false, 1)
            + self.un_sum(old(train_formations)@, provider, receiver_vehicle, moved_nodes@, moved_nodes@.len() as int, true, 1), // @obl C09.update_train_formation.unserved_passengers_delta_exact
        // the modification is refused iff the replacement fails for some moved non-depot node
        r is Ok <==> self.all_ok(old(train_formations)@, provider, receiver_vehicle, moved_nodes@, moved_nodes@.len() as int), // @obl C13.update_train_formation.refused_iff_a_replacement_fails
//@end
// verified in slice depot_usage; contract text copied from there
//@item solution/src/schedule/modifications.rs Schedule::update_tour_and_costs : trusted
//@sig
    requires
        // a vehicle that is not a dummy of `self` must have a tour in `tours` (`tours.get(&vehicle).unwrap()`)
        !self.sp_is_dummy(vehicle) ==> old(tours)@.contains_key(vehicle),
        // `(*costs + new) - old` in u64: no overflow, no underflow.  The second bound follows from
        // `costs >= old tour's costs`, which is C09 for the schedule under construction (its costs are the
        // sum of its tours' costs plus non-negative terms, see `sched_ok` in env/schedule_shim.vs)
        !self.sp_is_dummy(vehicle) ==> *old(costs) + new_tour.costs <= u64::MAX
            && old(tours)@[vehicle].costs <= *old(costs) + new_tour.costs,
    ensures
        !self.sp_is_dummy(vehicle) ==> final(tours)@ == old(tours)@.insert(vehicle, new_tour)
            && final(dummy_tours)@ == old(dummy_tours)@, // @obl C09.update_tour_and_costs.real_tour_replaced
        !self.sp_is_dummy(vehicle) ==> *final(costs) == *old(costs) + new_tour.costs - old(tours)@[vehicle].costs, // @obl C09.update_tour_and_costs.costs_follow_tour
        self.sp_is_dummy(vehicle) ==> final(dummy_tours)@ == old(dummy_tours)@.insert(vehicle, new_tour)
            && final(tours)@ == old(tours)@ && *final(costs) == *old(costs), // @obl C09.update_tour_and_costs.dummy_costs_nothing
//@end
//@item solution/src/schedule/modifications.rs Schedule::update_depot_usage : trusted
//@sig
    requires
        // part of C10 for the old schedule and for the new maps: a vehicle is stored under its own id, a
        // real vehicle has a real tour, and an id keeps its vehicle type
        self.sp_is_vehicle(vehicle_idx) ==> self.vehicles@[vehicle_idx].idx == vehicle_idx && self.real_tour_ok(vehicle_idx),
        vehicles@.contains_key(vehicle_idx) ==> vehicles@[vehicle_idx].idx == vehicle_idx,
        vehicles@.contains_key(vehicle_idx) && tours@.contains_key(vehicle_idx) ==> tour_of_net(&self.network, &tours@[vehicle_idx]),
        vehicles@.contains_key(vehicle_idx) && self.sp_is_vehicle(vehicle_idx) ==>
            vehicles@[vehicle_idx].vehicle_type.idx == self.vehicles@[vehicle_idx].vehicle_type.idx,
        // C09 before the step: the table is exact for this vehicle in the OLD schedule (`self`); in
        // particular this bookkeeping step runs once per vehicle and modification
        usage_exact_for(old(depot_usage)@, &self.network, self.vehicles@, self.tours@, vehicle_idx),
    ensures
        usage_exact_for(final(depot_usage)@, &self.network, vehicles@, tours@, vehicle_idx), // @obl C09.depot_usage.exact_for_vehicle_in_new_schedule
        usage_same_except(old(depot_usage)@, final(depot_usage)@, vehicle_idx), // @obl C09.depot_usage.other_vehicles_untouched
//@end
// verified in slice sched_guard; contract text copied from there
//@item solution/src/schedule/modifications.rs Schedule::update_transitions_and_violation_fast : trusted
//@sig
    requires
        // the old schedule is consistent (C15, C10, C09), no real vehicle is listed twice, every listed real
        // vehicle is an old and / or a new vehicle with an admissible new tour, magnitudes: see upd_pre
        self.upd_pre(old(transitions)@, *old(maintenance_violation) as int, changed_vehicles@, vehicles@, tours@),
        // (clause of upd_pre, repeated: the caller-side assumption the transition slice names) no real vehicle
        // is listed twice: update_vehicle / remove_vehicle read the previous tour of the vehicle from self.tours
        forall|i: int, j: int| 0 <= i < j < changed_vehicles@.len() && changed_vehicles@[i] is Vehicle
            ==> #[trigger] changed_vehicles@[i] != #[trigger] changed_vehicles@[j],
    ensures
        forall|vt: VehicleTypeIdx| old(transitions)@.contains_key(vt) <==> #[trigger] final(transitions)@.contains_key(vt),
        // C15 / C10: every transition is consistent with the NEW tours ...
        forall|vt: VehicleTypeIdx| #[trigger] final(transitions)@.contains_key(vt) ==> final(transitions)@[vt].wf(&self.network, tours@), // @obl C10.update_transitions.consistent_with_new_tours
        // ... and its cycles hold exactly the NEW vehicles of its type ("every real vehicle belongs to
        // exactly one rotation cycle of its type": one cycle by wf_cycles / wf_lookup)
        forall|vt: VehicleTypeIdx, v: VehicleIdx| #![trigger final(transitions)@[vt].has_vehicle(v)] final(transitions)@.contains_key(vt)
            ==> (final(transitions)@[vt].has_vehicle(v) <==> (vehicles@.contains_key(v) && vtype(vehicles@[v]) == vt)), // @obl C10.update_transitions.membership
        // C09: "the schedule's maintenance violation equals its from-scratch value"
        *final(maintenance_violation) == viol_sum(final(transitions)@, sched_types(self)), // @obl C09.update_transitions.violation_sum
        // the transitions of the other types are untouched
        forall|vt: VehicleTypeIdx| #[trigger] final(transitions)@.contains_key(vt) && !self.touches_type(vehicles@, changed_vehicles@, vt)
            ==> final(transitions)@[vt] == old(transitions)@[vt], // @obl C10.update_transitions.other_types_untouched
//@end

// ---- the new dummy tour enters the map and the sorted id list -------------------------------------------
//@item solution/src/schedule/modifications.rs Schedule::add_dummy_tour
//@sig
    requires
        // `binary_search` is meaningful on a sorted list only
        sorted_cmp(old(dummy_ids_sorted)@),
    ensures
        final(dummy_tours)@ == old(dummy_tours)@.insert(new_dummy_idx, new_dummy_tour), // @obl C13.add_dummy_tour.tour_stored_under_id
        ids_gain(old(dummy_ids_sorted)@, final(dummy_ids_sorted)@, new_dummy_idx), // @obl C13.add_dummy_tour.id_list_gains_exactly_id
        sorted_cmp(final(dummy_ids_sorted)@), // @obl C13.add_dummy_tour.id_list_stays_sorted
        // CLOSURE: the only schedule invariant among the preconditions (the id list is sorted) holds again
        sorted_cmp(final(dummy_ids_sorted)@), // @obl C10.add_dummy_tour.result_satisfies_the_schedule_invariants_again
//@closure unwrap_or_else#0
    -> (q: usize) ensures q == e
//@first
        proof {
            let s = dummy_ids_sorted@;
            assert forall|r: Result<usize, usize>| #[trigger] bsearch_post(s, new_dummy_idx, r)
                implies 0 <= bs_pos(r) <= s.len() && sorted_cmp(s.insert(bs_pos(r), new_dummy_idx)) by {
                lemma_sorted_insert(s, new_dummy_idx, r);
            }
        }
//@end

// ---- the function under contract ----------------------------------------------------------------------
// D11 (fixed in /repo): the index of the next vehicle or dummy; refuses when all 2^16 indices have been handed out.
// `//@item?`: on a tree without this function (the unfixed code casts `self.vehicle_counter as Idx`) the item is skipped
// and the obligations fresh_dummy_id / ids_stay_valid / refuses_instead_of_reusing_an_id of remove_segment fail.
//@item? solution/src/schedule/modifications.rs Schedule::next_free_idx
//@retname r
//@fmt-nonempty
//@sig
    ensures
        vehicle_counter <= 0xffff ==> r == Ok::<Idx, String>(vehicle_counter as u16),
        vehicle_counter > 0xffff ==> r is Err, // @obl C13.next_free_idx.refuses_when_all_indices_are_used
//@end

//@item solution/src/schedule/modifications.rs Schedule::remove_segment
//@retname r
//@sig
    requires
        self.rs_ok(),
        // the segment's ends are nodes of the network
        self.network.has(segment.start), self.network.has(segment.end),
        // A-counter (magnitude)
        self.shrunk_counter_ok(segment, vehicle_idx),
        // caller-side: the precondition of the formation bookkeeping for the removed nodes (u32 magnitudes of the
        // formations' capacities, the trips' vehicle types are types of the network, and C09 for the
        // unserved-passenger pair: it covers the removed nodes' contribution) -- not derived from rs_ok
        self.removes(segment, vehicle_idx) ==> self.tfu_pre(self.train_formations@, self.unserved_passengers,
            Some(vehicle_idx), None::<Vehicle>, self.removed_nodes(segment, vehicle_idx)),
        // WHOLE-TOUR CASE ONLY: the precondition `listed_ok` of replace_vehicle_by_dummy -- C10 "vehicle … listings are sorted
        // and match the stored tours", as far as that body needs it for the vehicle that goes: its type has an id list
        // (`vehicle_ids_grouped_and_sorted[&vehicle_type_id]`), which is sorted and holds the id (`binary_search(..).unwrap()`).
        // Not derivable from rs_ok (sched_ok says that the concatenation of the grouped id lists holds exactly the vehicles with a
        // tour, once each -- not that a vehicle is in the list of ITS type, nor that the lists are sorted).  (The other precondition of replace_vehicle_by_dummy, tfu_pre for the nodes of the WHOLE tour -- C09 for the
        // unserved-passenger pair --, IS derived: lemma_whole_tour_case, from tfu_pre for the removed nodes above.)
        self.removes(segment, vehicle_idx) && self.whole_tour(segment, vehicle_idx) ==> self.listed_ok(vehicle_idx),
    ensures
        // "# Errors: If the vehicle is not a real vehicle an error is returned."; Tour::remove refuses (C12)
        !self.vehicles@.contains_key(vehicle_idx) ==> r is Err, // @obl C13.remove_segment.err_not_real_vehicle
        self.vehicles@.contains_key(vehicle_idx) && !self.seg_removable(segment, vehicle_idx) ==> r is Err, // @obl C13.remove_segment.err_tour_refuses
        // otherwise the operation succeeds (in both cases: whether the provider keeps a tour or is replaced by a dummy) ...
        self.removes(segment, vehicle_idx) && self.id_left(segment, vehicle_idx) ==> r is Ok, // @obl C13.remove_segment.ok_when_tour_accepts
        // ... except D11: ids are 16 bit and never reused: when all 2^16 have been handed out and the removed trips would need a new
        // dummy tour, the modification is refused (the unfixed code wrapped around and overwrote the tour stored under id 0)
        self.removes(segment, vehicle_idx) && !self.id_left(segment, vehicle_idx) ==> r is Err, // @obl C13.remove_segment.refuses_instead_of_reusing_an_id

        // ---- WHOLE-TOUR CASE: "If the segment contains all non-depot nodes of the tour, the vehicle is replaced by a dummy." --
        // (whole_tour: at most the two depots would be kept.)  The effect is the one of replace_vehicle_by_dummy (its contract,
        // slices/dummy_ops.vs).  C13 "a vehicle left without activities disappears … removed service trips are handed back (… in
        // a new dummy tour)": no vehicle / tour under the id, one occurrence of the id leaves the sorted id list of its type,
        // which stays sorted; ONE new dummy tour under the unused id Dummy(vehicle_counter) holds exactly the service trips of
        // the tour, in order (none if it serves no service trip)
        self.removes(segment, vehicle_idx) && self.whole_tour(segment, vehicle_idx) && r is Ok ==>
            self.vehicle_gone(vehicle_idx, &r->Ok_0), // @obl C13.remove_segment.whole_tour_vehicle_disappears_trips_go_to_one_new_dummy
        self.removes(segment, vehicle_idx) && self.whole_tour(segment, vehicle_idx) && r is Ok && self.needs_dummy(vehicle_idx) ==>
            self.trips_in_new_dummy(vehicle_idx, &r->Ok_0), // @obl C13.remove_segment.whole_tour_vehicle_disappears_trips_go_to_one_new_dummy
        self.removes(segment, vehicle_idx) && self.whole_tour(segment, vehicle_idx) && r is Ok && !self.needs_dummy(vehicle_idx) ==>
            self.no_new_dummy(&r->Ok_0), // @obl C13.remove_segment.whole_tour_vehicle_disappears_trips_go_to_one_new_dummy
        // (the tour is the removed block with at most its two depots around it: it holds a service trip iff the block does, and
        // its service trips are those of the block -- see the clauses for both cases below)
        self.removes(segment, vehicle_idx) && self.whole_tour(segment, vehicle_idx) ==>
            self.needs_dummy(vehicle_idx) == has_service(&self.network, self.removed_nodes(segment, vehicle_idx)),
        // every other vehicle / tour (map equalities: vehicles - v, tours - v), the id lists of the other types, every dummy
        // tour that was there, the network
        self.removes(segment, vehicle_idx) && self.whole_tour(segment, vehicle_idx) && r is Ok ==>
            self.others_untouched(vehicle_idx, &r->Ok_0), // @obl C13.remove_segment.other_tours_untouched
        // C09: costs
        self.removes(segment, vehicle_idx) && self.whole_tour(segment, vehicle_idx) && r is Ok ==>
            r->Ok_0.costs == self.costs - self.tours@[vehicle_idx].costs, // @obl C09.remove_segment.costs_follow_tour

        // ---- PARTIAL CASE (3 or more nodes are kept): the provider keeps a tour -----------------------------------------------
        self.removes(segment, vehicle_idx) && !self.whole_tour(segment, vehicle_idx) && r is Ok ==>
            r->Ok_0.vehicles@ == self.vehicles@ && r->Ok_0.vehicle_ids_grouped_and_sorted@ == self.vehicle_ids_grouped_and_sorted@
            && r->Ok_0.network == self.network, // @obl C13.remove_segment.vehicle_set_unchanged
        self.removes(segment, vehicle_idx) && !self.whole_tour(segment, vehicle_idx) && r is Ok ==>
            self.provider_shrunk(segment, vehicle_idx, r->Ok_0.tours@), // @obl C13.remove_segment.provider_loses_exactly_segment
        self.removes(segment, vehicle_idx) && !self.whole_tour(segment, vehicle_idx) && r is Ok ==>
            self.other_tours_untouched(vehicle_idx, r->Ok_0.tours@), // @obl C13.remove_segment.other_tours_untouched
        // C09: costs
        self.removes(segment, vehicle_idx) && !self.whole_tour(segment, vehicle_idx) && r is Ok ==>
            r->Ok_0.costs == self.costs + r->Ok_0.tours@[vehicle_idx].costs - self.tours@[vehicle_idx].costs, // @obl C09.remove_segment.costs_follow_tour

        // ---- BOTH CASES (the same clause holds whether the provider keeps a tour or not; in the whole-tour case it is derived
        // from the contract of replace_vehicle_by_dummy, which speaks about the nodes of the whole tour: lemma_whole_tour_case) ----
        // "All service trips are added to a new dummy tour."
        self.removes(segment, vehicle_idx) && r is Ok && has_service(&self.network, self.removed_nodes(segment, vehicle_idx)) ==>
            self.trips_handed_back(self.removed_nodes(segment, vehicle_idx), r->Ok_0.dummy_tours@, r->Ok_0.dummy_ids_sorted@), // @obl C13.remove_segment.removed_trips_in_new_dummy_tour
        // the counter advances exactly when a new dummy tour takes the removed service trips
        self.removes(segment, vehicle_idx) && r is Ok && has_service(&self.network, self.removed_nodes(segment, vehicle_idx)) ==>
            r->Ok_0.vehicle_counter == self.vehicle_counter + 1, // @obl C13.remove_segment.fresh_dummy_id
        self.removes(segment, vehicle_idx) && r is Ok && !has_service(&self.network, self.removed_nodes(segment, vehicle_idx)) ==>
            r->Ok_0.dummy_tours@ == self.dummy_tours@ && r->Ok_0.dummy_ids_sorted@ == self.dummy_ids_sorted@
            && r->Ok_0.vehicle_counter == self.vehicle_counter, // @obl C13.remove_segment.no_trip_no_dummy
        // the provider leaves the formation of every removed activity (order kept), no other formation changes
        self.removes(segment, vehicle_idx) && r is Ok ==>
            self.formations_follow(self.removed_nodes(segment, vehicle_idx), vehicle_idx, r->Ok_0.train_formations@), // @obl C13.remove_segment.formations_elsewhere_untouched
        // C10: the ids stay valid (in particular every dummy id is below the counter: the next id is fresh again)
        self.removes(segment, vehicle_idx) && r is Ok ==> r->Ok_0.ids_ok(), // @obl C10.remove_segment.ids_stay_valid
        // C09: unserved passengers, depot usage; C15 / C10: rotation cycles
        self.removes(segment, vehicle_idx) && r is Ok ==>
            self.unserved_follow(self.removed_nodes(segment, vehicle_idx), vehicle_idx, r->Ok_0.unserved_passengers), // @obl C09.remove_segment.unserved_passengers_delta_exact
        self.removes(segment, vehicle_idx) && r is Ok ==>
            usage_exact(r->Ok_0.depot_usage@, &self.network, r->Ok_0.vehicles@, r->Ok_0.tours@), // @obl C09.remove_segment.depot_usage_exact
        self.removes(segment, vehicle_idx) && r is Ok ==>
            self.transitions_follow(vehicle_idx, r->Ok_0.next_period_transitions@, r->Ok_0.maintenance_violation, r->Ok_0.vehicles@, r->Ok_0.tours@), // @obl C10.remove_segment.transitions_follow_new_tours

        // ---- CLOSURE (the induction step of C10 "after any sequence of schedule modifications", C09 / C11 "for every reachable
        // schedule"): the result satisfies the schedule-invariant bundle rs_ok = sched_ok + ids_ok + formations_ok + transitions_ok +
        // usage_exact AGAIN, conjunct by conjunct (sched_ok in its five groups so_network / so_vehicles / so_listing / so_costs_cover /
        // so_costs_small: lemma_sched_ok_split).  Proved from the effect clauses above (rs_effect) in env/remove_segment_shim.vs,
        // block CLOSURE; both cases.  (`r is Ok` implies `removes`: the first two clauses.)
        // network (never modified), and every stored tour is the valid tour of a real vehicle held by a consistent cycle structure
        r is Ok ==> r->Ok_0.network == self.network && r->Ok_0.so_network(), // @obl C10.remove_segment.result_satisfies_the_schedule_invariants_again
        r is Ok ==> r->Ok_0.so_vehicles(), // @obl C10.remove_segment.result_satisfies_the_schedule_invariants_again
        // ids
        r is Ok ==> r->Ok_0.ids_ok(), // @obl C10.remove_segment.result_satisfies_the_schedule_invariants_again
        // formations: every activity has one, it lists the vehicles whose tours contain the node
        r is Ok ==> r->Ok_0.formations_ok(), // @obl C10.remove_segment.result_satisfies_the_schedule_invariants_again
        // depot usage (C09)
        r is Ok ==> usage_exact(r->Ok_0.depot_usage@, &r->Ok_0.network, r->Ok_0.vehicles@, r->Ok_0.tours@), // @obl C10.remove_segment.result_satisfies_the_schedule_invariants_again
        // rotation cycles (C15 / C10 / C09), including the magnitude "fewer than 2^17 vehicles" (no vehicle is added)
        r is Ok ==> r->Ok_0.transitions_ok(), // @obl C10.remove_segment.result_satisfies_the_schedule_invariants_again
        // listings, vehicle by vehicle (NOT a conjunct of rs_ok: the whole-tour-case precondition listed_ok of the next
        // modification): every vehicle that stays and was listed in the sorted id list of its type still is
        r is Ok ==> self.listings_kept(&r->Ok_0), // @obl C10.remove_segment.result_satisfies_the_schedule_invariants_again
        // listings (sched_ok: the listing is duplicate-free and matches the stored tours; at most 2^17 vehicles) and C09 (the costs
        // cover the tours' costs).  NO PREMISE any more: sched_vehicles is DEFINED (env/schedule_shim.vs: the grouped id lists of the
        // network's vehicle types, concatenated in type order), so the listing of the result follows the grouped id lists, whose change
        // is an effect clause -- unchanged in the partial case, one occurrence of the id taken out of the list of the provider's type in
        // the whole-tour case (listing_follows, proved: lemma_listing_follows_holds) --, hence it is exact again (listing_exact:
        // duplicate-free, lists exactly the vehicles that have a tour); the number of vehicles and the cost sum are derived from it
        r is Ok ==> self.listing_follows(segment, vehicle_idx, &r->Ok_0) && listing_exact(&r->Ok_0), // @obl C10.remove_segment.result_satisfies_the_schedule_invariants_again
        r is Ok ==> r->Ok_0.so_listing() && r->Ok_0.so_costs_cover(), // @obl C10.remove_segment.result_satisfies_the_schedule_invariants_again
        // (the former premised forms of these clauses, implied by the two lines above; kept because slices/swaps_sem.vs stubs this
        // function with them -- to be dropped when that stub has been synced)
        r is Ok && listing_exact(&r->Ok_0) ==> r->Ok_0.so_listing() && r->Ok_0.so_costs_cover(), // @obl C10.remove_segment.result_satisfies_the_schedule_invariants_again
        r is Ok && self.listing_follows(segment, vehicle_idx, &r->Ok_0) ==> listing_exact(&r->Ok_0), // @obl C10.remove_segment.result_satisfies_the_schedule_invariants_again
        // magnitude costs <= 2^61: an invariant of the whole-tour case only (the costs shrink by the tour's costs); in the partial
        // case the shrunk tour may cost more than the old one (no triangle inequality is assumed): there the conjunct is the
        // premise `r->Ok_0.costs <= sched_cost_bound()` of the clause below
        // (a sufficient condition in the partial case: the shrunk tour does not cost more than the old one)
        r is Ok && (self.whole_tour(segment, vehicle_idx) || r->Ok_0.tours@[vehicle_idx].costs <= self.tours@[vehicle_idx].costs)
            ==> r->Ok_0.costs <= self.costs && r->Ok_0.so_costs_small(), // @obl C10.remove_segment.result_satisfies_the_schedule_invariants_again
        // the bundle as the next modification requires it (the costs premise: see above; in the whole-tour case it holds)
        r is Ok && r->Ok_0.costs <= sched_cost_bound() ==> r->Ok_0.rs_ok(), // @obl C10.remove_segment.result_satisfies_the_schedule_invariants_again
        r is Ok && self.whole_tour(segment, vehicle_idx) ==> r->Ok_0.rs_ok(), // @obl C10.remove_segment.result_satisfies_the_schedule_invariants_again
        // (former premised form, implied by the line above; kept for the stub of slices/swaps_sem.vs)
        r is Ok && listing_exact(&r->Ok_0) && r->Ok_0.costs <= sched_cost_bound() ==> r->Ok_0.rs_ok(), // @obl C10.remove_segment.result_satisfies_the_schedule_invariants_again
//@first
        hide(Schedule::rs_ok);
        hide(Schedule::so_vehicles);
        hide(Schedule::so_listing);
        hide(Schedule::so_costs_cover);
        hide(Schedule::formations_ok);
        hide(Schedule::transitions_ok);
        hide(Schedule::listings_kept);
        hide(Schedule::listing_follows);
        hide(listing_exact);
        hide(Schedule::upd_pre);
        hide(Schedule::transitions_follow);
        hide(Schedule::shrunk_counter_ok);
        hide(usage_exact);
        let ghost t0 = self.tours@[vehicle_idx];
        let ghost removed = self.removed_nodes(segment, vehicle_idx);
        proof {
            if self.vehicles@.contains_key(vehicle_idx) { lemma_provider(self, vehicle_idx); }
            // CLOSURE: for every result that the effect clauses describe (rs_effect), offered at both exits
            lemma_closure(self, segment, vehicle_idx);
        }
//@before "match shrinked_tour"
        proof {
            assert(*tour == t0);
            assert(removed_path.node_sequence@ == removed);
            // the case split is decided by Tour::remove (C13.remove.no_tour_iff_no_activity_left; the provider is a real vehicle):
            // no tour is returned iff whole_tour.  (Guarded by the specification-level condition, not by `shrinked_tour is None`:
            // a wrong case split in the code shows up at the tagged postconditions of the other case.)
            if self.removes(segment, vehicle_idx) && self.whole_tour(segment, vehicle_idx) {
                // what the call of replace_vehicle_by_dummy needs (tfu_pre for the whole tour), and its vocabulary (over the nodes
                // of the whole tour) in terms of the removed nodes: an id is needed in the same cases, same service trips, same
                // activities, same passengers
                lemma_whole_tour_case(self, segment, vehicle_idx);
                // (the two predicates have the same text; offered for every result: the call is the tail of the match arm)
                assert forall|s1: Schedule| #[trigger] self.rd_transitions_follow(vehicle_idx, &s1) implies
                    self.transitions_follow(vehicle_idx, s1.next_period_transitions@, s1.maintenance_violation, s1.vehicles@, s1.tours@) by {
                    reveal(Schedule::transitions_follow);
                }
            }
        }
//@before "self.update_train_formation"
                let ghost nt = new_tour;
                proof { lemma_cut(self, segment, vehicle_idx, nt); }
//@after "self.update_train_formation"
                proof {
                    lemma_implies_remove_segment_stub(self, self.train_formations@, train_formations@, Some(vehicle_idx), removed, true);
                }
//@before "self.update_depot_usage"
                proof { assert(tours@ == self.tours@.insert(vehicle_idx, nt)); }
//@after "self.update_depot_usage"
                proof { lemma_usage_step(self, depot_usage@, tours@, vehicle_idx, nt); }
//@before "self.update_transitions_and_violation_fast"
                proof { lemma_upd_pre(self, vehicle_idx, nt, tours@); }
//@before "Ok(Schedule::new("
                proof {
                    lemma_transitions_follow(self, vehicle_idx, next_period_transitions@, maintenance_violation, tours@);
                    // (guarded: a wrong map or counter shows up at the tagged postconditions, not at the lemma's precondition)
                    // (the counter handed to Schedule::new is not named here: both candidate values are offered, so that a
                    // change of that local shows up at the tagged postconditions and not as a lost anchor)
                    if ids_step(self, vehicle_idx, tours@, dummy_tours@, dummy_ids_sorted@, self.vehicle_counter, has_service(&self.network, removed)) {
                        lemma_ids_stay_valid(self, vehicle_idx, tours@, dummy_tours@, dummy_ids_sorted@, self.vehicle_counter, has_service(&self.network, removed));
                    }
                    if self.vehicle_counter < usize::MAX && ids_step(self, vehicle_idx, tours@, dummy_tours@, dummy_ids_sorted@, (self.vehicle_counter + 1) as usize, has_service(&self.network, removed)) {
                        lemma_ids_stay_valid(self, vehicle_idx, tours@, dummy_tours@, dummy_ids_sorted@, (self.vehicle_counter + 1) as usize, has_service(&self.network, removed));
                    }
                }
//@end

} // mod tr
} // verus!
fn main() {}
