// slice `sched_ctor`: the constructors of Schedule (solution/src/schedule.rs) -- draft header, see below
#![feature(allocator_api)]
use vstd::prelude::*;
use std::ops::Add;
use std::ops::Sub;
use std::collections::{BTreeMap, HashMap};
use std::sync::Arc;
//@include env/display_time.rs
//@include env/display_model.rs
impl std::fmt::Display for VehicleTypeIdx { fn fmt(&self, _f: &mut std::fmt::Formatter) -> std::fmt::Result { Ok(()) } }
impl std::fmt::Debug for NodeIdx { fn fmt(&self, _f: &mut std::fmt::Formatter) -> std::fmt::Result { Ok(()) } }
verus! {
//@include env/std_specs.vs
//@include env/seqiter.vs
//@include env/time_types.vs
//@include-trusted env/time_ops.vs
//@include env/model_types.vs
//@include env/broadcast_model.vs
//@include env/model_network_types.vs
//@include env/model_spec.vs
//@include-trusted env/model_fns.vs
//@include env/solution_types.vs
//@include env/tour_spec.vs
//@include env/sums.vs
//@include-trusted env/dist_ops.vs
//@include env/vsum_impls.vs
//@include env/cache_spec.vs
//@include env/cache_lemmas.vs

pub mod tr {
use super::*;
use vstd::prelude::*;
use self::im::HashMap;
use self::im_set::HashSet;
use std::collections::HashMap as StdHashMap;
//@include env/im_shim.vs

//@item solution/src/transition.rs type CycleIdx : plain
//@end
//@item solution/src/transition/transition_cycle.rs struct TransitionCycle : plain
//@drop-derive Clone
//@end
impl Clone for TransitionCycle {
    #[verifier::external_body]
    fn clone(&self) -> (r: Self)
        ensures r == *self
    { unimplemented!() }
}
//@item solution/src/transition.rs struct Transition : plain
//@end
//@include env/transition_spec.vs
//@include env/schedule_shim.vs
//@include env/sched_guard_shim.vs
//@include env/spawn_vehicle_shim.vs
//@include env/sched_ctor_shim.vs

// ---- (1) the unserved passengers from scratch --------------------------------------------------------------
// verified in slice admission; contract text copied from there
//@item solution/src/schedule.rs Schedule::compute_unserved_passengers_at_node : trusted
//@retname r
//@sig
    requires
        network.has(node), network.sp_node(node) is Service,
        fcap(train_formation.formation@) <= u32::MAX, fseats(train_formation.formation@) <= u32::MAX,
    ensures
        r.0 == (if network.sp_trip(node).passengers as int > fcap(train_formation.formation@)
            { network.sp_trip(node).passengers as int - fcap(train_formation.formation@) } else { 0 }), // @obl C02.unserved_passengers.max0_demand_minus_capacity
        r.1 == (if network.sp_trip(node).seated as int > fseats(train_formation.formation@)
            { network.sp_trip(node).seated as int - fseats(train_formation.formation@) } else { 0 }), // @obl C02.unserved_passengers.max0_seated_minus_seats
//@end
/// A-iter + A-index: `Network::all_service_nodes` yields every service trip of the network exactly once
/// (`nodes_sorted_by_start.values().filter(is_service).copied()`)
//@item model/src/network.rs Network::all_service_nodes : trusted
//@ret SeqIter<NodeIdx>
//@retname r
//@sig
    ensures r@ == all_service_seq(self), service_enum_ok(self),
//@end
//@item solution/src/schedule.rs Schedule::compute_unserved_passengers
//@retname r
//@sig
    requires
        // `train_formations.get(&node).unwrap()`: every service trip has a formation entry (C10); the u32 capacity / seat
        // sums of the formations fit (TrainFormation::capacity / seats)
        forall|i: int| 0 <= i < all_service_seq(network).len() ==> train_formations@.contains_key(#[trigger] all_service_seq(network)[i])
            && fcap(train_formations@[all_service_seq(network)[i]].formation@) <= u32::MAX
            && fseats(train_formations@[all_service_seq(network)[i]].formation@) <= u32::MAX,
        // the u32 additions of the fold: the totals fit (debug builds panic, release builds wrap otherwise)
        unserved_from_scratch(network, train_formations@, 0) <= u32::MAX,
        unserved_from_scratch(network, train_formations@, 1) <= u32::MAX,
    ensures
        // C09 "cached aggregates equal recomputation": this IS the recomputation -- the component-wise sum, over all
        // service trips of the network, of compute_unserved_passengers_at_node(network, trip, formation of the trip)
        r.0 == unserved_from_scratch(network, train_formations@, 0)
            && r.1 == unserved_from_scratch(network, train_formations@, 1), // @obl C09.compute_unserved_passengers.sum_over_all_service_trips
        service_enum_ok(network),
//@closure map#0
    -> (q: (PassengerCount, PassengerCount))
    requires network.has(node), network.sp_node(node) is Service, train_formations@.contains_key(node),
        fcap(train_formations@[node].formation@) <= u32::MAX, fseats(train_formations@[node].formation@) <= u32::MAX
    ensures q.0 == unserved_at(network, node, train_formations@[node].formation@, 0),
        q.1 == unserved_at(network, node, train_formations@[node].formation@, 1) /* @obl C09.compute_unserved_passengers.sum_over_all_service_trips */
//@closure-params fold#0
    (PassengerCount, PassengerCount)
    (PassengerCount, PassengerCount)
//@closure fold#0
    -> (q: (PassengerCount, PassengerCount))
    requires p0.0 + p1.0 <= u32::MAX, p0.1 + p1.1 <= u32::MAX
    ensures q.0 == p0.0 + p1.0, q.1 == p0.1 + p1.1 /* @obl C09.compute_unserved_passengers.sum_over_all_service_trips */
//@first
        broadcast use lemma_fold_adds_pairs, lemma_pair_sum_unserved;
//@end

// ---- (2) the empty schedule ----------------------------------------------------------------------------------
//@item model/src/network.rs Network::vehicle_types
//@retname r
//@sig
    ensures r == self.vehicle_types,
//@end
//@item model/src/network.rs Network::config
//@retname r
//@sig
    ensures r == self.config,
//@end
//@item model/src/network.rs Network::number_of_service_nodes
//@retname r
//@sig
    ensures r == self.number_of_service_nodes,
//@end
/// A-iter: `VehicleTypes::iter` yields the ids of `ids_sorted` in order (`self.ids_sorted.iter().cloned()`)
//@item model/src/vehicle_types.rs VehicleTypes::iter : trusted
//@ret SeqIter<VehicleTypeIdx>
//@retname r
//@sig
    ensures r@ == self.ids_sorted@,
//@end
/// A-iter: `Network::maintenance_nodes` yields the list in order (`self.maintenance_nodes.iter().copied()`)
//@item model/src/network.rs Network::maintenance_nodes : trusted
//@ret SeqIter<NodeIdx>
//@retname r
//@sig
    ensures r@ == self.maintenance_nodes@,
//@end
// "service and maintenance_nodes" (verified here, verbatim body: all_service_nodes().chain(maintenance_nodes()))
//@item model/src/network.rs Network::coverable_nodes
//@ret SeqIter<NodeIdx>
//@retname r
//@sig
    ensures r@ == coverable_seq(self), service_enum_ok(self),
//@end
//@item solution/src/train_formation.rs TrainFormation::empty
//@retname r
//@sig
    ensures r.formation@.len() == 0,
//@end
// A-stub (not under contract in any slice; contract written from the body of Transition::one_cluster_per_maintenance,
// solution/src/transition.rs: with no vehicles neither loop runs, `sorted_clusters` stays empty, hence no cycle, both
// totals 0, an empty lookup and `empty_cycles: Vec::new()`).  Nothing is claimed for a non-empty vehicle list.
//@item solution/src/transition.rs Transition::new_fast : trusted
//@retname r
//@sig
    ensures vehicles@.len() == 0 ==> empty_transition(&r),
//@end
//@item solution/src/schedule.rs Schedule::new
//@retname r
//@sig
    ensures
        r.vehicles == vehicles, r.tours == tours, r.next_period_transitions == next_period_transitions,
        r.train_formations == train_formations, r.depot_usage == depot_usage, r.dummy_tours == dummy_tours,
        r.vehicle_counter == vehicle_counter, r.vehicle_ids_grouped_and_sorted == vehicle_ids_grouped_and_sorted,
        r.dummy_ids_sorted == dummy_ids_sorted, r.unserved_passengers == unserved_passengers,
        r.maintenance_violation == maintenance_violation, r.costs == costs, r.network == network,
//@end
//@item solution/src/schedule.rs Schedule::empty
//@retname r
//@sig
    requires
        // instance validity: Network::wf; A-index for the maintenance slots (every slot is in `maintenance_nodes`)
        network.wf(), maintenance_listed(&network),
        // magnitudes: `number_of_service_nodes as Cost * staff` in u64, below 2^61 (the bound the modifications need: sv_ok)
        network.number_of_service_nodes * network.config.costs.staff <= sched_cost_bound(),
        // magnitudes: the u32 additions of compute_unserved_passengers -- the whole demand of the instance fits
        demand_total(&network, 0) <= u32::MAX, demand_total(&network, 1) <= u32::MAX,
    ensures
        r.network == network,
        // C10 "structural invariants for every reachable schedule", base case: no vehicles, no tours, no dummies, counter 0,
        // every coverable node has an EMPTY formation, every vehicle type an empty id list and the transition of no vehicles,
        // empty depot usage
        r.is_empty_schedule(), // @obl C10.empty.satisfies_the_schedule_invariants
        // ... which satisfies what the modifications (spawn_vehicle_for_path etc.) take as precondition
        r.sv_ids_ok(), // @obl C10.empty.satisfies_the_schedule_invariants
        r.listings_match(), // @obl C10.empty.satisfies_the_schedule_invariants
        usage_exact(r.depot_usage@, &r.network, r.vehicles@, r.tours@), // @obl C10.empty.satisfies_the_schedule_invariants
        instance_ok(&network) ==> r.sv_formations_ok(), // @obl C10.empty.satisfies_the_schedule_invariants
        instance_ok(&network) ==> r.transitions_ok(), // @obl C10.empty.satisfies_the_schedule_invariants
        instance_ok(&network) ==> r.sv_ok(), // @obl C10.empty.satisfies_the_schedule_invariants
        // C09 "cached aggregates equal recomputation": costs = staff costs of all service trips (no tour yet), maintenance
        // violation 0 (the sum over the types' transitions), unserved passengers = the from-scratch value = the whole demand
        r.costs == network.number_of_service_nodes * network.config.costs.staff, // @obl C09.empty.aggregates_are_the_from_scratch_values
        r.maintenance_violation == 0, // @obl C09.empty.aggregates_are_the_from_scratch_values
        r.maintenance_violation as int == viol_sum(r.next_period_transitions@, sched_types(&r)), // @obl C09.empty.aggregates_are_the_from_scratch_values
        r.unserved_c(0) == unserved_from_scratch(&network, r.train_formations@, 0) && r.unserved_c(1) == unserved_from_scratch(&network, r.train_formations@, 1), // @obl C09.empty.aggregates_are_the_from_scratch_values
        r.unserved_c(0) == demand_total(&network, 0) && r.unserved_c(1) == demand_total(&network, 1), // @obl C09.empty.aggregates_are_the_from_scratch_values
        service_enum_ok(&network),
//@first
        broadcast use axiom_imhm_collect;
//@loop "for node in"
            invariant
                // "for each node (except for depots) … there is still an entry with an empty train formation": the loop runs over ALL coverable nodes
                it.snapshot@@ == coverable_seq(&network), // @obl C10.empty.satisfies_the_schedule_invariants
                service_enum_ok(&network),
                0 <= it.index@ <= it.snapshot@@.len(),
                formation_keys(train_formations@, it.snapshot@@.take(it.index@ as int)),
                formations_empty(train_formations@),
//@before "train_formations.insert"
            proof { tfu::lemma_take_contains(it.snapshot@@, it.index@ as int, node); }
            let ghost tf_before = train_formations@;
//@after "train_formations.insert"
            proof {
                assert forall|n: NodeIdx| #[trigger] train_formations@.contains_key(n) <==> it.snapshot@@.take(it.index@ + 1).contains(n) by {
                    assert(formation_keys(tf_before, it.snapshot@@.take(it.index@ as int)));
                    tfu::lemma_take_contains(it.snapshot@@, it.index@ as int, n);
                    assert(tf_before.contains_key(n) <==> it.snapshot@@.take(it.index@ as int).contains(n));
                }
            }
//@closure map#0
    -> (q: (VehicleTypeIdx, Transition)) ensures q.0 == vt, empty_transition(&q.1)
//@closure map#1
    -> (q: (VehicleTypeIdx, Vec<VehicleIdx>)) ensures q.0 == vt, q.1@.len() == 0
//@before "let costs"
        let ghost tf = train_formations@;
        proof {
            let cs = coverable_seq(&network);
            assert(cs.take(cs.len() as int) =~= cs);
            assert(formation_keys(tf, cs));
            let a = all_service_seq(&network);
            assert forall|i: int| 0 <= i < a.len() implies tf.contains_key(#[trigger] a[i]) && tf[a[i]].formation@.len() == 0
                && fcap(tf[a[i]].formation@) <= u32::MAX && fseats(tf[a[i]].formation@) <= u32::MAX by {
                assert(cs[i] == a[i]);
                assert(cs.contains(a[i]));
                assert(tf.contains_key(a[i]));
                assert(formations_empty(tf));
                assert(tf[a[i]].formation@.len() == 0);
                lemma_fcap_empty(tf[a[i]].formation@);
            }
            lemma_un_total_empty(&network, tf, a, a.len() as int, 0);
            lemma_un_total_empty(&network, tf, a, a.len() as int, 1);
        }
//@before "Schedule::new"
        let ghost trs = view_trs(&next_period_transitions);
        let ghost lists = view_lists(&vehicle_ids_grouped_and_sorted);
        let ghost vts = network.vehicle_types.ids_sorted@;
        proof {
            assert forall|vt: VehicleTypeIdx| #[trigger] trs.contains_key(vt) <==> vts.contains(vt) by {
                if vts.contains(vt) { let i = choose|i: int| 0 <= i < vts.len() && vts[i] == vt; assert(imhm_source(next_period_transitions)[i].0 == vt); }
            }
            assert forall|vt: VehicleTypeIdx| #[trigger] lists.contains_key(vt) <==> vts.contains(vt) by {
                if vts.contains(vt) { let i = choose|i: int| 0 <= i < vts.len() && vts[i] == vt; assert(imhm_source(vehicle_ids_grouped_and_sorted)[i].0 == vt); }
            }
            // what the empty schedule satisfies (lemma_empty_invariants), for the schedule Schedule::new is about to build
            assert forall|s: Schedule| #![trigger s.sv_formations_ok()] #![trigger s.transitions_ok()] #![trigger s.sv_ok()] #![trigger sched_types(&s)]
                s.is_empty_schedule() && s.network == network && s.maintenance_violation == 0
                && s.unserved_c(0) == unserved_from_scratch(&s.network, s.train_formations@, 0)
                && s.unserved_c(1) == unserved_from_scratch(&s.network, s.train_formations@, 1)
                implies s.sv_ids_ok() && s.listings_match() && usage_exact(s.depot_usage@, &s.network, s.vehicles@, s.tours@)
                    && (instance_ok(&s.network) ==> s.sv_formations_ok()) && (instance_ok(&s.network) ==> s.transitions_ok())
                    && (instance_ok(&s.network) && s.costs <= sched_cost_bound() ==> s.sv_ok())
                    && viol_sum(s.next_period_transitions@, sched_types(&s)) == 0 by {
                lemma_empty_invariants(&s);
            }
        }
//@end

} // mod tr
} // verus!
fn main() {}
