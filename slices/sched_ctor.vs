// slice `sched_ctor`: the constructors of Schedule (solution/src/schedule.rs), verbatim bodies: Schedule::compute_unserved_passengers,
// Schedule::empty, Schedule::from_tours (plus Schedule::new, Network::coverable_nodes / vehicle_types / config /
// number_of_service_nodes, TrainFormation::empty).  They are the BASE CASE of the schedule invariant `sv_ok`
// (env/spawn_vehicle_shim.vs) that the modification slices take as precondition.
//   C09  "cached aggregates equal recomputation": compute_unserved_passengers IS the recomputation: its result is the
//        component-wise sum, over all service trips of the network (all_service_seq: every trip exactly once), of
//        compute_unserved_passengers_at_node(network, trip, formation of the trip) (unserved_from_scratch / un_total /
//        unserved_at).  Schedule::empty: costs = number_of_service_nodes * staff costs (no tour yet), maintenance violation
//        0 = the sum over the types' transitions, unserved passengers = the from-scratch value = the whole demand of the
//        instance (demand_total).  from_tours: unserved passengers still the from-scratch value, costs = staff term + the
//        costs of the tours of the vehicles 0, 1, …; depot usage exact (clause of sv_ok).
//   C10  "structural invariants for every reachable schedule", base case: Schedule::empty has no vehicles, tours, dummies,
//        counter 0, an EMPTY formation for exactly the coverable nodes (service trips and maintenance slots), an empty id
//        list and the transition of no vehicles for exactly the listed vehicle types, empty depot usage (is_empty_schedule);
//        it satisfies sv_ids_ok, listings_match, usage_exact and -- given instance validity (instance_ok) -- sv_formations_ok,
//        transitions_ok and sv_ok as a whole.  from_tours re-establishes sv_ok and listings_match after every spawn from the
//        postcondition of spawn_vehicle_for_path (lemma_ft_step: invariant preservation for the spawn, which
//        slices/spawn_vehicle.vs lists as not covered; needs the stronger loop invariant ft_inv: exact unserved passengers,
//        small formations, |vehicles| = counter) and returns a schedule that satisfies them.
//   C14 / C13  "every flow unit is decoded into exactly one tour": from_tours returns Ok; the i-th given tour (map entry by
//        map entry, within an entry in the order of the Vec) is the tour of the vehicle with id i, a vehicle of the given
//        type: the given nodes in order with depots at the ends (depots_added), no activity lost, only compatible nodes, a
//        valid real tour with exact caches (vehicle_of_job); there are no other vehicles and no dummies; the number of
//        vehicles is the number of given tours (from_tours_post, tours_total).
//   C06  `result.unwrap()` in from_tours panics if a spawn fails.  The contract of spawn_vehicle_for_path says when the result
//        is Err for sure (incompatible node, all 2^16 ids used) but NOT when it is Ok, so no condition on the input tours can
//        be shown sufficient: the unwrap is covered by the STATED precondition every_spawn_succeeds (see PRECONDITIONS).
//        `expect("There should be at least the overflow depot available.")` inside spawn_vehicle_for_path (its precondition
//        some_depot_has_room) is DERIVED for every intermediate schedule of the loop from the stated instance-level fact
//        some_depot_hosts_all (lemma_ft_call_depot): the usage table is exact, so it only counts the vehicles spawned so far,
//        fewer than the number of given tours.
//        The other panics / overflows (`train_formations.get(&node).unwrap()`, the u32 additions of the fold, the u64
//        product of the staff term) are excluded under the stated preconditions.
//
// ASSUMPTIONS introduced / used by this slice:
//   A-iter   NEW (env/sched_ctor_shim.vs): SeqIter::fold (external_body, std semantics: left fold in order -- the result is
//            related to `init` by a chain of calls of the closure (fold_rel); the closure must be callable on every
//            accumulator value that can arise.  For the component-wise u32 addition this is PROVED (lemma_fold_adds_pairs)
//            from the stated precondition that the totals fit into u32: no partial sum overflows);
//            Network::all_service_nodes as SeqIter stub: yields all_service_seq(network) (uninterpreted order);
//            stubs with the text of slices/json_writer.vs: VehicleTypes::iter (= ids_sorted), Network::maintenance_nodes
//            (= the list); env/seqiter.vs (map, collect, chain, `for` over a SeqIter); vstd: `for` over a Vec by value
//   A-index  NEW: service_enum_ok -- all_service_seq(network) lists every service trip of the network exactly once and nothing
//            else (how Network::new fills `nodes_sorted_by_start`; postcondition of the all_service_nodes stub)
//   A-im     env/im_shim.vs (im::HashMap new / get / insert), env/schedule_shim.vs (opaque im::HashSet); NEW: `collect()` into an
//            im::HashMap (imhm_source / axiom_imhm_collect: the keys of the result are exactly the first components of the
//            pairs, every key maps to the second component of some pair with that key; text as for std's HashMap in
//            env/network_new_shim.vs)
//   A-map    NEW: `StdHashMap` (the name under which schedule.rs imports std's HashMap) is an opaque type whose `for` loop
//            (IntoIterator, external_body) visits `entries(map)`: every entry exactly once, in some order (entries_ok)
//   A-stub   NEW: Transition::new_fast (not under contract in any slice): for an EMPTY vehicle list the result has no cycle,
//            both totals 0, an empty lookup and no reusable empty cycle (empty_transition).  Justification: in
//            Transition::one_cluster_per_maintenance (solution/src/transition.rs) neither loop runs for `vehicles == []`,
//            `sorted_clusters` stays empty, so `cycles` and `cycle_lookup` are empty, the two totals keep their initial 0 and
//            `empty_cycles: Vec::new()`.  Nothing is assumed for a non-empty list.
//   R7a stubs (verified elsewhere with the SAME contract text; tools/stub_sync.py reports no difference):
//            Schedule::compute_unserved_passengers_at_node (admission), Schedule::spawn_vehicle_for_path (spawn_vehicle; WITH
//            the preconditions it got from find_best_start_depot_for_spawning: start_depots_ok, usage_counts_small,
//            some_depot_has_room -- vocabulary: last block of env/spawn_vehicle_shim.vs);
//            env/time_ops.vs, env/model_fns.vs, env/dist_ops.vs included trusted (slices time / network / tour_ctor)
//   A-derive / A-std / A-fmt of the included shims (env/spawn_vehicle_shim.vs etc.: only their spec vocabulary and lemmas are used
//            here: sv_ok and its parts, spawned / listed / formations_follow / transitions_follow, usage_exact, un_sum);
//            vstd: Arc::clone, Vec::new, Result::unwrap; plus env/broadcast_model.vs (key model of the index types).
//   No shim had to be copied: env/{im_shim, transition_spec, schedule_shim, sched_guard_shim, spawn_vehicle_shim}.vs are
//   included as they are, env/sched_ctor_shim.vs only adds definitions.
//
// PRECONDITIONS the caller must guarantee:
//   compute_unserved_passengers: every service trip has a formation entry (C10) whose u32 capacity / seat sums fit; the two
//     totals fit into u32 (the fold adds in u32: debug builds panic, release builds wrap otherwise).
//   empty: Network::wf; maintenance_listed (A-index: every maintenance slot of the network is in `maintenance_nodes`);
//     number_of_service_nodes * staff costs <= 2^61 (u64 product; the bound sv_ok needs); the whole demand (passengers and
//     seated passengers summed over all service trips) fits into u32.  The conjuncts sv_formations_ok / transitions_ok / sv_ok
//     are claimed under instance_ok: depot_lists_ok (A-index for the depot node lists), the listed vehicle types are pairwise
//     distinct, every service trip's vehicle type is a vehicle type of the network (A-types).
//   from_tours: the above with the staff term <= 2^60; instance_ok; caps_ok (A-cap, magnitude: capacity and seats of a vehicle
//     type <= 2^15 - 1, so that the u32 sums of a formation of up to 2^16 + 1 vehicles fit); for every given tour (job_ok): its
//     vehicle type is a listed type of the network stored under its own index (type_known), the tour is not empty, its
//     nodes are nodes of the network, A-len (tour_len_ok), A-counter (path_counter_ok, as spawn_counter_ok), A-cost
//     (path_cost_ok, magnitude: whatever tour the path becomes costs at most 2^44, so that 2^16 tours stay below 2^61);
//   * NEW (what spawn_vehicle_for_path needs for the choice of the start depot):
//     - A-index (instance validity): Network::start_depots_ok -- the start depot node list holds StartDepot nodes of the network
//       whose depot is in the depot table (how Network::new fills it; not proved in slice network_new; kept out of instance_ok,
//       under which Schedule::empty claims sv_ok);
//     - C06 / C17: some_depot_hosts_all(network, given tours) -- SOME start depot node's depot lists the vehicle type of every
//       given tour WITHOUT per-type limit and has a total capacity of at least the number of given tours ("at least the
//       overflow depot": it lists every type without limit, slices/network_new.vs; its capacity is a computed number, C17 / D5,
//       not related to the number of tours in any slice).  Sufficient, not necessary (tours that start with a depot do not need
//       it).  From it some_depot_has_room follows for EVERY state ft_inv describes (lemma_ft_call_depot, via
//       lemma_usage_counts_le_vehicles + lemma_depot_without_type_limit_suffices of env/spawn_vehicle_shim.vs); the magnitude
//       usage_counts_small follows from ft_inv alone (lemma_usage_counts_small).
//   * every_spawn_succeeds (C06): for every schedule s in a state from_tours can be in after the first n given tours (ft_inv)
//     and every possible result r of s.spawn_vehicle_for_path(type of tour n, tour n), r is Ok.  "Possible result" is
//     `call_ensures(Schedule::spawn_vehicle_for_path, (&s, vt, path), r)`, the relation Verus provides between the arguments
//     and the result of an actual call (it implies the ensures clause, not conversely; a call site learns it for its result).
//     This is a statement about the BEHAVIOUR of spawn_vehicle_for_path, not a checkable condition on the input, and it
//     quantifies over all states that satisfy ft_inv, not only over the one the execution reaches (sufficient, not
//     necessary).  Necessary conditions that DO follow from the contract: every node of every given tour is compatible with
//     the tour's vehicle type and there are at most 2^16 given tours -- otherwise from_tours panics for sure.
//
// NOT covered:
//   * WHEN spawn_vehicle_for_path succeeds (see above) and hence that MinCostFlowSolver::solve, the only caller of from_tours,
//     establishes every_spawn_succeeds; that the callers establish the other preconditions (magnitudes, A-index,
//     some_depot_hosts_all: C17 is not connected to it);
//   * which depots are put at the ends of a given tour (only depots_added; the postconditions best_start_depot / nearest_end_depot /
//     depot_limits_hold of the spawn_vehicle_for_path stub speak about the usage table of the intermediate schedule and are not
//     carried into ft_inv / the result), the order in which a std HashMap is visited (the
//     ids 0, 1, 2, … follow `entries(tours)`, which std leaves unspecified: the numbering of the vehicles of different types
//     is not determined by the input);
//   * that `number_of_service_nodes` is the number of service trips of the network (A-index / A-lib of slices/network_new.vs):
//     the staff term is stated with the field the code reads, as Schedule::verify_consistency does;
//   * Transition::new_fast for a non-empty vehicle list; the error value of from_tours (it never returns Err: it panics
//     instead -- see the candidate finding in the report of this slice);
//   * C10 clauses that sv_ok does not contain ("a vehicle is in the formation of a node exactly if its tour contains the node",
//     formation / depot limits for the result of from_tours beyond grown_within_limits of each spawn).
#![feature(allocator_api)]
use vstd::prelude::*;
use std::ops::Add;
use std::ops::Sub;
use std::collections::{BTreeMap, HashMap};
use std::sync::Arc;
//@include env/display_time.rs
//@include env/display_model.rs
impl std::fmt::Display for VehicleTypeIdx { fn fmt(&self, _f: &mut std::fmt::Formatter) -> std::fmt::Result { Ok(()) } }
impl std::fmt::Debug for NodeIdx { fn fmt(&self, _f: &mut std::fmt::Formatter) -> std::fmt::Result { Ok(()) } }
verus! {
//@include env/std_specs.vs
//@include env/seqiter.vs
//@include env/time_types.vs
//@include-trusted env/time_ops.vs
//@include env/model_types.vs
//@include env/broadcast_model.vs
//@include env/model_network_types.vs
//@include env/model_spec.vs
//@include-trusted env/model_fns.vs
//@include env/solution_types.vs
//@include env/tour_spec.vs
//@include env/sums.vs
//@include-trusted env/dist_ops.vs
//@include env/vsum_impls.vs
//@include env/cache_spec.vs
//@include-proved env/cache_lemmas.vs

pub mod tr {
use super::*;
use vstd::prelude::*;
use self::im::HashMap;
use self::im_set::HashSet;
use vstd::std_specs::iter::IteratorSpec;
//@include env/im_shim.vs

//@item solution/src/transition.rs type CycleIdx : plain
//@end
//@item solution/src/transition/transition_cycle.rs struct TransitionCycle : plain
//@drop-derive Clone
//@end
impl Clone for TransitionCycle {
    #[verifier::external_body]
    fn clone(&self) -> (r: Self)
        ensures r == *self
    { unimplemented!() }
}
//@item solution/src/transition.rs struct Transition : plain
//@end
//@include env/transition_spec.vs
//@include env/schedule_shim.vs
//@include env/sched_guard_shim.vs
//@include env/spawn_vehicle_shim.vs
//@include env/sched_ctor_shim.vs

// ---- (1) the unserved passengers from scratch --------------------------------------------------------------
// verified in slice admission; contract text copied from there
//@item solution/src/schedule.rs Schedule::compute_unserved_passengers_at_node : trusted
//@retname r
//@sig
    requires
        network.has(node), network.sp_node(node) is Service,
        fcap(train_formation.formation@) <= u32::MAX, fseats(train_formation.formation@) <= u32::MAX,
    ensures
        r.0 == (if network.sp_trip(node).passengers as int > fcap(train_formation.formation@)
            { network.sp_trip(node).passengers as int - fcap(train_formation.formation@) } else { 0 }), // @obl C02.unserved_passengers.max0_demand_minus_capacity
        r.1 == (if network.sp_trip(node).seated as int > fseats(train_formation.formation@)
            { network.sp_trip(node).seated as int - fseats(train_formation.formation@) } else { 0 }), // @obl C02.unserved_passengers.max0_seated_minus_seats
//@end
/// A-iter + A-index: `Network::all_service_nodes` yields every service trip of the network exactly once
/// (`nodes_sorted_by_start.values().filter(is_service).copied()`)
//@item model/src/network.rs Network::all_service_nodes : trusted
//@ret SeqIter<NodeIdx>
//@retname r
//@sig
    ensures r@ == all_service_seq(self), service_enum_ok(self),
//@end
//@item solution/src/schedule.rs Schedule::compute_unserved_passengers
//@retname r
//@sig
    requires
        // `train_formations.get(&node).unwrap()`: every service trip has a formation entry (C10); the u32 capacity / seat
        // sums of the formations fit (TrainFormation::capacity / seats)
        forall|i: int| 0 <= i < all_service_seq(network).len() ==> train_formations@.contains_key(#[trigger] all_service_seq(network)[i])
            && fcap(train_formations@[all_service_seq(network)[i]].formation@) <= u32::MAX
            && fseats(train_formations@[all_service_seq(network)[i]].formation@) <= u32::MAX,
        // the u32 additions of the fold: the totals fit (debug builds panic, release builds wrap otherwise)
        unserved_from_scratch(network, train_formations@, 0) <= u32::MAX,
        unserved_from_scratch(network, train_formations@, 1) <= u32::MAX,
    ensures
        // C09 "cached aggregates equal recomputation": this IS the recomputation -- the component-wise sum, over all
        // service trips of the network, of compute_unserved_passengers_at_node(network, trip, formation of the trip)
        r.0 == unserved_from_scratch(network, train_formations@, 0)
            && r.1 == unserved_from_scratch(network, train_formations@, 1), // @obl C09.compute_unserved_passengers.sum_over_all_service_trips
        service_enum_ok(network),
//@closure map#0
    -> (q: (PassengerCount, PassengerCount))
    requires network.has(node), network.sp_node(node) is Service, train_formations@.contains_key(node),
        fcap(train_formations@[node].formation@) <= u32::MAX, fseats(train_formations@[node].formation@) <= u32::MAX
    ensures q.0 == unserved_at(network, node, train_formations@[node].formation@, 0),
        q.1 == unserved_at(network, node, train_formations@[node].formation@, 1) /* @obl C09.compute_unserved_passengers.sum_over_all_service_trips */
//@closure-params fold#0
    (PassengerCount, PassengerCount)
    (PassengerCount, PassengerCount)
//@closure fold#0
    -> (q: (PassengerCount, PassengerCount))
    requires p0.0 + p1.0 <= u32::MAX, p0.1 + p1.1 <= u32::MAX
    ensures q.0 == p0.0 + p1.0, q.1 == p0.1 + p1.1 /* @obl C09.compute_unserved_passengers.sum_over_all_service_trips */
//@first
        broadcast use lemma_fold_adds_pairs, lemma_pair_sum_unserved;
//@end

// ---- (2) the empty schedule ----------------------------------------------------------------------------------
//@item model/src/network.rs Network::vehicle_types
//@retname r
//@sig
    ensures r == self.vehicle_types,
//@end
//@item model/src/network.rs Network::config
//@retname r
//@sig
    ensures r == self.config,
//@end
//@item model/src/network.rs Network::number_of_service_nodes
//@retname r
//@sig
    ensures r == self.number_of_service_nodes,
//@end
/// A-iter: `VehicleTypes::iter` yields the ids of `ids_sorted` in order (`self.ids_sorted.iter().cloned()`)
//@item model/src/vehicle_types.rs VehicleTypes::iter : trusted
//@ret SeqIter<VehicleTypeIdx>
//@retname r
//@sig
    ensures r@ == self.ids_sorted@,
//@end
/// A-iter: `Network::maintenance_nodes` yields the list in order (`self.maintenance_nodes.iter().copied()`)
//@item model/src/network.rs Network::maintenance_nodes : trusted
//@ret SeqIter<NodeIdx>
//@retname r
//@sig
    ensures r@ == self.maintenance_nodes@,
//@end
// "service and maintenance_nodes" (verified here, verbatim body: all_service_nodes().chain(maintenance_nodes()))
//@item model/src/network.rs Network::coverable_nodes
//@ret SeqIter<NodeIdx>
//@retname r
//@sig
    ensures r@ == coverable_seq(self), service_enum_ok(self),
//@end
//@item solution/src/train_formation.rs TrainFormation::empty
//@retname r
//@sig
    ensures r.formation@.len() == 0,
//@end
// A-stub (not under contract in any slice; contract written from the body of Transition::one_cluster_per_maintenance,
// solution/src/transition.rs: with no vehicles neither loop runs, `sorted_clusters` stays empty, hence no cycle, both
// totals 0, an empty lookup and `empty_cycles: Vec::new()`).  Nothing is claimed for a non-empty vehicle list.
//@item solution/src/transition.rs Transition::new_fast : trusted
//@retname r
//@sig
    ensures vehicles@.len() == 0 ==> empty_transition(&r),
//@end
//@item solution/src/schedule.rs Schedule::new
//@retname r
//@sig
    ensures
        r.vehicles == vehicles, r.tours == tours, r.next_period_transitions == next_period_transitions,
        r.train_formations == train_formations, r.depot_usage == depot_usage, r.dummy_tours == dummy_tours,
        r.vehicle_counter == vehicle_counter, r.vehicle_ids_grouped_and_sorted == vehicle_ids_grouped_and_sorted,
        r.dummy_ids_sorted == dummy_ids_sorted, r.unserved_passengers == unserved_passengers,
        r.maintenance_violation == maintenance_violation, r.costs == costs, r.network == network,
//@end
//@item solution/src/schedule.rs Schedule::empty
//@retname r
//@sig
    requires
        // instance validity: Network::wf; A-index for the maintenance slots (every slot is in `maintenance_nodes`)
        network.wf(), maintenance_listed(&network),
        // magnitudes: `number_of_service_nodes as Cost * staff` in u64, below 2^61 (the bound the modifications need: sv_ok)
        network.number_of_service_nodes * network.config.costs.staff <= sched_cost_bound(),
        // magnitudes: the u32 additions of compute_unserved_passengers -- the whole demand of the instance fits
        demand_total(&network, 0) <= u32::MAX, demand_total(&network, 1) <= u32::MAX,
    ensures
        r.network == network,
        // C10 "structural invariants for every reachable schedule", base case: no vehicles, no tours, no dummies, counter 0,
        // every coverable node has an EMPTY formation, every vehicle type an empty id list and the transition of no vehicles,
        // empty depot usage
        r.is_empty_schedule(), // @obl C10.empty.satisfies_the_schedule_invariants
        // ... which satisfies what the modifications (spawn_vehicle_for_path etc.) take as precondition
        r.sv_ids_ok(), // @obl C10.empty.satisfies_the_schedule_invariants
        r.listings_match(), // @obl C10.empty.satisfies_the_schedule_invariants
        usage_exact(r.depot_usage@, &r.network, r.vehicles@, r.tours@), // @obl C10.empty.satisfies_the_schedule_invariants
        instance_ok(&network) ==> r.sv_formations_ok(), // @obl C10.empty.satisfies_the_schedule_invariants
        instance_ok(&network) ==> r.transitions_ok(), // @obl C10.empty.satisfies_the_schedule_invariants
        instance_ok(&network) ==> r.sv_ok(), // @obl C10.empty.satisfies_the_schedule_invariants
        // C09 "cached aggregates equal recomputation": costs = staff costs of all service trips (no tour yet), maintenance
        // violation 0 (the sum over the types' transitions), unserved passengers = the from-scratch value = the whole demand
        r.costs == network.number_of_service_nodes * network.config.costs.staff, // @obl C09.empty.aggregates_are_the_from_scratch_values
        r.maintenance_violation == 0, // @obl C09.empty.aggregates_are_the_from_scratch_values
        r.maintenance_violation as int == viol_sum(r.next_period_transitions@, sched_types(&r)), // @obl C09.empty.aggregates_are_the_from_scratch_values
        r.unserved_c(0) == unserved_from_scratch(&network, r.train_formations@, 0) && r.unserved_c(1) == unserved_from_scratch(&network, r.train_formations@, 1), // @obl C09.empty.aggregates_are_the_from_scratch_values
        r.unserved_c(0) == demand_total(&network, 0) && r.unserved_c(1) == demand_total(&network, 1), // @obl C09.empty.aggregates_are_the_from_scratch_values
        service_enum_ok(&network),
//@first
        broadcast use axiom_imhm_collect;
//@loop "for node in"
            invariant
                // "for each node (except for depots) … there is still an entry with an empty train formation": the loop runs over ALL coverable nodes
                it.snapshot@@ == coverable_seq(&network), // @obl C10.empty.satisfies_the_schedule_invariants
                service_enum_ok(&network),
                0 <= it.index@ <= it.snapshot@@.len(),
                formation_keys(train_formations@, it.snapshot@@.take(it.index@ as int)),
                formations_empty(train_formations@),
//@before "train_formations.insert"
            proof { tfu::lemma_take_contains(it.snapshot@@, it.index@ as int, node); }
            let ghost tf_before = train_formations@;
//@after "train_formations.insert"
            proof {
                assert forall|n: NodeIdx| #[trigger] train_formations@.contains_key(n) <==> it.snapshot@@.take(it.index@ + 1).contains(n) by {
                    assert(formation_keys(tf_before, it.snapshot@@.take(it.index@ as int)));
                    tfu::lemma_take_contains(it.snapshot@@, it.index@ as int, n);
                    assert(tf_before.contains_key(n) <==> it.snapshot@@.take(it.index@ as int).contains(n));
                }
            }
//@closure map#0
    -> (q: (VehicleTypeIdx, Transition)) ensures q.0 == vt, empty_transition(&q.1)
//@closure map#1
    -> (q: (VehicleTypeIdx, Vec<VehicleIdx>)) ensures q.0 == vt, q.1@.len() == 0
//@before "let costs"
        let ghost tf = train_formations@;
        proof {
            let cs = coverable_seq(&network);
            assert(cs.take(cs.len() as int) =~= cs);
            assert(formation_keys(tf, cs));
            let a = all_service_seq(&network);
            assert forall|i: int| 0 <= i < a.len() implies tf.contains_key(#[trigger] a[i]) && tf[a[i]].formation@.len() == 0
                && fcap(tf[a[i]].formation@) <= u32::MAX && fseats(tf[a[i]].formation@) <= u32::MAX by {
                assert(cs[i] == a[i]);
                assert(cs.contains(a[i]));
                assert(tf.contains_key(a[i]));
                assert(formations_empty(tf));
                assert(tf[a[i]].formation@.len() == 0);
                lemma_fcap_empty(tf[a[i]].formation@);
            }
            lemma_un_total_empty(&network, tf, a, a.len() as int, 0);
            lemma_un_total_empty(&network, tf, a, a.len() as int, 1);
        }
//@before "Schedule::new"
        let ghost trs = view_trs(&next_period_transitions);
        let ghost lists = view_lists(&vehicle_ids_grouped_and_sorted);
        let ghost vts = network.vehicle_types.ids_sorted@;
        proof {
            assert forall|vt: VehicleTypeIdx| #[trigger] trs.contains_key(vt) <==> vts.contains(vt) by {
                if vts.contains(vt) { let i = choose|i: int| 0 <= i < vts.len() && vts[i] == vt; assert(imhm_source(next_period_transitions)[i].0 == vt); }
            }
            assert forall|vt: VehicleTypeIdx| #[trigger] lists.contains_key(vt) <==> vts.contains(vt) by {
                if vts.contains(vt) { let i = choose|i: int| 0 <= i < vts.len() && vts[i] == vt; assert(imhm_source(vehicle_ids_grouped_and_sorted)[i].0 == vt); }
            }
            // what the empty schedule satisfies (lemma_empty_invariants), for the schedule Schedule::new is about to build
            assert forall|s: Schedule| #![trigger s.sv_formations_ok()] #![trigger s.transitions_ok()] #![trigger s.sv_ok()] #![trigger sched_types(&s)]
                s.is_empty_schedule() && s.network == network && s.maintenance_violation == 0
                && s.unserved_c(0) == unserved_from_scratch(&s.network, s.train_formations@, 0)
                && s.unserved_c(1) == unserved_from_scratch(&s.network, s.train_formations@, 1)
                implies s.sv_ids_ok() && s.listings_match() && usage_exact(s.depot_usage@, &s.network, s.vehicles@, s.tours@)
                    && (instance_ok(&s.network) ==> s.sv_formations_ok()) && (instance_ok(&s.network) ==> s.transitions_ok())
                    && (instance_ok(&s.network) && s.costs <= sched_cost_bound() ==> s.sv_ok())
                    && viol_sum(s.next_period_transitions@, sched_types(&s)) == 0 by {
                lemma_empty_invariants(&s);
            }
        }
//@end

// ---- (3) a schedule from given tours ---------------------------------------------------------------------------
// verified in slice spawn_vehicle; contract text copied from there
//@item solution/src/schedule/modifications.rs Schedule::spawn_vehicle_for_path : trusted
//@retname r
//@sig
    requires
        self.sv_ok(),
        self.type_known(vehicle_type_idx),
        // `*nodes.first().unwrap()`; the nodes of the path are nodes of the network (`self.network.node(..)`); A-len
        path_as_vec@.len() >= 1, all_in_net(&self.network, path_as_vec@), tour_len_ok(path_as_vec@),
        // A-counter (magnitude)
        self.spawn_counter_ok(path_as_vec@),
        // what the choice of the depots needs (find_best_start_depot_for_spawning, slices/depot_choice.vs; not part of sv_ok):
        // A-index (how Network::new fills the list; not proved in slice network_new): the start depot node list holds StartDepot
        // nodes of the network whose depot is in the network's depot table
        self.network.start_depots_ok(),
        // only if a start depot has to be chosen (the path does not start with a depot):
        // magnitude: the counts of the schedule's usage table fit u32 (vehicle ids are 16 bit)
        !self.network.sp_node(path_as_vec@[0]).sp_is_depot() ==> self.usage_counts_small(vehicle_type_idx, self.depot_usage@),
        // C06 / C17: some start depot node of the network has room for the type w.r.t. the schedule's usage table ("There should
        // be at least the overflow depot available."; that the overflow depot's capacity suffices is C17, slices/network_new.vs,
        // D5; lemma_depot_without_type_limit_suffices: a start depot node whose depot lists the type without per-type limit and
        // where fewer vehicles start in total than its total capacity suffices).  Otherwise `expect` panics.
        !self.network.sp_node(path_as_vec@[0]).sp_is_depot() ==> self.some_depot_has_room(vehicle_type_idx, self.depot_usage@), // @obl C06.spawn_vehicle.expect_needs_a_depot_with_room
    ensures
        // C01 / C10 "a vehicle only serves service trips of the vehicle's type": "If some node on the path is not
        // compatible with the vehicle type an error is returned", and every node of the new vehicle's tour is compatible
        !all_compatible(&self.network, path_as_vec@, vehicle_type_idx) ==> r is Err, // @obl C01.spawn_vehicle.only_compatible_nodes
        // D11: ids are 16 bit and never reused: when all 2^16 have been handed out the spawn is refused (the unfixed code
        // wrapped around and overwrote the vehicle stored under id 0)
        self.vehicle_counter > 0xffff ==> r is Err, // @obl C13.spawn_vehicle.refuses_instead_of_reusing_an_id
        r is Ok ==> all_compatible(&self.network, r->Ok_0.0.tours@[r->Ok_0.1].nodes@, vehicle_type_idx), // @obl C01.spawn_vehicle.only_compatible_nodes
        // C13 "documented effect and nothing else"
        r is Ok ==> self.spawned(vehicle_type_idx, path_as_vec@, &r->Ok_0.0, r->Ok_0.1), // @obl C13.spawn_vehicle.adds_exactly_one_vehicle_with_the_given_path
        // ... no activity of the path is lost, unless the path starts with a depot and ends with an activity (see "NOT
        // covered / finding" in the header)
        r is Ok ==> activities_kept(&self.network, path_as_vec@, r->Ok_0.0.tours@[r->Ok_0.1].nodes@), // @obl C13.spawn_vehicle.adds_exactly_one_vehicle_with_the_given_path
        r is Ok ==> self.listed(vehicle_type_idx, &r->Ok_0.0, r->Ok_0.1), // @obl C13.spawn_vehicle.adds_exactly_one_vehicle_with_the_given_path
        // C02 "the number of vehicles starting there stays within the depot's total capacity and within the per-type capacity
        // (types not listed for a depot never start there)": if the path does not start with a depot, the new vehicle's start depot
        // node is a start depot node of the network whose depot lists the type and had room for one more vehicle of it, per
        // type and in total, in the OLD usage table ...
        r is Ok && !self.network.sp_node(path_as_vec@[0]).sp_is_depot()
            ==> self.network.start_depot_nodes@.contains(r->Ok_0.0.tours@[r->Ok_0.1].nodes@[0])
                && self.sp_can_spawn(r->Ok_0.0.tours@[r->Ok_0.1].nodes@[0], vehicle_type_idx, self.depot_usage@), // @obl C02.spawn_vehicle.start_depot_had_room
        // ... hence the depot's limits hold for the NEW usage table (lemma_spawn_keeps_depot_limits)
        r is Ok && !self.network.sp_node(path_as_vec@[0]).sp_is_depot()
            ==> self.depot_limits_hold(r->Ok_0.0.tours@[r->Ok_0.1].nodes@[0], vehicle_type_idx, r->Ok_0.0.depot_usage@), // @obl C02.spawn_vehicle.depot_limits_hold_after_the_spawn
        // C13 "the vehicle is spawned from the nearest availabe depot": ... and it is the nearest such node (dead-head distance
        // from the depot to the start location of the first node of the path; ties: the one listed first)
        r is Ok && !self.network.sp_node(path_as_vec@[0]).sp_is_depot()
            ==> self.best_start_depot(r->Ok_0.0.tours@[r->Ok_0.1].nodes@[0], vehicle_type_idx, self.network.sp_node(path_as_vec@[0]).sp_start_location(), self.depot_usage@), // @obl C13.spawn_vehicle.nearest_start_depot_with_room
        // C13 "Similarly, if path does not end with a depot the vehicle is spawned to the nearest depot (from the end location of
        // the last trip)": if the path neither starts nor ends with a depot, the tour ends at the nearest end depot node
        // (capacities ignored; ties: the one listed first)
        r is Ok && !self.network.sp_node(path_as_vec@[0]).sp_is_depot() && !self.network.sp_node(path_as_vec@[path_as_vec@.len() - 1]).sp_is_depot()
            ==> self.network.nearest_end_depot(r->Ok_0.0.tours@[r->Ok_0.1].nodes@[r->Ok_0.0.tours@[r->Ok_0.1].nodes@.len() - 1],
                    self.network.sp_node(path_as_vec@[path_as_vec@.len() - 1]).sp_end_location()), // @obl C13.spawn_vehicle.nearest_end_depot
        // C10 "listings sorted and match": if every type's id list held exactly the vehicles of the type, it still does
        r is Ok && self.listings_match() ==> r->Ok_0.0.listings_match(), // @obl C10.spawn_vehicle.listings_still_match
        r is Ok ==> self.formations_follow(&r->Ok_0.0, r->Ok_0.1), // @obl C13.spawn_vehicle.formations_follow_update_train_formation
        // C09 "cached aggregates equal recomputation"
        r is Ok ==> r->Ok_0.0.costs == self.costs + r->Ok_0.0.tours@[r->Ok_0.1].costs, // @obl C09.spawn_vehicle.costs_plus_tour_costs
        r is Ok ==> usage_exact_for(r->Ok_0.0.depot_usage@, &self.network, r->Ok_0.0.vehicles@, r->Ok_0.0.tours@, r->Ok_0.1)
            && usage_same_except(self.depot_usage@, r->Ok_0.0.depot_usage@, r->Ok_0.1)
            && usage_exact(r->Ok_0.0.depot_usage@, &self.network, r->Ok_0.0.vehicles@, r->Ok_0.0.tours@), // @obl C09.spawn_vehicle.depot_usage_exact
        // C15 / C10 / C09: rotation cycles and maintenance violation
        r is Ok ==> self.transitions_follow(vehicle_type_idx, &r->Ok_0.0), // @obl C10.spawn_vehicle.transitions_follow_new_tours
        // ---- CLOSURE (C10 "after any sequence of schedule modifications", C09 / C11 "for every reachable schedule"): the result
        // satisfies the schedule-invariant bundle sv_ok() of the precondition AGAIN, conjunct by conjunct (spcl_lemma_closure,
        // env/spawn_vehicle_shim.vs).  Instance validity: the network is the same
        r is Ok ==> r->Ok_0.0.network.wf() && depot_lists_ok(&r->Ok_0.0.network), // @obl C10.spawn_vehicle.result_satisfies_the_schedule_invariants_again
        // ids / listings: vehicles under their own `Vehicle` id below the counter, with a tour; dummies under `Dummy` ids; id lists sorted
        r is Ok ==> r->Ok_0.0.sv_ids_ok(), // @obl C10.spawn_vehicle.result_satisfies_the_schedule_invariants_again
        // formations: every activity has an entry; the instance clause (A-types); C09: the cached unserved-passengers pair covers
        // every duplicate-free list of nodes w.r.t. the NEW table (re-established from the clause itself and the exact delta)
        r is Ok ==> r->Ok_0.0.spcl_forms_cover_activities() && r->Ok_0.0.spcl_trips_typed() && r->Ok_0.0.spcl_unserved_covers(), // @obl C10.spawn_vehicle.result_satisfies_the_schedule_invariants_again
        // formations, MAGNITUDE clauses (at most 2^17 vehicles per formation; the u32 capacity / seat sums fit with one more vehicle):
        // NOT invariants of the operation (every formation along the new tour grows by one vehicle, and sv_ok does not relate the
        // length of a formation to the number of vehicles); they hold again under the weakest hypothesis on the RESULT: the clause
        // itself for the formations that grew (the activities of the new tour) -- everywhere else it is inherited
        r is Ok && r->Ok_0.0.spcl_grown_len_small(r->Ok_0.0.tours@[r->Ok_0.1].nodes@) ==> r->Ok_0.0.spcl_forms_len_small(), // @obl C10.spawn_vehicle.result_satisfies_the_schedule_invariants_again
        r is Ok && r->Ok_0.0.spcl_grown_sums_fit(r->Ok_0.0.tours@[r->Ok_0.1].nodes@) ==> r->Ok_0.0.spcl_forms_sums_fit(), // @obl C10.spawn_vehicle.result_satisfies_the_schedule_invariants_again
        r is Ok && r->Ok_0.0.spcl_grown_len_small(r->Ok_0.0.tours@[r->Ok_0.1].nodes@) && r->Ok_0.0.spcl_grown_sums_fit(r->Ok_0.0.tours@[r->Ok_0.1].nodes@)
            ==> r->Ok_0.0.sv_formations_ok(), // @obl C10.spawn_vehicle.result_satisfies_the_schedule_invariants_again
        // rotation cycles: every clause of transitions_ok, INCLUDING its magnitude clause (fewer than 2^17 vehicles in the cycles:
        // they hold exactly the vehicles, and ids are 16 bit)
        r is Ok ==> r->Ok_0.0.transitions_ok(), // @obl C10.spawn_vehicle.result_satisfies_the_schedule_invariants_again
        // depot usage: exact w.r.t. the result's own network
        r is Ok ==> usage_exact(r->Ok_0.0.depot_usage@, &r->Ok_0.0.network, r->Ok_0.0.vehicles@, r->Ok_0.0.tours@), // @obl C10.spawn_vehicle.result_satisfies_the_schedule_invariants_again
        // the bundle.  `costs <= 2^61` is a magnitude clause, too, and not an invariant (costs grow by the costs of the new tour):
        // it is a hypothesis on the result
        r is Ok && r->Ok_0.0.spcl_grown_len_small(r->Ok_0.0.tours@[r->Ok_0.1].nodes@) && r->Ok_0.0.spcl_grown_sums_fit(r->Ok_0.0.tours@[r->Ok_0.1].nodes@)
            && r->Ok_0.0.costs <= sched_cost_bound() ==> r->Ok_0.0.sv_ok(), // @obl C10.spawn_vehicle.result_satisfies_the_schedule_invariants_again
        // the preconditions outside sv_ok that are not about the path: a known vehicle type stays known; A-index for the start depots
        r is Ok ==> forall|t: VehicleTypeIdx| self.type_known(t) ==> #[trigger] r->Ok_0.0.type_known(t), // @obl C10.spawn_vehicle.result_satisfies_the_schedule_invariants_again
        r is Ok ==> r->Ok_0.0.network.start_depots_ok(), // @obl C10.spawn_vehicle.result_satisfies_the_schedule_invariants_again
//@end
//@item solution/src/schedule.rs Schedule::from_tours
//@retname r
//@sig
    requires
        // the preconditions of Schedule::empty
        network.wf(), maintenance_listed(&network),
        network.number_of_service_nodes * network.config.costs.staff <= STAFF_COST_MAX,
        demand_total(&network, 0) <= u32::MAX, demand_total(&network, 1) <= u32::MAX,
        // instance validity as far as the schedule invariant sv_ok needs it; A-cap (magnitude)
        instance_ok(&network), caps_ok(&network),
        // the given tours: a listed vehicle type, not empty, nodes of the network, A-len, A-counter, A-cost
        forall|n: int| 0 <= n < all_jobs(entries(tours)).len() ==> job_ok(&network, #[trigger] all_jobs(entries(tours))[n]),
        // what the choice of a start depot in spawn_vehicle_for_path needs (find_best_start_depot_for_spawning, slices/depot_choice.vs):
        // instance validity, A-index (how Network::new fills the list; not proved in slice network_new): the start depot node list
        // holds StartDepot nodes of the network whose depot is in the network's depot table (not part of instance_ok, under which
        // Schedule::empty claims sv_ok)
        network.start_depots_ok(),
        // C06 / C17 "There should be at least the overflow depot available." (`expect` in find_best_start_depot_for_spawning panics
        // otherwise): SOME start depot node's depot (the overflow depot Network::new adds, slices/network_new.vs) lists the vehicle
        // type of every given tour without per-type limit and has a total capacity of at least the number of given tours.
        // From this instance-level fact some_depot_has_room is DERIVED for every intermediate schedule of the loop
        // (lemma_ft_call_depot: the exact usage table only counts the vehicles spawned so far); the magnitude usage_counts_small
        // is derived from the loop invariant alone
        some_depot_hosts_all(&network, all_jobs(entries(tours))), // @obl C06.from_tours.a_depot_hosts_every_given_tour
        // C06: `result.unwrap()` panics if a spawn fails
        every_spawn_succeeds(network, all_jobs(entries(tours))), // @obl C06.from_tours.unwrap_needs_every_spawn_to_succeed
    ensures
        r is Ok,
        // A-map: `entries(tours)` is the order in which the loop visits the map: every (type, tours) entry exactly once
        entries_ok(tours),
        // C14 "every flow unit is decoded into exactly one tour" / C13: the i-th given tour (entry by entry, within an entry
        // in the order of the Vec) is the tour of the vehicle with id i, a vehicle of the given type: the given nodes in
        // order with depots at the ends, no activity lost (vehicle_of_job); there are no other vehicles and no dummies:
        // the number of vehicles is the number of given tours
        from_tours_post(&r->Ok_0, network, all_jobs(entries(tours))), // @obl C14.from_tours.one_vehicle_per_given_tour
        all_jobs(entries(tours)).len() == tours_total(entries(tours), entries(tours).len() as int), // @obl C14.from_tours.one_vehicle_per_given_tour
        // C10: the result satisfies the schedule invariants the modifications take as precondition
        r->Ok_0.sv_ok() && r->Ok_0.listings_match(), // @obl C10.from_tours.satisfies_the_schedule_invariants
        // C09: the unserved passengers have their from-scratch value
        r->Ok_0.unserved_c(0) == unserved_from_scratch(&network, r->Ok_0.train_formations@, 0)
            && r->Ok_0.unserved_c(1) == unserved_from_scratch(&network, r->Ok_0.train_formations@, 1), // @obl C09.from_tours.unserved_passengers_are_the_from_scratch_value
        // C09: the costs are the staff costs of all service trips plus the costs of the tours of the vehicles 0, 1, …
        r->Ok_0.costs == network.number_of_service_nodes * network.config.costs.staff
            + pre_costs(r->Ok_0.tours@, all_ids(), all_jobs(entries(tours)).len() as int), // @obl C09.from_tours.costs_are_staff_costs_plus_tour_costs
        // (the loop invariant, opaque: the above plus what is needed to re-establish sv_ok after the next spawn)
        r->Ok_0.ft_inv(network, all_jobs(entries(tours))),
//@first
        let ghost net = network;
        let ghost es = entries(tours);
        let ghost jobs = all_jobs(es);
//@after "let mut schedule"
        proof { lemma_ft_init(&schedule, net); }
//@loop "for (vehicle_type, tours) in"
            invariant
                it.snapshot@@ == es, 0 <= it.index@ <= es.len(), jobs == all_jobs(es),
                schedule.ft_inv(net, jobs_upto(es, it.index@ as int)), // @obl C14.from_tours.one_vehicle_per_given_tour
                forall|n: int| 0 <= n < jobs.len() ==> job_ok(&net, #[trigger] jobs[n]),
                every_spawn_succeeds(net, jobs),
                net.start_depots_ok(), some_depot_hosts_all(&net, jobs),
//@before "for tour in"
            let ghost oi = it.index@ as int;
            let ghost ts = tours@;
            proof { assert(jobs_upto(es, oi) + jobs_of_entry(es[oi], 0) =~= jobs_upto(es, oi)); }
//@loop "for tour in"
                invariant
                    it.snapshot@.remaining() == ts, ts == es[oi].1@, vehicle_type == es[oi].0, 0 <= oi < es.len(),
                    0 <= it.index@ <= ts.len(), jobs == all_jobs(es),
                    // every tour given so far is the tour of exactly one vehicle, ids in order of creation (ft_inv, vehicle_of_job)
                    schedule.ft_inv(net, jobs_upto(es, oi) + jobs_of_entry(es[oi], it.index@ as int)), // @obl C14.from_tours.one_vehicle_per_given_tour
                    forall|n: int| 0 <= n < jobs.len() ==> job_ok(&net, #[trigger] jobs[n]),
                    every_spawn_succeeds(net, jobs),
                    net.start_depots_ok(), some_depot_hosts_all(&net, jobs),
//@before "let result"
                let ghost done = jobs_upto(es, oi) + jobs_of_entry(es[oi], it.index@ as int);
                let ghost s0 = schedule;
                let ghost job: JobV = (vehicle_type, tour);
                proof {
                    lemma_jobs_prefix(es, oi, it.index@ as int, es.len() as int);
                    assert(jobs[done.len() as int] == job);
                    lemma_ft_call(&schedule, net, done, job);
                    // C06: `expect("There should be at least the overflow depot available.")` cannot panic in this state
                    lemma_ft_call_depot(&schedule, net, jobs, done, job);
                }
//@after "let result"
                proof {
                    // C06: the spawn succeeds (stated precondition)
                    assert(call_ensures(Schedule::spawn_vehicle_for_path, (&s0, jobs[done.len() as int].0, jobs[done.len() as int].1), result));
                    assert(result is Ok); // @obl C06.from_tours.unwrap_needs_every_spawn_to_succeed
                    lemma_ft_step(&s0, &result->Ok_0.0, net, done, job, result->Ok_0.1); // @obl C14.from_tours.one_vehicle_per_given_tour
                    assert(done.push(job) =~= jobs_upto(es, oi) + jobs_of_entry(es[oi], it.index@ + 1));
                }
//@before "Ok(schedule)"
        proof {
            lemma_ft_post(&schedule, net, jobs);
            lemma_jobs_len(es, es.len() as int);
        }
//@end

} // mod tr
} // verus!
fn main() {}
