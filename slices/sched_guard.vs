// slice `sched_guard`: the schedule-level type guard of the reassign operations (C01, type clause) and the
// incremental update of the rotation cycles and the maintenance violation (C09, C10)
#![feature(allocator_api)]
use vstd::prelude::*;
use std::ops::Add;
use std::ops::Sub;
use std::collections::{BTreeMap, HashMap};
use std::sync::Arc;
//@include env/display_time.rs
//@include env/display_model.rs
verus! {
//@include env/std_specs.vs
//@include env/seqiter.vs
//@include env/time_types.vs
//@include-trusted env/time_ops.vs
//@include env/model_types.vs
//@include env/broadcast_model.vs
//@include env/model_network_types.vs
//@include env/model_spec.vs
//@include-trusted env/model_fns.vs
//@include env/solution_types.vs
//@include env/tour_spec.vs
//@include env/sums.vs
//@include-trusted env/dist_ops.vs
//@include env/vsum_impls.vs
//@include env/cache_spec.vs
//@include env/cache_lemmas.vs

pub mod tr {
use super::*;
use vstd::prelude::*;
use self::im::HashMap;
use self::im_set::HashSet;
//@include env/im_shim.vs

//@item solution/src/transition.rs type CycleIdx : plain
//@end
//@item solution/src/transition/transition_cycle.rs struct TransitionCycle : plain
//@drop-derive Clone
//@end
impl Clone for TransitionCycle {
    #[verifier::external_body]
    fn clone(&self) -> (r: Self)
        ensures r == *self
    { unimplemented!() }
}
//@item solution/src/transition.rs struct Transition : plain
//@end
//@include env/transition_spec.vs
//@include env/schedule_shim.vs
//@include env/sched_guard_shim.vs

// ---- model: the vehicle type a service trip prescribes (verified here) --------------------------------
//@item model/src/network/nodes.rs ServiceTrip::vehicle_type
//@retname r
//@sig
    ensures r == self.vehicle_type,
//@end
//@item model/src/network/nodes.rs Node::as_service_trip
//@retname r
//@sig
    requires self is Service,
    ensures *r == self->Service_0.1,
//@end
//@item model/src/network.rs Network::vehicle_type_for
//@retname r
//@sig
    requires self.has(service_trip), self.sp_node(service_trip) is Service,
    ensures r == self.sp_node(service_trip)->Service_0.1.vehicle_type,
//@end
//@item model/src/network.rs Network::compatible_with_vehicle_type
//@retname r
//@sig
    requires self.has(node),
    ensures r == self.sp_compatible(node, vehicle_type), // @obl C01.compatible_with_vehicle_type.not_a_trip_of_another_type
//@end
//@item model/src/vehicle_types.rs VehicleType::idx
//@retname r
//@sig
    ensures r == self.idx,
//@end
//@item model/src/base_types.rs VehicleIdx::is_real
//@retname r
//@sig
    ensures r == (self is Vehicle),
//@end

// ---- solution: vehicles and the schedule's look-ups (verified here) ----------------------------------
//@item solution/src/vehicle.rs Vehicle::type_idx
//@retname r
//@sig
    ensures r == vtype(*self),
//@end
//@item solution/src/schedule.rs Schedule::is_vehicle
//@retname r
//@sig
    ensures r == self.vehicles@.contains_key(vehicle),
//@end
//@item solution/src/schedule.rs Schedule::get_vehicle
//@retname r
//@sig
    ensures
        self.vehicles@.contains_key(vehicle) ==> r is Ok && *r->Ok_0 == self.vehicles@[vehicle],
        !self.vehicles@.contains_key(vehicle) ==> r is Err,
//@end
//@item solution/src/schedule.rs Schedule::vehicle_type_of
//@retname r
//@sig
    ensures
        self.vehicles@.contains_key(vehicle) ==> r == Ok::<VehicleTypeIdx, String>(self.type_of(vehicle)),
        !self.vehicles@.contains_key(vehicle) ==> r is Err,
//@end
//@item solution/src/schedule.rs Schedule::tour_of
//@retname r
//@sig
    ensures
        self.has_tour(vehicle) ==> r is Ok && *r->Ok_0 == self.sp_tour_of(vehicle),
        !self.has_tour(vehicle) ==> r is Err,
//@end
//@item solution/src/schedule.rs Schedule::get_network
//@retname r
//@sig
    ensures r == self.network,
//@end

// ---- Tour / Path: trusted stubs (verified in the tour slices; contract text copied from there) ------
//@item solution/src/tour.rs Tour::sub_path : trusted
//@retname r
//@sig
    requires self.wf(), self.network.has(segment.start), self.network.has(segment.end), tour_len_ok(self.nodes@),
        // "A segment is a pair of non-depot node ids": at least not one depot taken alone
        !(self.network.sp_node(segment.start).sp_is_depot() && segment.start == segment.end),
    ensures
        // C12: "extracting a sub-path of an existing segment always succeeds"
        forall|i: int, j: int| 0 <= i <= j < self.len() && #[trigger] self.nodes@[i] == segment.start && #[trigger] self.nodes@[j] == segment.end
            && !all_depots(&self.network, self.nodes@.subrange(i, j + 1))
            ==> r is Ok && r.unwrap().node_sequence@ == self.nodes@.subrange(i, j + 1), // @obl C12.sub_path.always_succeeds
        r is Ok ==> exists|i: int, j: int| 0 <= i <= j < self.len() && self.nodes@[i] == segment.start && self.nodes@[j] == segment.end
            && r.unwrap().node_sequence@ == #[trigger] self.nodes@.subrange(i, j + 1),
//@end
//@item solution/src/path.rs Path::iter : trusted
//@ret SeqIter<NodeIdx>
//@retname r
//@sig
    ensures r@ == self.node_sequence@,
//@end

// ---- (B) the type guard of fit_reassign / override_reassign ------------------------------------------
//@item solution/src/schedule/modifications.rs Schedule::check_receiver_type_compatibility
//@retname r
//@sig
    requires
        // what the callers guarantee (the two `unwrap`s): the provider has a tour, a well-formed tour of
        // the schedule's network, and the segment is a segment of that tour
        self.has_tour(provider),
        self.sp_tour_of(provider).wf(),
        *self.sp_tour_of(provider).network == *self.network,
        tour_len_ok(self.sp_tour_of(provider).nodes@),
        exists|i: int, j: int| #[trigger] Schedule::seg_at(&self.sp_tour_of(provider), segment, i, j)
            && !all_depots(&self.network, self.sp_tour_of(provider).nodes@.subrange(i, j + 1)),
    ensures
        // C01, type clause: the receiver is a real vehicle and the provider is a dummy or a vehicle of
        // another type: the guard only lets segments pass all of whose nodes the receiver's type may serve
        self.vehicles@.contains_key(receiver)
            && !(self.vehicles@.contains_key(provider) && self.type_of(provider) == self.type_of(receiver))
            && r
            ==> forall|i: int, j: int, p: int| #[trigger] Schedule::seg_at(&self.sp_tour_of(provider), segment, i, j) && i <= p <= j
                ==> self.network.sp_compatible(#[trigger] self.sp_tour_of(provider).nodes@[p], self.type_of(receiver)), // @obl C01.type_guard.true_only_if_compatible
//@closure any#0
    -> (b: bool) requires self.network.has(n) ensures b == !self.network.sp_compatible(n, vehicle_type_of_receiver)
//@first
        proof { lemma_segment_unique(self, provider, segment); }
//@after "if self"
                proof {
                    let t = self.sp_tour_of(provider);
                    assert forall|i: int, j: int, p: int| #[trigger] Schedule::seg_at(&t, segment, i, j) && i <= p <= j
                        implies self.network.sp_compatible(#[trigger] t.nodes@[p], vehicle_type_of_receiver) by {
                        // the sub-path is t[i ..= j]; `any` returned false for its node number p - i
                        assert(t.nodes@.subrange(i, j + 1)[p - i] == t.nodes@[p]);
                    }
                }
//@end

} // mod tr
} // verus!
fn main() {}
