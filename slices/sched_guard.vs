// slice `sched_guard`: the schedule-level type guard of the reassign operations (C01, type clause) and the
// incremental update of the rotation cycles and the maintenance violation (C09, C10)
#![feature(allocator_api)]
use vstd::prelude::*;
use std::ops::Add;
use std::ops::Sub;
use std::collections::{BTreeMap, HashMap};
use std::sync::Arc;
//@include env/display_time.rs
//@include env/display_model.rs
verus! {
//@include env/std_specs.vs
//@include env/seqiter.vs
//@include env/time_types.vs
//@include-trusted env/time_ops.vs
//@include env/model_types.vs
//@include env/broadcast_model.vs
//@include env/model_network_types.vs
//@include env/model_spec.vs
//@include-trusted env/model_fns.vs
//@include env/solution_types.vs
//@include env/tour_spec.vs
//@include env/sums.vs
//@include-trusted env/dist_ops.vs
//@include env/vsum_impls.vs
//@include env/cache_spec.vs
//@include-proved env/cache_lemmas.vs

pub mod tr {
use super::*;
use vstd::prelude::*;
use self::im::HashMap;
use self::im_set::HashSet;
//@include env/im_shim.vs

//@item solution/src/transition.rs type CycleIdx : plain
//@end
//@item solution/src/transition/transition_cycle.rs struct TransitionCycle : plain
//@drop-derive Clone
//@end
impl Clone for TransitionCycle {
    #[verifier::external_body]
    fn clone(&self) -> (r: Self)
        ensures r == *self
    { unimplemented!() }
}
//@item solution/src/transition.rs struct Transition : plain
//@end
//@include env/transition_spec.vs
//@include env/schedule_shim.vs
//@include env/sched_guard_shim.vs

// ---- model: the vehicle type a service trip prescribes (verified here) --------------------------------
//@item model/src/network/nodes.rs ServiceTrip::vehicle_type
//@retname r
//@sig
    ensures r == self.vehicle_type,
//@end
//@item model/src/network/nodes.rs Node::as_service_trip
//@retname r
//@sig
    requires self is Service,
    ensures *r == self->Service_0.1,
//@end
//@item model/src/network.rs Network::vehicle_type_for
//@retname r
//@sig
    requires self.has(service_trip), self.sp_node(service_trip) is Service,
    ensures r == self.sp_node(service_trip)->Service_0.1.vehicle_type,
//@end
//@item model/src/network.rs Network::compatible_with_vehicle_type
//@retname r
//@sig
    requires self.has(node),
    ensures r == self.sp_compatible(node, vehicle_type), // @obl C01.compatible_with_vehicle_type.not_a_trip_of_another_type
//@end
//@item model/src/vehicle_types.rs VehicleType::idx
//@retname r
//@sig
    ensures r == self.idx,
//@end
//@item model/src/base_types.rs VehicleIdx::is_real
//@retname r
//@sig
    ensures r == (self is Vehicle),
//@end

// ---- solution: vehicles and the schedule's look-ups (verified here) ----------------------------------
//@item solution/src/vehicle.rs Vehicle::type_idx
//@retname r
//@sig
    ensures r == vtype(*self),
//@end
//@item solution/src/schedule.rs Schedule::is_vehicle
//@retname r
//@sig
    ensures r == self.vehicles@.contains_key(vehicle),
//@end
//@item solution/src/schedule.rs Schedule::get_vehicle
//@retname r
//@sig
    ensures
        self.vehicles@.contains_key(vehicle) ==> r is Ok && *r->Ok_0 == self.vehicles@[vehicle],
        !self.vehicles@.contains_key(vehicle) ==> r is Err,
//@end
//@item solution/src/schedule.rs Schedule::vehicle_type_of
//@retname r
//@sig
    ensures
        self.vehicles@.contains_key(vehicle) ==> r == Ok::<VehicleTypeIdx, String>(self.type_of(vehicle)),
        !self.vehicles@.contains_key(vehicle) ==> r is Err,
//@end
//@item solution/src/schedule.rs Schedule::tour_of
//@retname r
//@sig
    ensures
        self.has_tour(vehicle) ==> r is Ok && *r->Ok_0 == self.sp_tour_of(vehicle),
        !self.has_tour(vehicle) ==> r is Err,
//@end
//@item solution/src/schedule.rs Schedule::get_network
//@retname r
//@sig
    ensures r == self.network,
//@end

// ---- Tour / Path: trusted stubs (verified in the tour slices; contract text copied from there) ------
//@item solution/src/tour.rs Tour::sub_path : trusted
//@retname r
//@sig
    requires self.wf(), self.network.has(segment.start), self.network.has(segment.end), tour_len_ok(self.nodes@),
        // "A segment is a pair of non-depot node ids": at least not one depot taken alone
        !(self.network.sp_node(segment.start).sp_is_depot() && segment.start == segment.end),
    ensures
        // C12: "extracting a sub-path of an existing segment always succeeds"
        forall|i: int, j: int| 0 <= i <= j < self.len() && #[trigger] self.nodes@[i] == segment.start && #[trigger] self.nodes@[j] == segment.end
            && !all_depots(&self.network, self.nodes@.subrange(i, j + 1))
            ==> r is Ok && r.unwrap().node_sequence@ == self.nodes@.subrange(i, j + 1), // @obl C12.sub_path.always_succeeds
        r is Ok ==> exists|i: int, j: int| 0 <= i <= j < self.len() && self.nodes@[i] == segment.start && self.nodes@[j] == segment.end
            && r.unwrap().node_sequence@ == #[trigger] self.nodes@.subrange(i, j + 1),
//@end
//@item solution/src/path.rs Path::iter : trusted
//@ret SeqIter<NodeIdx>
//@retname r
//@sig
    ensures r@ == self.node_sequence@,
//@end

// ---- (B) the type guard of fit_reassign / override_reassign ------------------------------------------
//@item solution/src/schedule/modifications.rs Schedule::check_receiver_type_compatibility
//@retname r
//@sig
    requires
        // what the callers guarantee (the two `unwrap`s): the provider has a tour, a well-formed tour of
        // the schedule's network, and the segment is a segment of that tour
        self.has_tour(provider),
        self.sp_tour_of(provider).wf(),
        *self.sp_tour_of(provider).network == *self.network,
        tour_len_ok(self.sp_tour_of(provider).nodes@),
        exists|i: int, j: int| #[trigger] Schedule::seg_at(&self.sp_tour_of(provider), segment, i, j)
            && !all_depots(&self.network, self.sp_tour_of(provider).nodes@.subrange(i, j + 1)),
    ensures
        // C01, type clause: the receiver is a real vehicle and the provider is a dummy or a vehicle of
        // another type: the guard only lets segments pass all of whose nodes the receiver's type may serve
        self.vehicles@.contains_key(receiver)
            && !(self.vehicles@.contains_key(provider) && self.type_of(provider) == self.type_of(receiver))
            && r
            ==> forall|i: int, j: int, p: int| #[trigger] Schedule::seg_at(&self.sp_tour_of(provider), segment, i, j) && i <= p <= j
                ==> self.network.sp_compatible(#[trigger] self.sp_tour_of(provider).nodes@[p], self.type_of(receiver)), // @obl C01.type_guard.true_only_if_compatible
//@closure any#0
    -> (b: bool) requires self.network.has(n) ensures b == !self.network.sp_compatible(n, vehicle_type_of_receiver)
//@first
        proof { lemma_segment_unique(self, provider, segment); }
//@after "if self"
                proof {
                    let t = self.sp_tour_of(provider);
                    assert forall|i: int, j: int, p: int| #[trigger] Schedule::seg_at(&t, segment, i, j) && i <= p <= j
                        implies self.network.sp_compatible(#[trigger] t.nodes@[p], vehicle_type_of_receiver) by {
                        // the sub-path is t[i ..= j]; `any` returned false for its node number p - i
                        assert(t.nodes@.subrange(i, j + 1)[p - i] == t.nodes@[p]);
                    }
                }
//@end

// ---- Transition: trusted stubs (verified in the transition slice; contract text copied from there) ---
//@item solution/src/transition/modifications.rs Transition::add_vehicle_to_own_cycle : trusted
//@retname r
//@sig
    requires
        exists|tours: Map<VehicleIdx, Tour>| #[trigger] self.wf(network, tours),
        !self.has_vehicle(vehicle),
        tour_ok(network, new_tour),
        self.total_len() < max_vehicles(),
    ensures
        forall|tours: Map<VehicleIdx, Tour>| #[trigger] self.wf(network, tours)
            ==> r.wf(network, tours.insert(vehicle, *new_tour)), // @obl C15.add_vehicle_to_own_cycle.wf
        // a new one-vehicle cycle, reusing an index from empty_cycles if there is one
        r.has_vehicle(vehicle) && 0 <= r.cycle_of(vehicle) < r.n() && r.cyc(r.cycle_of(vehicle)) == seq![vehicle], // @obl C15.add_vehicle_to_own_cycle.membership
        r.cycle_lookup@ == self.cycle_lookup@.insert(vehicle, r.cycle_of(vehicle) as usize),
        self.empty_cycles@.len() == 0 ==> r.n() == self.n() + 1 && r.cycle_of(vehicle) == self.n(),
        self.empty_cycles@.len() > 0 ==> r.n() == self.n() && r.cycle_of(vehicle) == self.empty_cycles@.last()
            && r.empty_cycles@ == self.empty_cycles@.drop_last(), // @obl C15.add_vehicle_to_own_cycle.reuses_empty_cycle
        forall|i: int| 0 <= i < self.n() && i != r.cycle_of(vehicle) ==> #[trigger] r.cyc(i) == self.cyc(i),
//@end
//@item solution/src/transition/modifications.rs Transition::update_vehicle : trusted
//@retname r
//@sig
    requires
        self.wf(network, eff_tours(updated_tours@, old_tours@)),
        self.has_vehicle(vehicle),
        // caller-side assumption: the tour that `vehicle` had so far is read from old_tours, i.e. a
        // vehicle is updated at most once per round
        !updated_tours@.contains_key(vehicle),
        tour_ok(network, new_tour),
    ensures
        r.wf(network, eff_tours(updated_tours@, old_tours@).insert(vehicle, *new_tour)), // @obl C15.update_vehicle.wf
        r.n() == self.n() && (forall|i: int| 0 <= i < self.n() ==> #[trigger] r.cyc(i) == self.cyc(i)), // @obl C15.update_vehicle.same_cycles
        r.cycle_lookup@ == self.cycle_lookup@,
        r.empty_cycles@ == self.empty_cycles@,
//@end
//@item solution/src/transition/modifications.rs Transition::remove_vehicle : trusted
//@retname r
//@sig
    requires
        self.wf(network, eff_tours(updated_tours@, old_tours@)),
        self.has_vehicle(vehicle),
        // caller-side assumption: the tour of the removed vehicle is read from old_tours
        !updated_tours@.contains_key(vehicle),
    ensures
        r.wf(network, eff_tours(updated_tours@, old_tours@)), // @obl C15.remove_vehicle.wf
        // the vehicle is gone from its cycle and from the lookup; the cycle index is pushed to
        // empty_cycles if the cycle became empty
        r.cycle_lookup@ == self.cycle_lookup@.remove(vehicle), // @obl C15.remove_vehicle.lookup
        r.n() == self.n(),
        r.cyc(self.cycle_of(vehicle)) == self.cyc(self.cycle_of(vehicle)).remove(self.cyc(self.cycle_of(vehicle)).index_of(vehicle)), // @obl C15.remove_vehicle.cycle
        forall|i: int| 0 <= i < self.n() && i != self.cycle_of(vehicle) ==> #[trigger] r.cyc(i) == self.cyc(i),
        r.empty_cycles@ == (if self.cyc(self.cycle_of(vehicle)).len() == 1 { self.empty_cycles@.push(self.cycle_of(vehicle) as CycleIdx) } else { self.empty_cycles@ }), // @obl C15.remove_vehicle.empty_cycles
        r.total_len() == self.total_len() - 1,
//@end
//@item solution/src/transition.rs Transition::maintenance_violation
//@retname r
//@sig
    ensures r == self.total_maintenance_violation,
//@end

// ---- (A) the incremental update of the rotation cycles and of the maintenance violation --------------
//@item solution/src/schedule/modifications.rs Schedule::update_transitions_and_violation_fast
//@viter
//@sig
    requires
        // the old schedule is consistent (C15, C10, C09), no real vehicle is listed twice, every listed real
        // vehicle is an old and / or a new vehicle with an admissible new tour, magnitudes: see upd_pre
        self.upd_pre(old(transitions)@, *old(maintenance_violation) as int, changed_vehicles@, vehicles@, tours@),
        // (clause of upd_pre, repeated: the caller-side assumption the transition slice names) no real vehicle
        // is listed twice: update_vehicle / remove_vehicle read the previous tour of the vehicle from self.tours
        forall|i: int, j: int| 0 <= i < j < changed_vehicles@.len() && changed_vehicles@[i] is Vehicle
            ==> #[trigger] changed_vehicles@[i] != #[trigger] changed_vehicles@[j],
    ensures
        forall|vt: VehicleTypeIdx| old(transitions)@.contains_key(vt) <==> #[trigger] final(transitions)@.contains_key(vt),
        // C15 / C10: every transition is consistent with the NEW tours ...
        forall|vt: VehicleTypeIdx| #[trigger] final(transitions)@.contains_key(vt) ==> final(transitions)@[vt].wf(&self.network, tours@), // @obl C10.update_transitions.consistent_with_new_tours
        // ... and its cycles hold exactly the NEW vehicles of its type ("every real vehicle belongs to
        // exactly one rotation cycle of its type": one cycle by wf_cycles / wf_lookup)
        forall|vt: VehicleTypeIdx, v: VehicleIdx| #![trigger final(transitions)@[vt].has_vehicle(v)] final(transitions)@.contains_key(vt)
            ==> (final(transitions)@[vt].has_vehicle(v) <==> (vehicles@.contains_key(v) && vtype(vehicles@[v]) == vt)), // @obl C10.update_transitions.membership
        // C09: "the schedule's maintenance violation equals its from-scratch value"
        *final(maintenance_violation) == viol_sum(final(transitions)@, sched_types(self)), // @obl C09.update_transitions.violation_sum
        // the transitions of the other types are untouched
        forall|vt: VehicleTypeIdx| #[trigger] final(transitions)@.contains_key(vt) && !self.touches_type(vehicles@, changed_vehicles@, vt)
            ==> final(transitions)@[vt] == old(transitions)@[vt], // @obl C10.update_transitions.other_types_untouched
//@closure-params filter#0
    &&VehicleIdx
//@closure filter#0
    -> (b: bool) ensures b == (**v is Vehicle)
//@closure unwrap_or_else#0
    -> (q: &Vehicle) requires self.vehicles@.contains_key(*vehicle) ensures *q == self.vehicles@[*vehicle]
//@first
        let ghost trs0 = transitions@;
        let ghost mv0 = *maintenance_violation as int;
//@after "let mut tours_updated_one_by_one"
        proof {
            lemma_init(self, trs0, mv0, changed_vehicles@, vehicles@, tours@, Seq::<VehicleIdx>::empty());
        }
//@loop "for vehicle in"
            invariant
                is_real_filter(changed_vehicles@, it.snapshot@@),
                0 <= it.index@ <= it.snapshot@@.len(),
                self.upd_pre(trs0, mv0, changed_vehicles@, vehicles@, tours@),
                self.inv_at(trs0, transitions@, tours_updated_one_by_one@, vehicles@, tours@, derefs(it.snapshot@@), it.index@ as int),
                *maintenance_violation == viol_sum(transitions@, sched_types(self)),
                len_sum(transitions@, sched_types(self)) + (changed_vehicles@.len() - it.index@) <= max_vehicles(),
//@before "let vehicle_type"
            let ghost rc = derefs(it.snapshot@@);
            let ghost k = it.index@ as int;
            let ghost upd0 = tours_updated_one_by_one@;
            let ghost e0 = eff_tours(upd0, self.tours@);
            proof {
                let cv = changed_vehicles@;
                let vts = sched_types(self);
                lemma_real_filter(cv, it.snapshot@@);
                assert(rc[k] == *vehicle);
                assert(real_in(cv, rc[k]));
                let i = choose|i: int| 0 <= i < cv.len() && cv[i] == rc[k];
                assert(self.change_ok(trs0, vehicles@, tours@, cv[i]));
                assert(!done(rc, k, *vehicle)) by {
                    if done(rc, k, *vehicle) {
                        let j = choose|j: int| 0 <= j < k && #[trigger] rc[j] == *vehicle;
                        assert(rc[j] == rc[k]);
                    }
                }
                // magnitudes
                assert forall|i: int| 0 <= i < vts.len() implies (#[trigger] transitions@[vts[i]]).wf_but_empty(&self.network, e0) by {
                    assert(vts.contains(vts[i]));
                    assert(trs0.contains_key(vts[i]));
                    assert(transitions@.contains_key(vts[i]));
                }
                lemma_type_sums_bounds(&self.network, e0, transitions@, vts);
            }
//@before "let new_transition = match"
            proof {
                let vts = sched_types(self);
                assert(vehicle_type == self.eff_type(vehicles@, *vehicle));
                assert(trs0.contains_key(vehicle_type));
                assert(transitions@.contains_key(vehicle_type));
                assert(*old_transition == transitions@[vehicle_type]);
                assert(old_transition.wf(&self.network, e0));
                assert(old_transition.has_vehicle(*vehicle) <==> self.member_at(vehicles@, rc, k, *vehicle, vehicle_type));
                assert(!upd0.contains_key(*vehicle));
                assert(vts.contains(vehicle_type));
                let i = choose|i: int| 0 <= i < vts.len() && vts[i] == vehicle_type;
                assert(0 <= transitions@[vts[i]].total_len() <= len_sum(transitions@, vts));
            }
//@before "*maintenance_violation ="
            proof {
                let v = *vehicle;
                let vts = sched_types(self);
                let ls = len_sum(transitions@, vts);
                old_transition@.lemma_bounds(&self.network, e0);
                if vehicles@.contains_key(v) {
                    assert(tours_updated_one_by_one@ == upd0.insert(v, &tours@[v]));
                    assert(new_transition.wf(&self.network, e0.insert(v, tours@[v])));
                    new_transition@.lemma_bounds(&self.network, e0.insert(v, tours@[v]));
                    if self.vehicles@.contains_key(v) {
                        lemma_same_cycles_len(old_transition, &new_transition);
                    } else {
                        lemma_own_cycle_len(old_transition, &new_transition, v);
                    }
                    assert forall|x: VehicleIdx| #[trigger] new_transition.has_vehicle(x) <==> (old_transition.has_vehicle(x) || x == v) by {}
                } else {
                    assert(tours_updated_one_by_one@ == upd0);
                    assert(new_transition.wf(&self.network, e0));
                    new_transition@.lemma_bounds(&self.network, e0);
                    assert forall|x: VehicleIdx| #[trigger] new_transition.has_vehicle(x) <==> (old_transition.has_vehicle(x) && x != v) by {}
                }
                lemma_step(self, trs0, transitions@, upd0, tours_updated_one_by_one@, vehicles@, tours@, rc, k, new_transition);
                lemma_type_sums_insert(transitions@, vts, vehicle_type, new_transition);
                assert(ls * vehicle_bound() <= 0x400_0000_0000_0000) by (nonlinear_arith)
                    requires 0 <= ls <= 0x2_0000, vehicle_bound() == 0x200_0000_0000;
            }
//@after "for vehicle in"
        proof {
            let cv = changed_vehicles@;
            assert(exists|out: Seq<&VehicleIdx>| #[trigger] is_real_filter(cv, out)
                && self.inv_at(trs0, transitions@, tours_updated_one_by_one@, vehicles@, tours@, derefs(out), out.len() as int));
            let out = choose|out: Seq<&VehicleIdx>| #[trigger] is_real_filter(cv, out)
                && self.inv_at(trs0, transitions@, tours_updated_one_by_one@, vehicles@, tours@, derefs(out), out.len() as int);
            lemma_real_filter(cv, out);
            lemma_finish(self, trs0, mv0, transitions@, tours_updated_one_by_one@, cv, vehicles@, tours@, derefs(out));
        }
//@end

} // mod tr
} // verus!
fn main() {}
