// slice `search_loop`: rapid_solve's parallel local search (pinned crate, 0.1.7) as rssched uses it.
//   C08 "Every step the local search accepts strictly improves the schedule in the lexicographic order unserved passengers, then
//        maintenance violation, then vehicle count, then costs, so its result is never worse than the min-cost-flow start solution in
//        that order.  The search stops only at a schedule it cannot improve further: running it again on its own result changes nothing."
// The order itself (ObjectiveValue::cmp / partial_cmp is the lexicographic order of the four aggregates) is slice `objective_eval`;
// this slice puts the ACCEPTANCE RULE, the LOOP, the LIMITS and the FIXPOINT under contract, in the vocabulary of
// env/objective_eval_shim.vs (`lex_upto`, `first_diff`, `ival`, `all_integer`): no second order is defined.
//
// UNDER CONTRACT (verbatim source text)
//  (a) ParallelMinimizer::improve (parallel_minimizer.rs), the WHOLE body incl. the rayon chain `neighbors_of(..).map(evaluate).min_by(..)`
//      (over the shim type ParIter, A-lib) and the acceptance rule `match best_neighbor_opt { Some(b) => if b < solution { Some(b) } else
//      { None }, None => None }`; emitted as an inherent method (a trait impl cannot carry `requires`).
//        C08.search.accepts_only_strict_improvements   Some(n) only if n.objective_value() < solution.objective_value()
//        C08.search.accepted_is_an_evaluated_neighbour Some(n): n is the evaluation (by the minimizer's objective) of a neighbour
//        C08.search.none_means_no_better_neighbour     None IFF no evaluation of any neighbour is strictly smaller (=> uses the minimality
//                                                      of min_by [A-lib] and the proved transitivity lemma_ov_trans)
//        C08.search.every_neighbour_is_evaluated_with_the_objective / best_neighbour_is_chosen_by_the_objective_order (closure contracts)
//  (b) ParallelLocalSearchSolver::solve (parallel_local_search/mod.rs, impl of trait Solver, emitted as an inherent method), whole body:
//      PARTIAL correctness only (`exec_allows_no_decreases_clause`): TERMINATION IS NOT PROVED (rapid_solve has no measure; it relies on
//      the strict order having no infinite descending chain from the start value).
//        C08.search.every_accepted_step_is_a_strict_decrease (assert after `current_solution = new_solution`)
//        C08.search.result_not_worse_than_start       result <= every evaluation of the initial solution under the solver's objective
//        C08.search.stops_only_at_fixpoint            time_limit is None && iteration_limit is None ==> improve(result) is None
//        C08.search.unimprovable_start_is_returned_unchanged   improve(evaluate(initial)) is None ==> result is that evaluation (0 steps)
//      and `iteration_counter += 1` (u32) does not overflow, `(self.function_between_steps)(..)` is called within its precondition.
//  (c) ParallelLocalSearchSolver::with_options: the struct literal `Self { objective, local_improver, function_between_steps: .., time_limit,
//      iteration_limit }` as fragment frag_store_options (C08.search.with_options_stores_the_{selected_improver,time_limit,iteration_limit});
//      ParallelMinimizer::new verbatim.  NOT verifiable: the `let local_improver = match local_improver { Some(x) => x, None =>
//      Box::new(ParallelMinimizer::new(neighborhood, objective.clone())) as Box<dyn ParallelLocalImprover<S>> }` (Verus: "does not support this
//      cast"); its text is pinned by the skeleton hash and with_options is a STUB whose clause "None selects ParallelMinimizer" is assumed.
//  (d) solver::local_search::build_local_search_solver: the call `ParallelLocalSearchSolver::with_options(neighborhood, objective, None,
//      Some(function_between_steps), None, None)` lifted as a whole (fragment frag_search_options, `stmt`), the rest pinned by skeleton:
//        C08.search.default_improver / no_time_limit / no_iteration_limit / searches_with_the_built_objective  (on the returned solver)
//  closing lemmas (proved): lemma_minimizer_is_ok (the default improver satisfies the improver hypothesis of solve),
//      lemma_built_search_stops_at_a_local_minimum (C08.search.result_is_a_local_minimum: for the solver of (d) a result of solve has no
//      strictly smaller evaluated neighbour), lemma_search_order_is_the_property_order (on reported vectors `<` is lex4 of the aggregates),
//      lemma_ov_trans / lemma_lex_trans (transitivity), lemma_ov_cmp_same_entries, lemma_first_diff_idx, lemma_lex_value.
//
// ASSUMPTIONS (env/search_loop_shim.vs unless said otherwise)
//   A-lib/R7a axiom_ov_cmp_lex: `partial_cmp` of ObjectiveValue is Some(o) with lex_upto(x, y, common_len, o) for Integer vectors = the
//           VERIFIED postcondition of ObjectiveValue::partial_cmp in slice objective_eval; PartialOrdSpecImpl: partial_cmp is never None.
//   A-std   `a < b` is std's default PartialOrd::lt = `partial_cmp(a, b) == Some(Less)` (vstd's specification of lt/le/gt/ge); the trait
//           impls PartialEq / PartialOrd for ObjectiveValue are external_body stubs (bodies verified in objective_eval as inherent
//           methods); `==` of ObjectiveValue carries no specification.  std::time::Instant::{now, duration_since}, Duration::from_secs:
//           no contract (time stamps).  vstd's own: Arc::clone, Option::unwrap, `>` on core::time::Duration.
//   A-lib (rayon) ParIter<T>: a rayon ParallelIterator is the sequence of its items in some order; `map` applies the closure to every
//           item; `min_by` returns None iff there is no item, otherwise one of the items such that for every item the comparison of the
//           result with it has an outcome that is not Greater (meaning of "minimum" for a comparison that is a total preorder; rayon's
//           pairwise reduction is not modelled).  ParallelNeighborhood<S> declared by hand: `neighbors_of` returns ParIter<S> with the
//           uninterpreted items `neighbors_spec(neighborhood, solution)`; RSSchedParallelNeighborhood is opaque (slice neighborhood_gen).
//   A-lib   FunctionBetweenSteps<S> (a `Box<dyn Fn(..) + Send + Sync>` alias in rapid_solve: rejected by Verus) is an opaque struct that
//           implements Fn with the same argument types (`#[verifier::external]` impls); default_function_between_steps is a stub.
//   A-dyn   trait ParallelLocalImprover<S> declared by hand (vx cannot extract trait items); a call `self.local_improver.improve(&s)`
//           through the box returns `improve_spec(box, s)` (a FUNCTION of box and solution) and needs `improver_req(box, s)`
//           (BoxedImproverCall, external_body); axiom_dyn_minimizer: a boxed ParallelMinimizer runs ParallelMinimizer::improve (same
//           precondition, verified postcondition `pm_improve_post`); the trait impl for ParallelMinimizer is an external_body stub that only
//           serves the coercion to `Box<dyn ..>`.
//   stubs   Objective<S>::evaluate (contract text of slice objective_eval, R7a); ParallelLocalSearchSolver::with_options (see (c));
//           the operator impls Mul / Add of Coefficient / BaseValue and the four Indicator impls (objective / objective_eval, R7a; only so
//           that the included shims type-check).
//   vx workaround: a fragment of a method of a GENERIC impl is wrapped in `impl Type<S> { .. }` without the impl's generics; frag_store_options
//           therefore lives in a module where `S` is an opaque stand-in struct (nothing is known about it).
//
// PRECONDITIONS / HYPOTHESES
//   improve: `solution` is a vector of the minimizer's objective (k Integer entries, k = number of levels: `<` panics on mixed variants and
//           compares only the common prefix of vectors of different length: Observations 1, 2 of objective_eval); every neighbour can be
//           evaluated (`eval_ok`: precondition of Objective::evaluate + every level value is an Integer).
//   solve:  eval_ok(objective, initial); improver_ok(local_improver, k) -- THE IMPROVER CONTRACT as a hypothesis: on a k-level Integer vector
//           the improver can be called and what it returns is strictly smaller and again such a vector (proved for the default improver:
//           lemma_minimizer_is_ok, given neighbours_evaluable); fbs_total(function_between_steps): it accepts every argument tuple (does not
//           panic; printing is not under contract); GHOST BOUND: `iteration_limit is None ==> chains_shorter_than(improver, u32::MAX)`.
//
// OBSERVATIONS
//   1. `iteration_counter` is a u32 starting at 1, incremented after every accepted step.  With an iteration limit L the loop breaks at
//      counter >= L before the increment (no overflow).  WITHOUT a limit -- rssched's configuration, (d) -- the increment overflows after
//      2^32 - 1 accepted steps: panic "attempt to add with overflow" in debug builds, wrap to 0 in release builds (only the printed
//      iteration number is affected).  Not reachable in practice (every step evaluates the whole neighbourhood); hence the ghost bound.
//   2. Fixpoint vs. "running it again changes nothing": proved are (i) improve(result) is None when there are no limits and (ii) a start
//      whose evaluation cannot be improved is returned as evaluated after 0 steps.  That re-evaluating result.solution yields a value the
//      improver treats like `result` needs: the improver depends only on the solution and the entries of the vector (Vec equality is not
//      extensional in Verus) -- not stated as an axiom, not proved.
//   3. On a limit break the last accepted solution is kept (`current_solution = new_solution` precedes the checks); moving the assignment
//      behind the checks would lose one improvement but violates no part of C08 (it verifies).
#![feature(allocator_api)]
#![feature(fn_traits)]
use vstd::prelude::*;
use std::ops::Add;
use std::ops::Sub;
use std::collections::{BTreeMap, HashMap};
use std::sync::Arc;
//@include env/display_time.rs
//@include env/display_model.rs
verus! {
//@include env/std_specs.vs
//@include env/seqiter.vs
//@include env/time_types.vs
//@include-trusted env/time_ops.vs
//@include env/model_types.vs
//@include env/broadcast_model.vs
//@include env/model_network_types.vs
//@include env/model_spec.vs
//@include env/solution_types.vs
//@include env/tour_spec.vs

pub mod tr {
use super::*;
use vstd::prelude::*;
use self::im::HashMap;
use self::im_set::HashSet;
use std::cmp::Ordering;
use std::ops::Mul;
//@include env/im_shim.vs
pub mod im_set {
use vstd::prelude::*;
#[verifier::external_body]
#[verifier::reject_recursive_types(T)]
pub struct HashSet<T> { inner: std::collections::HashSet<T> }
}

//@item solution/src/vehicle.rs struct Vehicle : plain
//@end
//@item solution/src/transition.rs type CycleIdx : plain
//@end
//@item solution/src/transition/transition_cycle.rs struct TransitionCycle : plain
//@end
//@item solution/src/transition.rs struct Transition : plain
//@end
//@item solution/src/train_formation.rs struct TrainFormation : plain
//@end
//@item solution/src/schedule.rs type DepotUsage : plain
//@end
//@item solution/src/schedule.rs struct Schedule : plain
//@drop-derive Clone
//@end
//@item solver/src/local_search/neighborhood/swaps.rs enum SwapInfo : plain
//@end
//@item solver/src/local_search/mod.rs struct ScheduleWithInfo : plain
//@drop-derive Clone
//@drop-derive Ord
//@drop-derive PartialOrd
//@drop-derive Eq
//@drop-derive PartialEq
//@end

// ---- rapid_solve (pinned crate source): value, coefficient, level, objective ------------------------------
//@item @rapid_solve/src/objective/base_value.rs enum BaseValue : plain
//@end
//@item @rapid_solve/src/objective/coefficient.rs enum Coefficient : plain
//@end
//@item @rapid_solve/src/objective/linear_combination.rs struct LinearCombination : plain
//@attr verifier::reject_recursive_types(S)
//@end
//@item @rapid_solve/src/objective/mod.rs struct Objective : plain
//@attr verifier::reject_recursive_types(S)
//@end
//@item solver/src/objective.rs struct UnservedPassengersIndicator : plain
//@end
//@item solver/src/objective.rs struct MaintenanceViolationIndicator : plain
//@end
//@item solver/src/objective.rs struct VehicleCountIndicator : plain
//@end
//@item solver/src/objective.rs struct CostsIndicator : plain
//@end
//@include env/objective_shim.vs
// the four indicator impls: verified in slice `objective` under the same contract text (stubs here, R7a)
//@item solver/src/objective.rs traitfn UnservedPassengersIndicator::evaluate : trusted
//@keep-trait
//@retname r
//@sig
    ensures
        r == unserved_value(*schedule_with_info), // @obl C04.unserved_passengers_indicator.reports_the_schedules_pair_added
        r is Integer && r->Integer_0 == schedule_with_info.schedule.unserved_passengers.0 + schedule_with_info.schedule.unserved_passengers.1, // @obl C04.unserved_passengers_indicator.exact_sum
//@end
//@item solver/src/objective.rs traitfn MaintenanceViolationIndicator::evaluate : trusted
//@keep-trait
//@retname r
//@sig
    ensures r == violation_value(*schedule_with_info), // @obl C04.maintenance_violation_indicator.reports_the_schedules_violation
//@end
//@item solver/src/objective.rs traitfn VehicleCountIndicator::evaluate : trusted
//@keep-trait
//@retname r
//@sig
    ensures
        r == count_value(*schedule_with_info), // @obl C04.vehicle_count_indicator.reports_the_number_of_real_vehicles
        schedule_with_info.schedule.vehicles@.len() <= i64::MAX ==> r is Integer && r->Integer_0 == schedule_with_info.schedule.vehicles@.len(), // @obl C04.vehicle_count_indicator.exact
//@end
//@item solver/src/objective.rs traitfn CostsIndicator::evaluate : trusted
//@keep-trait
//@retname r
//@sig
    ensures
        r == costs_value(*schedule_with_info), // @obl C04.costs_indicator.reports_the_schedules_costs
        schedule_with_info.schedule.costs <= i64::MAX ==> r is Integer && r->Integer_0 == schedule_with_info.schedule.costs, // @obl C04.costs_indicator.exact
//@end

//@item @rapid_solve/src/objective/objective_value.rs struct ObjectiveValue : plain
//@drop-derive Clone
//@end
//@item @rapid_solve/src/objective/evaluated_solution.rs struct EvaluatedSolution : plain
//@drop-derive Clone
//@drop-derive Ord
//@drop-derive PartialOrd
//@drop-derive Eq
//@drop-derive PartialEq
//@end
//@include env/objective_eval_shim.vs
// operator impls the vocabulary of env/objective_eval_shim.vs refers to (verified in slice `objective_eval`; stubs here, R7a)
//@item @rapid_solve/src/objective/coefficient.rs impl Mul<BaseValue> for Coefficient : trusted
//@end
//@item @rapid_solve/src/objective/coefficient.rs impl Mul<BaseValue> for &Coefficient : trusted
//@end
//@item @rapid_solve/src/objective/base_value.rs impl Add for BaseValue : trusted
//@end
use std::time as stdtime;
//@include env/search_loop_shim.vs

//@item @rapid_solve/src/objective/evaluated_solution.rs EvaluatedSolution<S>::solution
//@retname r
//@sig
    ensures *r == self.solution,
//@end
//@item @rapid_solve/src/objective/evaluated_solution.rs EvaluatedSolution<S>::objective_value
//@retname r
//@sig
    ensures *r == self.objective_value,
//@end

//@item @rapid_solve/src/heuristics/parallel_local_search/parallel_local_improver/parallel_minimizer.rs struct ParallelMinimizer : plain
//@attr verifier::reject_recursive_types(S)
//@end
//@item @rapid_solve/src/objective/mod.rs Objective<S>::evaluate : trusted
//@retname r
//@sig
    requires
        ind_req(&solution),
        forall|i: int| 0 <= i < self.hierarchy_levels@.len() ==> lc_req(#[trigger] self.hierarchy_levels@[i], &solution),
    ensures
        r.solution == solution, // @obl C04.objective.evaluate_keeps_the_solution
        r.objective_value.objective_vector@.len() == self.hierarchy_levels@.len(), // @obl C04.objective.evaluate_one_entry_per_level
        forall|i: int| 0 <= i < self.hierarchy_levels@.len() ==> #[trigger] r.objective_value.objective_vector@[i] == lc_value(self.hierarchy_levels@[i], &solution), // @obl C04.objective.evaluate_is_the_vector_of_level_values
//@end

//@item @rapid_solve/src/heuristics/parallel_local_search/parallel_local_improver/parallel_minimizer.rs traitfn ParallelMinimizer<S,N>::improve
//@retname r
//@closure-params map#0
    S
//@closure map#0
    -> (o: EvaluatedSolution<S>) requires eval_ok(*self.objective, &neighbor), ensures is_evaluation(*self.objective, neighbor, o) /* @obl C08.search.every_neighbour_is_evaluated_with_the_objective */,
//@closure-params min_by#0
    &EvaluatedSolution<S>
    &EvaluatedSolution<S>
//@closure min_by#0
    -> (o: core::cmp::Ordering)
    requires all_integer(s1.objective_value.objective_vector@), all_integer(s2.objective_value.objective_vector@),
    ensures o == ov_cmp(s1.objective_value, s2.objective_value) /* @obl C08.search.best_neighbour_is_chosen_by_the_objective_order */,
//@sig
    requires
        ov_wf(solution.objective_value, pm_objective(self).hierarchy_levels@.len() as int),
        forall|i: int| #![trigger pm_neighbors(self, &solution.solution)[i]] 0 <= i < pm_neighbors(self, &solution.solution).len() ==> eval_ok(pm_objective(self), &pm_neighbors(self, &solution.solution)[i]),
    ensures
        r is Some ==> ov_lt(r->Some_0.objective_value, solution.objective_value), // @obl C08.search.accepts_only_strict_improvements
        r is Some ==> exists|i: int| 0 <= i < pm_neighbors(self, &solution.solution).len() && is_evaluation(pm_objective(self), #[trigger] pm_neighbors(self, &solution.solution)[i], r->Some_0), // @obl C08.search.accepted_is_an_evaluated_neighbour
        r is None <==> (forall|i: int, e: EvaluatedSolution<S>| 0 <= i < pm_neighbors(self, &solution.solution).len() && #[trigger] is_evaluation(pm_objective(self), pm_neighbors(self, &solution.solution)[i], e) ==> !ov_lt(e.objective_value, solution.objective_value)), // @obl C08.search.none_means_no_better_neighbour
        pm_improve_post(self, solution, r), // (the three lines above, as the spec function axiom_dyn_minimizer refers to)
//@first
        proof {
            assert forall|i: int| #![trigger neighbors_spec(*self.neighborhood, solution.solution)[i]] 0 <= i < neighbors_spec(*self.neighborhood, solution.solution).len() implies eval_ok(*self.objective, &neighbors_spec(*self.neighborhood, solution.solution)[i]) by {
                assert(eval_ok(pm_objective(self), &pm_neighbors(self, &solution.solution)[i]));
            }
        }
//@before "match best_neighbor_opt"
        let ghost obj = pm_objective(self);
        let ghost nbs = pm_neighbors(self, &solution.solution);
        let ghost k = obj.hierarchy_levels@.len() as int;
        proof {
            if best_neighbor_opt is Some {
                let best = best_neighbor_opt->Some_0;
                // the best neighbour is the evaluation of a neighbour, hence a well-formed vector of this objective
                let i0 = choose|i: int| 0 <= i < nbs.len() && is_evaluation(obj, #[trigger] nbs[i], best);
                lemma_evaluation_wf(obj, nbs[i0], best);
                if !ov_lt(best.objective_value, solution.objective_value) {
                    assert forall|i: int, e: EvaluatedSolution<S>| 0 <= i < nbs.len() && #[trigger] is_evaluation(obj, nbs[i], e) implies !ov_lt(e.objective_value, solution.objective_value) by {
                        assert(par_pos(i));
                        lemma_no_better_step(obj, nbs[i], e, best, *solution, k);
                    }
                }
            }
        }
//@end


// ---- (c) the constructor ------------------------------------------------------------------------------------------
//@item @rapid_solve/src/heuristics/parallel_local_search/mod.rs struct ParallelLocalSearchSolver : plain
//@attr verifier::reject_recursive_types(S)
//@end
//@item @rapid_solve/src/heuristics/common/function_between_steps.rs fn default_function_between_steps : trusted
//@end
//@item @rapid_solve/src/heuristics/parallel_local_search/parallel_local_improver/parallel_minimizer.rs ParallelMinimizer<S,N>::new
//@retname r
//@sig
    ensures r.neighborhood == neighborhood, r.objective == objective,
//@end
// with_options as a whole is NOT verifiable (Verus: "does not support this cast" for `Box::new(..) as Box<dyn ParallelLocalImprover<S>>`):
// stub with the contract of its documentation; the struct literal that stores the options is verified below as a fragment,
// the rest of the text (the `match local_improver { Some(x) => x, None => Box::new(ParallelMinimizer::new(neighborhood,
// objective.clone())) as Box<dyn ..> }`) is pinned by the skeleton hash: A-lib for the clause "None selects ParallelMinimizer".
//@item @rapid_solve/src/heuristics/parallel_local_search/mod.rs ParallelLocalSearchSolver<S>::with_options : trusted
//@retname r
//@sig
    ensures
        r.objective == objective,
        local_improver is Some ==> r.local_improver == local_improver->Some_0,
        local_improver is None ==> r.local_improver == minimizer_box(ParallelMinimizer { neighborhood, objective }),
        function_between_steps is Some ==> r.function_between_steps == function_between_steps->Some_0,
        r.time_limit == time_limit,
        r.iteration_limit == iteration_limit,
//@end
//@skeleton @rapid_solve/src/heuristics/parallel_local_search/mod.rs ParallelLocalSearchSolver<S>::with_options : stmt "Self {" = 133994547f953ba6
pub mod with_options_literal {
use super::*;
/// stand-in for the type parameter of `impl<S: Send + Sync + 'static> ParallelLocalSearchSolver<S>`: vx wraps a fragment of a
/// method in `impl ParallelLocalSearchSolver<S> { .. }` WITHOUT the impl's generics, so `S` must name a type here: an
/// opaque one, about which nothing is known (the proof below cannot use any property of it)
#[verifier::external_body]
pub struct S { _p: () }
//@frag @rapid_solve/src/heuristics/parallel_local_search/mod.rs ParallelLocalSearchSolver<S>::with_options : stmt "Self {" as frag_store_options
//@params objective: Arc<Objective<S>>, local_improver: Box<dyn ParallelLocalImprover<S>>, function_between_steps: Option<FunctionBetweenSteps<S>>, time_limit: Option<stdtime::Duration>, iteration_limit: Option<u32>
//@ret (r: Self)
//@sig
    ensures
        r.objective == objective,
        r.local_improver == local_improver, // @obl C08.search.with_options_stores_the_selected_improver
        function_between_steps is Some ==> r.function_between_steps == function_between_steps->Some_0,
        r.time_limit == time_limit, // @obl C08.search.with_options_stores_the_time_limit
        r.iteration_limit == iteration_limit, // @obl C08.search.with_options_stores_the_iteration_limit
//@end
} // mod with_options_literal

// ---- (d) how rssched builds its local search ----------------------------------------------------------------------------
//@skeleton solver/src/local_search/mod.rs fn build_local_search_solver : stmt "ParallelLocalSearchSolver::with_options" = 4c01f74731d21a7c
//@frag solver/src/local_search/mod.rs fn build_local_search_solver : stmt "ParallelLocalSearchSolver::with_options" as frag_search_options
//@params neighborhood: Arc<RSSchedParallelNeighborhood>, objective: Arc<Objective<ScheduleWithInfo>>, function_between_steps: FunctionBetweenSteps<ScheduleWithInfo>
//@ret (r: ParallelLocalSearchSolver<ScheduleWithInfo>)
//@sig
    ensures
        r.local_improver == minimizer_box(ParallelMinimizer { neighborhood, objective }), // @obl C08.search.default_improver
        r.time_limit is None, // @obl C08.search.no_time_limit
        r.iteration_limit is None, // @obl C08.search.no_iteration_limit
        r.objective == objective, // @obl C08.search.searches_with_the_built_objective
        r.function_between_steps == function_between_steps,
//@end

// ---- (b) the loop ---------------------------------------------------------------------------------------------------
//@item @rapid_solve/src/heuristics/parallel_local_search/mod.rs traitfn ParallelLocalSearchSolver<S>::solve
//@retname r
//@attr verifier::exec_allows_no_decreases_clause
//@sig
    requires
        eval_ok(pls_objective(self), &initial_solution),
        improver_ok(self.local_improver, pls_objective(self).hierarchy_levels@.len() as int),
        fbs_total(self.function_between_steps),
        self.iteration_limit is None ==> chains_shorter_than(self.local_improver, u32::MAX as int),
    ensures
        ov_wf(r.objective_value, pls_objective(self).hierarchy_levels@.len() as int),
        forall|e: EvaluatedSolution<S>| #[trigger] is_evaluation(pls_objective(self), initial_solution, e) ==> ov_le(r.objective_value, e.objective_value), // @obl C08.search.result_not_worse_than_start
        self.time_limit is None && self.iteration_limit is None ==> improve_spec(self.local_improver, r) is None, // @obl C08.search.stops_only_at_fixpoint
        (forall|e: EvaluatedSolution<S>| #[trigger] is_evaluation(pls_objective(self), initial_solution, e) ==> improve_spec(self.local_improver, e) is None) ==> is_evaluation(pls_objective(self), initial_solution, r), // @obl C08.search.unimprovable_start_is_returned_unchanged
//@first
        let ghost init = initial_solution;
        let ghost obj = pls_objective(self);
        let ghost k = obj.hierarchy_levels@.len() as int;
//@after "let mut current_solution"
        let ghost e0 = current_solution;
        proof {
            lemma_evaluation_wf(obj, init, e0);
            lemma_ov_refl(e0.objective_value, k);
            assert(improver_step_ok(self.local_improver, e0, k));
        }
//@loop "while let"
            invariant_except_break
                nth_step(self.local_improver, e0, (iteration_counter - 1) as nat) == Some(current_solution),
            invariant
                1 <= iteration_counter,
                k == pls_objective(self).hierarchy_levels@.len(),
                improver_ok(self.local_improver, k),
                fbs_total(self.function_between_steps),
                self.iteration_limit is None ==> chains_shorter_than(self.local_improver, u32::MAX as int),
                ov_wf(e0.objective_value, k),
                ov_wf(current_solution.objective_value, k),
                ov_le(current_solution.objective_value, e0.objective_value),
                current_solution == e0 || ov_lt(current_solution.objective_value, e0.objective_value),
                current_solution == e0 || improve_spec(self.local_improver, e0) is Some,
                improver_step_ok(self.local_improver, current_solution, k),
            ensures
                self.time_limit is None && self.iteration_limit is None ==> improve_spec(self.local_improver, current_solution) is None, // @obl C08.search.stops_only_at_fixpoint
                improve_spec(self.local_improver, e0) is None ==> current_solution == e0, // @obl C08.search.unimprovable_start_is_returned_unchanged
//@before "current_solution ="
            let ghost prev = current_solution;
            proof { assert(improver_step_ok(self.local_improver, prev, k)); }
//@after "current_solution ="
            proof {
                assert(ov_lt(current_solution.objective_value, prev.objective_value)); // @obl C08.search.every_accepted_step_is_a_strict_decrease
                lemma_ov_trans(current_solution.objective_value, prev.objective_value, e0.objective_value, k);
                assert(nth_step(self.local_improver, e0, iteration_counter as nat) == Some(current_solution));
                assert(improver_step_ok(self.local_improver, current_solution, k));
            }
//@after "while let"
        proof {
            assert forall|e: EvaluatedSolution<S>| #[trigger] is_evaluation(obj, init, e) implies ov_le(current_solution.objective_value, e.objective_value) by {
                lemma_evaluation_wf(obj, init, e);
                assert(e.objective_value.objective_vector@ =~= e0.objective_value.objective_vector@);
                lemma_ov_cmp_same_entries(current_solution.objective_value, e0.objective_value, e.objective_value, k);
            }
        }
//@end


// ---- closing lemmas (proved): what (a)-(d) say together about rssched's local search ---------------------------------------
/// copy of the VERIFIED postcondition of frag_search_options (d), r := solver
pub open spec fn built_post(solver: ParallelLocalSearchSolver<ScheduleWithInfo>, neighborhood: Arc<RSSchedParallelNeighborhood>, objective: Arc<Objective<ScheduleWithInfo>>) -> bool {
    &&& solver.local_improver == minimizer_box(ParallelMinimizer { neighborhood, objective })
    &&& solver.time_limit is None
    &&& solver.iteration_limit is None
    &&& solver.objective == objective
}
/// the solver rssched builds satisfies the improver hypothesis of `solve` (given that every neighbour can be evaluated), and a
/// result of `solve` (its verified postconditions: well-formed, fixpoint of the improver because there are no limits) is a LOCAL
/// MINIMUM: no evaluation of a neighbour of the result is strictly smaller
pub proof fn lemma_built_search_stops_at_a_local_minimum(solver: ParallelLocalSearchSolver<ScheduleWithInfo>, neighborhood: Arc<RSSchedParallelNeighborhood>, objective: Arc<Objective<ScheduleWithInfo>>, r: EvaluatedSolution<ScheduleWithInfo>)
    requires
        built_post(solver, neighborhood, objective),
        neighbours_evaluable(&ParallelMinimizer { neighborhood, objective }),
        // postconditions of `solve` (b) for this solver
        ov_wf(r.objective_value, objective.hierarchy_levels@.len() as int),
        solver.time_limit is None && solver.iteration_limit is None ==> improve_spec(solver.local_improver, r) is None,
    ensures
        improver_ok(solver.local_improver, pls_objective(&solver).hierarchy_levels@.len() as int), // @obl C08.search.built_solver_meets_the_improver_hypothesis
        forall|i: int, e: EvaluatedSolution<ScheduleWithInfo>| 0 <= i < neighbors_spec(*neighborhood, r.solution).len() && #[trigger] is_evaluation(*objective, neighbors_spec(*neighborhood, r.solution)[i], e)
            ==> !ov_lt(e.objective_value, r.objective_value), // @obl C08.search.result_is_a_local_minimum
{
    let m = ParallelMinimizer { neighborhood, objective };
    lemma_minimizer_is_ok(m);
    axiom_dyn_minimizer(m, r);
    assert(pm_improve_pre(&m, &r));
    assert(pm_improve_post(&m, &r, improve_spec(minimizer_box(m), r)));
    assert(improve_spec(minimizer_box(m), r) is None);
    assert(pm_neighbors(&m, &r.solution) == neighbors_spec(*neighborhood, r.solution));
    assert(pm_objective(&m) == *objective);
    assert forall|i: int, e: EvaluatedSolution<ScheduleWithInfo>| 0 <= i < neighbors_spec(*neighborhood, r.solution).len() && #[trigger] is_evaluation(*objective, neighbors_spec(*neighborhood, r.solution)[i], e)
        implies !ov_lt(e.objective_value, r.objective_value) by {
        assert(is_evaluation(pm_objective(&m), pm_neighbors(&m, &r.solution)[i], e));
    }
}

// the four aggregates and their order: TEXT of slices/objective_eval.vs (closing lemmas there), repeated so that the order the
// search decreases in is stated here in the words of the property
pub open spec fn agg_unserved(s: ScheduleWithInfo) -> int { s.schedule.unserved_passengers.0 + s.schedule.unserved_passengers.1 }
pub open spec fn agg_violation(s: ScheduleWithInfo) -> int { s.schedule.maintenance_violation as int }
pub open spec fn agg_count(s: ScheduleWithInfo) -> int { s.schedule.vehicles@.len() as int }
pub open spec fn agg_costs(s: ScheduleWithInfo) -> int { s.schedule.costs as int }
pub open spec fn agg_fit(s: ScheduleWithInfo) -> bool {
    agg_unserved(s) <= u32::MAX && agg_count(s) <= i64::MAX && agg_costs(s) <= i64::MAX
}
pub open spec fn agg_vector(s: ScheduleWithInfo) -> Seq<BaseValue> {
    seq![BaseValue::Integer(agg_unserved(s) as i64), BaseValue::Integer(agg_violation(s) as i64),
         BaseValue::Integer(agg_count(s) as i64), BaseValue::Integer(agg_costs(s) as i64)]
}
pub open spec fn lex4(a0: int, a1: int, a2: int, a3: int, b0: int, b1: int, b2: int, b3: int) -> Ordering {
    if a0 != b0 { int_cmp(a0, b0) } else if a1 != b1 { int_cmp(a1, b1) } else if a2 != b2 { int_cmp(a2, b2) } else { int_cmp(a3, b3) }
}
/// on the vectors reported for two schedules (slice objective_eval: lemma_reported_vector) the `<` of the acceptance rule and of
/// the loop is "fewer unserved passengers, then less maintenance violation, then fewer vehicles, then lower costs"
pub proof fn lemma_search_order_is_the_property_order(s: ScheduleWithInfo, t: ScheduleWithInfo, x: ObjectiveValue, y: ObjectiveValue)
    requires
        agg_fit(s), agg_fit(t),
        x.objective_vector@ == agg_vector(s), y.objective_vector@ == agg_vector(t),
    ensures
        ov_wf(x, 4), ov_wf(y, 4),
        ov_cmp(x, y) == lex4(agg_unserved(s), agg_violation(s), agg_count(s), agg_costs(s), agg_unserved(t), agg_violation(t), agg_count(t), agg_costs(t)), // @obl C08.search.accepted_order_is_lexicographic_in_the_four_aggregates
{
    let a = x.objective_vector@; let b = y.objective_vector@;
    axiom_ov_cmp_lex(x, y);
    assert(ival(a[0]) == agg_unserved(s) && ival(a[1]) == agg_violation(s) && ival(a[2]) == agg_count(s) && ival(a[3]) == agg_costs(s));
    assert(ival(b[0]) == agg_unserved(t) && ival(b[1]) == agg_violation(t) && ival(b[2]) == agg_count(t) && ival(b[3]) == agg_costs(t));
    if ival(a[0]) != ival(b[0]) { assert(first_diff(a, b, 0)); }
    else if ival(a[1]) != ival(b[1]) { assert(first_diff(a, b, 1)); }
    else if ival(a[2]) != ival(b[2]) { assert(first_diff(a, b, 2)); }
    else if ival(a[3]) != ival(b[3]) { assert(first_diff(a, b, 3)); }
    else {
        assert forall|i: int| 0 <= i < 4 implies ival(#[trigger] a[i]) == ival(b[i]) by {}
    }
}

} // mod tr
} // verus!
impl std::fmt::Debug for tr::BaseValue { fn fmt(&self, _f: &mut std::fmt::Formatter<'_>) -> std::fmt::Result { Ok(()) } }
fn main() {}
