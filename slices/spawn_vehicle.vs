// slice `spawn_vehicle`: Schedule::spawn_vehicle_for_path and Schedule::add_suitable_start_and_end_depot_to_path
// (solution/src/schedule/modifications.rs), verbatim bodies; the bookkeeping callees are stubs with the contract text
// of the slices that verify them.
//   C01 / C10  "a vehicle only serves service trips of the vehicle's type": Err if some node of the path is not
//        compatible with the type; on Ok every node of the new vehicle's tour is compatible (discharges the A-type
//        assumption of C01 for the spawn path).
//   C13  "documented effect and nothing else": on Ok((r, id)), Schedule::spawned / listed (env/spawn_vehicle_shim.vs):
//        id == VehicleIdx::Vehicle(self.vehicle_counter) is fresh (no vehicle, tour, dummy tour under it);
//        r.vehicles == self.vehicles + {id -> vehicle of the type, stored under its id};
//        r.tours == self.tours + {id -> tour}, a valid real tour of the network with exact caches whose nodes are the result
//        of add_suitable_start_and_end_depot_to_path(path) (depots_added: the given nodes in order with a depot in front /
//        behind if the path does not start / end with one; or, if the given start depot cannot spawn, the path with its first
//        and last node replaced); dummy tours, their listing, the network untouched; vehicle_counter + 1; the type's id list
//        gains exactly id (ids_gain) and stays sorted, the lists of the other types are untouched; if the listings matched
//        the vehicles (listings_match) they still do.
//   C13  formations: exactly the postcondition of update_train_formation(None, Some(vehicle), tour nodes) (formations_follow:
//        formations elsewhere untouched, the vehicle at the tail of every activity's formation, within limits, unserved
//        passengers change by the exact difference).
//   C09  r.costs == self.costs + tour.costs; depot usage exact for the new vehicle, unchanged for all others, hence exact
//        (usage_exact) for r; maintenance violation / rotation cycles: the postcondition of
//        update_transitions_and_violation_fast (transitions_follow; other types' transitions untouched).
//   C02  "for every real depot the number of vehicles starting there stays within the depot's total capacity and within the
//        per-type capacity (types not listed for a depot never start there)": if the path does not start with a depot, the new
//        vehicle's start depot node is a start depot node of the network that could spawn the type w.r.t. the OLD usage table
//        (sp_can_spawn = the value can_depot_spawn_vehicle_custom_usage is verified to return, slices/admission.vs), hence
//        (lemma_spawn_keeps_depot_limits over usage_exact_for / usage_same_except) that depot's per-type and total limits
//        hold for the NEW usage table (depot_limits_hold).
//   C13  WHICH depot: if the path does not start with a depot the tour starts at the NEAREST start depot node with room
//        (best_start_depot: dead-head distance from the depot to the start location of the first node; ties: the one listed
//        first); if it neither starts nor ends with a depot it ends at the nearest end depot node (nearest_end_depot;
//        capacities ignored).  From the contracts under which slice depot_choice verifies the two find_best_* functions.
//   C06  add_suitable_start_and_end_depot_to_path: refused only if the path does not end with a depot and the network has no
//        end depot node; `expect("There should be at least the overflow depot available.")` cannot panic under the
//        precondition some_depot_has_room (see PRECONDITIONS).
//   C10 / C09 / C11  CLOSURE (the induction step of "after any sequence of schedule modifications" / "for every reachable schedule"):
//        on Ok((r, id)) the result satisfies the schedule-invariant bundle sv_ok() of the precondition AGAIN, conjunct by conjunct
//        (obligation C10.spawn_vehicle.result_satisfies_the_schedule_invariants_again; spcl_closed / spcl_lemma_closure in the last
//        block of env/spawn_vehicle_shim.vs, proved from the effect clauses of this contract -- spcl_step = spawned, listed,
//        formations_follow, transitions_follow, usage_exact -- so a slice that stubs spawn_vehicle_for_path with the OLD contract
//        text can call spcl_lemma_closure itself):
//          unconditionally: Network::wf, depot_lists_ok (the network is the same); sv_ids_ok; of sv_formations_ok the clauses
//            "every activity has a formation entry", "a service trip's type is a type of the network" and the C09 clause "the cached
//            unserved-passengers pair covers every duplicate-free list of nodes" (re-established from the clause ITSELF and the
//            exact delta of update_train_formation: spcl_lemma_unserved_covers); transitions_ok INCLUDING its magnitude clause
//            (the cycles hold exactly the vehicles, ids are 16 bit: at most 2^16 < 2^17); usage_exact w.r.t. r's own network;
//          under a hypothesis on the RESULT (magnitude clauses that the operation does not preserve -- every formation along the new
//            tour grows by one vehicle, the costs grow by the tour's costs -- and that sv_ok cannot bound, because it does not relate
//            the length of a formation to the number of vehicles): "a formation lists at most 2^17 vehicles" if it holds for the
//            formations that GREW (spcl_grown_len_small: the activities of the new tour); "the u32 capacity / seat sums fit with one
//            more vehicle of any type" if it holds for the formations that grew (spcl_grown_sums_fit); `costs <= 2^61` is its own
//            hypothesis.  With the three hypotheses: r.sv_formations_ok(), r.sv_ok().
//        Treated as "schedule invariant": all seven conjuncts of sv_ok().  Treated as "about the arguments" (no closure claimed):
//        type_known(vehicle_type_idx), the clauses about the path (non-empty, nodes of the network, A-len, spawn_counter_ok),
//        usage_counts_small / some_depot_has_room for the type.  Of these, what does not depend on the path is kept as well: every
//        known type stays known, start_depots_ok (same network); usage_counts_small follows from r.sv_ok (lemma_usage_counts_small);
//        some_depot_has_room is NOT preserved (a depot fills up).
//        add_suitable_start_and_end_depot_to_path takes `&self` and returns a node list: there is no result schedule, no closure clause.
//
// ASSUMPTIONS introduced / used by this slice:
//   A-stub   not verified in any slice, contract written from the body:
//            Schedule::can_depot_spawn_vehicle (NO contract: its result only selects the branch),
//            VehicleTypes::get (= lookup in `vehicle_types`; contract text of env/limits_fns.vs)
//   A-iter   Tour::all_nodes_iter yields the tour's nodes in order (stub returning SeqIter; text as in slices/json_writer.vs);
//            env/seqiter.vs (`viter`, `any`), R5 on `path_as_vec.iter()`
//   R7a stubs (verified elsewhere with the SAME contract text, hashes checked): Tour::new (tour_ctor),
//            Schedule::find_best_start_depot_for_spawning, Schedule::find_best_end_depot_for_despawning (depot_choice; WITH
//            their preconditions -- tools/stub_sync.py reports no difference; the vocabulary of these contracts is COPIED
//            from env/depot_choice_shim.vs into the last block of env/spawn_vehicle_shim.vs, see there why that file cannot be
//            included; slices dummy_ops / sched_ctor, which stub spawn_vehicle_for_path with this contract, and add_path use
//            the same definitions),
//            Schedule::update_train_formation (train_formation_update; R12: `moved_nodes` retyped to SeqIter<NodeIdx>),
//            Schedule::update_depot_usage (depot_usage), Schedule::update_transitions_and_violation_fast (sched_guard);
//            env/time_ops.vs, env/model_fns.vs, env/dist_ops.vs included trusted (slices time / network / tour_ctor)
//   A-im     env/im_shim.vs (im::HashMap new / get / insert / clone), env/schedule_shim.vs (opaque im::HashSet + clone), and NEW in
//            env/spawn_vehicle_shim.vs: `map[&k]` / `map[&k] = ..` of im::HashMap (Index: panics unless the key is present,
//            yields the stored value; IndexMut: a reference INTO the map -- the final map is the old one with the key bound
//            to the final value of the reference)
//   A-std7   <[T]>::binary_search (result as documented by std on a slice sorted w.r.t. Ord), Result::unwrap_or_else
//            (text as in env/remove_segment_shim.vs)
//   A-std8   std::mem::replace (NEW: *dest becomes src, the old value is returned)
//   A-derive derived PartialOrd / Ord of VehicleIdx (variant order, then index), derived Clone of Vehicle and of
//            TransitionCycle are structural; vstd: Arc::clone, Vec::{first, last, insert, push, index, index_mut, clone}
//   A-fmt    Display of VehicleTypeIdx and `{:?}` of Vec<NodeIdx> have no precondition (axiom_vec_node_idx_debug; the
//            impls are no-ops outside verus!)
//   plus env/broadcast_model.vs (key model of the index types).
//
// PRECONDITIONS the caller must guarantee (Schedule::sv_ok etc., env/spawn_vehicle_shim.vs, each explained there):
//   * instance validity: Network::wf; depot_lists_ok (A-index: the network's start / end depot node lists and the overflow
//     depot's nodes are nodes of the network -- how Network::new fills them); every service trip's type is a vehicle type
//     of the network (clause of sv_formations_ok);
//   * type_known(vehicle_type_idx) (C10): a vehicle type of the network stored under its own index, one of the listed
//     types (ids_sorted), with an id list in vehicle_ids_grouped_and_sorted (`[&vehicle_type_idx]` panics otherwise);
//   * sv_ids_ok (C10): real vehicles are stored under their own id, of the Vehicle kind with index < vehicle_counter, and
//     have a tour; dummy tours sit under Dummy ids; every type's id list is sorted (binary_search is meaningless otherwise);
//   * sv_formations_ok (C10 / C09): every activity of the network has a formation entry; magnitudes (at most 2^17 vehicles
//     per formation; the u32 capacity / seat sums still fit with one more vehicle of any type); C09 for the unserved
//     passengers in the form the u32 subtraction needs: the cached pair covers the contribution of any duplicate-free list of
//     nodes (it is the sum over ALL service trips);
//   * transitions_ok (C15 / C10 / C09): one transition per listed type, consistent with the tours, holding exactly the
//     type's vehicles; maintenance_violation is their sum; fewer than 2^17 vehicles;
//   * usage_exact (C09): the depot usage table has its from-scratch value;
//   * costs <= 2^61 (C09 magnitude: `costs += tour.costs()` in u64);
//   * the path is not empty (`nodes.first().unwrap()`), its nodes are nodes of the network, A-len (tour_len_ok);
//   * (A-idwidth is gone: D11 -- Schedule::next_free_idx refuses when all 2^16 ids have been handed out);
//   * A-counter: spawn_counter_ok (the uninterpreted maintenance counter of the new tour is within +-2^40);
//   * NEW (preconditions of find_best_start_depot_for_spawning, slices/depot_choice.vs, handed up; NOT part of sv_ok, which
//     other slices establish):
//       - A-index: Network::start_depots_ok -- start_depot_nodes holds StartDepot nodes of the network whose depot is in the
//         network's depot table (how Network::new fills the list; not proved in slice network_new);
//     and, only if the path does not start with a depot (a start depot is chosen), for the schedule's own usage table:
//       - magnitude: usage_counts_small -- for the depots of the start depot nodes the count of the type and the total over
//         the network's types fit u32 (vehicle ids are 16 bit; follows from usage_exact + sv_ids_ok + pairwise distinct vehicle
//         types: lemma_usage_counts_small, env/spawn_vehicle_shim.vs -- the callers verified in slices dummy_ops / sched_ctor
//         derive it that way; kept as a precondition here because the contract of the callee is stated for ANY table);
//       - C06 / C17: some_depot_has_room -- SOME start depot node of the network can spawn the type w.r.t. the usage table;
//         otherwise `expect("There should be at least the overflow depot available.")` panics.  It cannot be derived from
//         schedule validity: the overflow depot's total capacity is a computed number (slices/network_new.vs, C17, D5).
//         lemma_depot_without_type_limit_suffices: a start depot node whose depot lists the type without per-type limit (the
//         overflow depot does) and where fewer vehicles start in total than its total capacity suffices.
//     (Network::wf, has(first / last node), all_in_net(end_depot_nodes) were required already: sv_ok, depot_lists_ok.)
//
// NOT covered:
//   * on Err nothing is claimed except the type guard; WHEN the result is Ok is not characterised (it is Ok iff the guard
//     passes, an end depot exists, Tour::new accepts the nodes and every formation has room: follows from the callee
//     contracts but is not stated); the error messages;
//   * WHICH depot is put at the ends if the path STARTS with a depot (the stub of can_depot_spawn_vehicle has no contract:
//     either the given depot is kept and a missing end depot is the nearest one, or the overflow depot's nodes are used);
//     that the callers establish some_depot_has_room: spawn_vehicle_to_replace_dummy_tour (slices/dummy_ops.vs) hands it up as
//     its own precondition, from_tours (slices/sched_ctor.vs) derives it for every intermediate schedule from the stated
//     instance-level fact some_depot_hosts_all (a depot listing the types without limit whose total capacity is at least the
//     number of given tours); C17 (the computed capacity of the overflow depot) is not connected to either;
//   * closure of the MAGNITUDE clauses of sv_ok (formation length <= 2^17, u32 capacity / seat sums with one more vehicle,
//     costs <= 2^61): only under the stated hypotheses on the result (see CLOSURE above); listings_match is not part of sv_ok and
//     is preserved separately (C10.spawn_vehicle.listings_still_match); that the callers establish the preconditions;
//   * D12 (fixed in /repo, `fix:` 56e2050): if the path starts with a depot that cannot spawn the vehicle, the unfixed
//     add_suitable_start_and_end_depot_to_path overwrote the FIRST AND THE LAST node with the overflow depot's nodes
//     whatever the last node was: [full start depot, trip a, trip b] became [overflow start, trip a, overflow end].
//     `ends_replaced` now states the repaired behaviour (last node replaced only if it is a depot, otherwise the overflow
//     end depot is appended) and `activities_kept` is claimed for every path; on the unfixed code obligation
//     C13.add_suitable_depots.path_kept_in_order fails.
#![feature(allocator_api)]
use vstd::prelude::*;
use std::ops::Add;
use std::ops::Sub;
use std::collections::{BTreeMap, HashMap};
use std::sync::Arc;
//@include env/display_time.rs
//@include env/display_model.rs
impl std::fmt::Display for VehicleTypeIdx { fn fmt(&self, _f: &mut std::fmt::Formatter) -> std::fmt::Result { Ok(()) } }
impl std::fmt::Debug for NodeIdx { fn fmt(&self, _f: &mut std::fmt::Formatter) -> std::fmt::Result { Ok(()) } }
verus! {
//@include env/std_specs.vs
//@include env/seqiter.vs
//@include env/time_types.vs
//@include-trusted env/time_ops.vs
//@include env/model_types.vs
//@include env/broadcast_model.vs
//@include env/model_network_types.vs
//@include env/model_spec.vs
//@include-trusted env/model_fns.vs
//@include env/solution_types.vs
//@include env/tour_spec.vs
//@include env/sums.vs
//@include-trusted env/dist_ops.vs
//@include env/vsum_impls.vs
//@include env/cache_spec.vs
//@include-proved env/cache_lemmas.vs

pub mod tr {
use super::*;
use vstd::prelude::*;
use self::im::HashMap;
use self::im_set::HashSet;
//@include env/im_shim.vs

//@item solution/src/transition.rs type CycleIdx : plain
//@end
//@item solution/src/transition/transition_cycle.rs struct TransitionCycle : plain
//@drop-derive Clone
//@end
impl Clone for TransitionCycle {
    #[verifier::external_body]
    fn clone(&self) -> (r: Self)
        ensures r == *self
    { unimplemented!() }
}
//@item solution/src/transition.rs struct Transition : plain
//@end
//@include env/transition_spec.vs
//@include env/schedule_shim.vs
//@include env/sched_guard_shim.vs
//@include env/spawn_vehicle_shim.vs

// ---- model: the type guard (verified here; contract text as in slices/sched_guard.vs) -------------------
//@item model/src/network/nodes.rs ServiceTrip::vehicle_type
//@retname r
//@sig
    ensures r == self.vehicle_type,
//@end
//@item model/src/network/nodes.rs Node::as_service_trip
//@retname r
//@sig
    requires self is Service,
    ensures *r == self->Service_0.1,
//@end
//@item model/src/network.rs Network::vehicle_type_for
//@retname r
//@sig
    requires self.has(service_trip), self.sp_node(service_trip) is Service,
    ensures r == self.sp_node(service_trip)->Service_0.1.vehicle_type,
//@end
//@item model/src/network.rs Network::compatible_with_vehicle_type
//@retname r
//@sig
    requires self.has(node),
    ensures r == self.sp_compatible(node, vehicle_type), // @obl C01.compatible_with_vehicle_type.not_a_trip_of_another_type
//@end

// ---- small functions verified here (verbatim bodies) ---------------------------------------------------
//@item model/src/base_types.rs VehicleIdx::vehicle_from
//@retname r
//@sig
    ensures r == VehicleIdx::Vehicle(idx),
//@end
//@item model/src/network.rs Network::vehicle_types
//@retname r
//@sig
    ensures r == self.vehicle_types,
//@end
//@item model/src/vehicle_types.rs VehicleTypes::get : trusted
//@retname r
//@sig
    ensures
        self.vehicle_types@.contains_key(idx) ==> r is Some && r.unwrap() == self.vehicle_types@[idx],
        !self.vehicle_types@.contains_key(idx) ==> r is None,
//@end
//@item solution/src/vehicle.rs Vehicle::new
//@retname r
//@sig
    requires vehicle_types.vehicle_types@.contains_key(type_idx),
    ensures r.idx == idx, r.vehicle_type == vehicle_types.vehicle_types@[type_idx],
//@end
//@item solution/src/tour.rs Tour::costs
//@retname r
//@sig
    ensures r == self.costs,
//@end
//@item solution/src/schedule.rs Schedule::new
//@retname r
//@sig
    ensures
        r.vehicles == vehicles, r.tours == tours, r.next_period_transitions == next_period_transitions,
        r.train_formations == train_formations, r.depot_usage == depot_usage, r.dummy_tours == dummy_tours,
        r.vehicle_counter == vehicle_counter, r.vehicle_ids_grouped_and_sorted == vehicle_ids_grouped_and_sorted,
        r.dummy_ids_sorted == dummy_ids_sorted, r.unserved_passengers == unserved_passengers,
        r.maintenance_violation == maintenance_violation, r.costs == costs, r.network == network,
//@end

// ---- Tour: trusted stubs (verified in the tour slices; contract text copied from there) ----------------
/// A-iter: `Tour::all_nodes_iter` yields the nodes of the tour in order (`self.nodes.iter().copied()`)
//@item solution/src/tour.rs Tour::all_nodes_iter : trusted
//@ret SeqIter<NodeIdx>
//@retname r
//@sig
    ensures r@ == self.nodes@,
//@end
// verified in slice tour_ctor; contract text copied from there
//@item solution/src/tour.rs Tour::new : trusted
//@retname r
//@sig
    requires network.wf(), nodes@.len() >= 1, all_in_net(&network, nodes@), len_ok(nodes@),
    ensures
        // C01: a tour handed out by Tour::new is a valid real tour, and every valid node sequence is accepted
        r is Ok <==> valid_real_tour(&network, nodes@), // @obl C01.tour_new.ok_iff_valid
        r is Ok ==> r->Ok_0.nodes@ == nodes@ && !r->Ok_0.is_dummy && r->Ok_0.network == network && r->Ok_0.caches_ok() && r->Ok_0.wf(),
//@end

// ---- Schedule: trusted stubs ----------------------------------------------------------------------------
// ---- the depots at the ends of the path (verified here, verbatim body; its callees are stubs) ---------------
//@item model/src/network.rs Network::overflow_depot_idxs
//@retname r
//@sig
    ensures r == self.overflow_depot_idxs,
//@end
// stub without contract: whether the given start depot can spawn the vehicle only selects the branch
//@item solution/src/schedule.rs Schedule::can_depot_spawn_vehicle : trusted
//@end
// verified in slice depot_choice; contract text copied from there (tools/stub_sync.py)
//@item solution/src/schedule/modifications.rs Schedule::find_best_start_depot_for_spawning : trusted
//@retname r
//@sig
    requires
        // instance validity; `self.network.node(first_node)`
        self.network.wf(), self.network.has(first_node),
        // A-index: the start depot node list holds start depot nodes of the network with a depot of the depot table
        self.network.start_depots_ok(),
        // magnitude: the counts of the given table fit u32
        self.usage_counts_small(vehicle_type_idx, depot_usage@),
        // C06 "it neither panics ...": `.expect("There should be at least the overflow depot available.")` -- the weakest
        // precondition under which `find` returns Some: SOME start depot node of the network (e.g. the overflow depot's) can
        // spawn a vehicle of the type w.r.t. the given table
        self.some_depot_has_room(vehicle_type_idx, depot_usage@), // @obl C06.find_best_start_depot.expect_needs_a_depot_with_room
    ensures
        // a start depot node of the network ...
        self.network.start_depot_nodes@.contains(r), // @obl C02.find_best_start_depot.chosen_depot_has_room
        // ... C02 "the number of vehicles starting there stays within the depot's total capacity and within the per-type capacity
        // (types not listed for a depot never start there)": can_depot_spawn_vehicle_custom_usage(r, type, GIVEN table) holds
        self.sp_can_spawn(r, vehicle_type_idx, depot_usage@), // @obl C02.find_best_start_depot.chosen_depot_has_room
        // the FIRST such depot in the distance order: no start depot node with room is nearer to the start location of first_node ...
        forall|d: NodeIdx| self.network.start_depot_nodes@.contains(d) && #[trigger] self.sp_can_spawn(d, vehicle_type_idx, depot_usage@)
            ==> dist_le(self.network.dist_to(r, self.network.sp_node(first_node).sp_start_location()),
                        self.network.dist_to(d, self.network.sp_node(first_node).sp_start_location())), // @obl C02.find_best_start_depot.nearest_depot_with_room
        // ... and of the equally near ones with room it is the one listed first
        forall|d: NodeIdx| self.network.start_depot_nodes@.contains(d) && #[trigger] self.sp_can_spawn(d, vehicle_type_idx, depot_usage@) && d != r
            && self.network.dist_to(d, self.network.sp_node(first_node).sp_start_location()) == self.network.dist_to(r, self.network.sp_node(first_node).sp_start_location())
            ==> listed_before(self.network.start_depot_nodes@, r, d), // @obl C02.find_best_start_depot.nearest_depot_with_room
//@end
// verified in slice depot_choice; contract text copied from there (tools/stub_sync.py)
//@item solution/src/schedule/modifications.rs Schedule::find_best_end_depot_for_despawning : trusted
//@retname r
//@sig
    requires
        // instance validity; `self.network.node(last_node)`; A-index: the end depot node list holds nodes of the network
        self.network.wf(), self.network.has(last_node), all_in_net(&self.network, self.network.end_depot_nodes@),
    ensures
        r is Ok ==> self.network.end_depot_nodes@.contains(r->Ok_0), // @obl C13.find_best_end_depot.member_of_end_depot_nodes
        // C06: no panic; refused iff the network has no end depot node
        r is Ok <==> self.network.end_depot_nodes@.len() > 0, // @obl C06.find_best_end_depot.ok_iff_an_end_depot_exists
        // the nearest end depot node, whatever its capacity or balance: none is nearer to the end location of last_node ...
        r is Ok ==> forall|d: NodeIdx| #[trigger] self.network.end_depot_nodes@.contains(d)
            ==> dist_le(self.network.dist_from(self.network.sp_node(last_node).sp_end_location(), r->Ok_0),
                        self.network.dist_from(self.network.sp_node(last_node).sp_end_location(), d)), // @obl C13.find_best_end_depot.nearest_end_depot_capacities_ignored
        // ... and of the equally near ones it is the one listed first
        r is Ok ==> forall|d: NodeIdx| #[trigger] self.network.end_depot_nodes@.contains(d) && d != r->Ok_0
            && self.network.dist_from(self.network.sp_node(last_node).sp_end_location(), d) == self.network.dist_from(self.network.sp_node(last_node).sp_end_location(), r->Ok_0)
            ==> listed_before(self.network.end_depot_nodes@, r->Ok_0, d), // @obl C13.find_best_end_depot.nearest_end_depot_capacities_ignored
//@end
//@item solution/src/schedule/modifications.rs Schedule::add_suitable_start_and_end_depot_to_path
//@retname r
//@sig
    requires
        // `*nodes.first().unwrap()`, `self.network.node(first_node)`
        nodes@.len() >= 1,
        all_in_net(&self.network, nodes@),
        depot_lists_ok(&self.network),
        // what the two find_best_* callees require (slices/depot_choice.vs):
        // instance validity: the dead-head matrix is total on the stations, the locations of the nodes are locations of the network
        self.network.wf(),
        // A-index (how Network::new fills the list; not proved in slice network_new): the start depot node list holds StartDepot
        // nodes of the network whose depot is in the network's depot table
        self.network.start_depots_ok(),
        // only if a start depot has to be chosen (the path does not start with a depot) -- the table consulted is the schedule's own:
        // magnitude: its counts fit u32 (vehicle ids are 16 bit)
        !self.network.sp_node(nodes@[0]).sp_is_depot() ==> self.usage_counts_small(vehicle_type_idx, self.depot_usage@),
        // C06 / C17: some start depot node of the network has room for the type w.r.t. the usage table ("There should be at least
        // the overflow depot available."; that the overflow depot's capacity suffices is C17, slices/network_new.vs, D5; see
        // lemma_depot_without_type_limit_suffices).  Otherwise `expect` panics.
        !self.network.sp_node(nodes@[0]).sp_is_depot() ==> self.some_depot_has_room(vehicle_type_idx, self.depot_usage@), // @obl C06.add_suitable_depots.expect_needs_a_depot_with_room
    ensures
        // C13: "If path does not start with a depot the vehicle is spawned from the nearest availabe depot …  Similarly,
        // if path does not end with a depot …  If the depot given in the path is not available, spawn vehicle from
        // overflow depot instead.": the given nodes in order, with depots put at the ends (see depots_added)
        r is Ok ==> depots_added(&self.network, nodes@, r->Ok_0@), // @obl C13.add_suitable_depots.path_kept_in_order
        r is Ok ==> all_in_net(&self.network, r->Ok_0@), // @obl C13.add_suitable_depots.nodes_of_the_network
        // C02 / C13 "spawned from the nearest availabe depot": if the path does not start with a depot, the node put in front is
        // a start depot node of the network whose depot has room for one more vehicle of the type w.r.t. the schedule's usage
        // table -- the nearest such node (dead-head distance to the start location of the first node; ties: the one listed first)
        r is Ok && !self.network.sp_node(nodes@[0]).sp_is_depot()
            ==> self.best_start_depot(r->Ok_0@[0], vehicle_type_idx, self.network.sp_node(nodes@[0]).sp_start_location(), self.depot_usage@), // @obl C02.add_suitable_depots.start_depot_had_room
        // C13 "Similarly": if the path does not end with a depot, the node put behind is the nearest end depot node of the network
        // (capacities ignored), unless the path starts with a depot (that cannot spawn the vehicle: the stub of
        // can_depot_spawn_vehicle has no contract) and the overflow end depot is put behind
        r is Ok && !self.network.sp_node(nodes@[nodes@.len() - 1]).sp_is_depot()
            ==> self.network.nearest_end_depot(r->Ok_0@[r->Ok_0@.len() - 1], self.network.sp_node(nodes@[nodes@.len() - 1]).sp_end_location())
                || (self.network.sp_node(nodes@[0]).sp_is_depot() && r->Ok_0@[r->Ok_0@.len() - 1] == self.network.overflow_depot_idxs.2), // @obl C13.add_suitable_depots.nearest_end_depot
        // C06: refused only if the path does not end with a depot and the network has no end depot node
        r is Err ==> !self.network.sp_node(nodes@[nodes@.len() - 1]).sp_is_depot() && self.network.end_depot_nodes@.len() == 0, // @obl C06.add_suitable_depots.refused_only_without_end_depot
//@end
// verified in slice train_formation_update; contract text copied from there
//@item solution/src/schedule/modifications.rs Schedule::update_train_formation : trusted
//@param-type moved_nodes SeqIter<NodeIdx>
//@retname r
//@sig
    requires
        self.tfu_pre(old(train_formations)@, *old(unserved_passengers), provider, receiver_vehicle, moved_nodes@),
    ensures
        // C13: "Each schedule modification has its documented effect and nothing else … formations elsewhere … stay untouched"
        r is Ok ==> self.formations_elsewhere_untouched(moved_nodes@, old(train_formations)@, final(train_formations)@), // @obl C13.update_train_formation.formations_elsewhere_untouched
        // C13: "In a formation a replacing vehicle takes the replaced one's position, additions go to the tail and
        // removals keep the order": every moved non-depot node gets the replacement of its OLD formation
        r is Ok ==> self.moved_get_replacement(moved_nodes@, old(train_formations)@, final(train_formations)@, provider, receiver_vehicle), // @obl C13.update_train_formation.moved_nodes_get_the_replacement
        // C02 / C10: "formation, track and depot limits hold"
        r is Ok ==> self.grown_within_limits(moved_nodes@, final(train_formations)@, provider, receiver_vehicle), // @obl C02.update_train_formation.grown_formations_within_limits
        // C09: "cached aggregates equal recomputation": the delta is exact
        r is Ok ==> final(unserved_passengers).0 == old(unserved_passengers).0
            - self.un_sum(old(train_formations)@, provider, receiver_vehicle, moved_nodes@, moved_nodes@.len() as int, false, 0)
            + self.un_sum(old(train_formations)@, provider, receiver_vehicle, moved_nodes@, moved_nodes@.len() as int, true, 0)
          && final(unserved_passengers).1 == old(unserved_passengers).1
            - self.un_sum(old(train_formations)@, provider, receiver_vehicle, moved_nodes@, moved_nodes@.len() as int, false, 1)
            + self.un_sum(old(train_formations)@, provider, receiver_vehicle, moved_nodes@, moved_nodes@.len() as int, true, 1), // @obl C09.update_train_formation.unserved_passengers_delta_exact
        // the modification is refused iff the replacement fails for some moved non-depot node
        r is Ok <==> self.all_ok(old(train_formations)@, provider, receiver_vehicle, moved_nodes@, moved_nodes@.len() as int), // @obl C13.update_train_formation.refused_iff_a_replacement_fails
//@end
// verified in slice depot_usage; contract text copied from there
//@item solution/src/schedule/modifications.rs Schedule::update_depot_usage : trusted
//@sig
    requires
        // part of C10 for the old schedule and for the new maps: a vehicle is stored under its own id, a
        // real vehicle has a real tour, and an id keeps its vehicle type
        self.sp_is_vehicle(vehicle_idx) ==> self.vehicles@[vehicle_idx].idx == vehicle_idx && self.real_tour_ok(vehicle_idx),
        vehicles@.contains_key(vehicle_idx) ==> vehicles@[vehicle_idx].idx == vehicle_idx,
        vehicles@.contains_key(vehicle_idx) && tours@.contains_key(vehicle_idx) ==> tour_of_net(&self.network, &tours@[vehicle_idx]),
        vehicles@.contains_key(vehicle_idx) && self.sp_is_vehicle(vehicle_idx) ==>
            vehicles@[vehicle_idx].vehicle_type.idx == self.vehicles@[vehicle_idx].vehicle_type.idx,
        // C09 before the step: the table is exact for this vehicle in the OLD schedule (`self`); in
        // particular this bookkeeping step runs once per vehicle and modification
        usage_exact_for(old(depot_usage)@, &self.network, self.vehicles@, self.tours@, vehicle_idx),
    ensures
        usage_exact_for(final(depot_usage)@, &self.network, vehicles@, tours@, vehicle_idx), // @obl C09.depot_usage.exact_for_vehicle_in_new_schedule
        usage_same_except(old(depot_usage)@, final(depot_usage)@, vehicle_idx), // @obl C09.depot_usage.other_vehicles_untouched
//@end
// verified in slice sched_guard; contract text copied from there
//@item solution/src/schedule/modifications.rs Schedule::update_transitions_and_violation_fast : trusted
//@sig
    requires
        // the old schedule is consistent (C15, C10, C09), no real vehicle is listed twice, every listed real
        // vehicle is an old and / or a new vehicle with an admissible new tour, magnitudes: see upd_pre
        self.upd_pre(old(transitions)@, *old(maintenance_violation) as int, changed_vehicles@, vehicles@, tours@),
        // (clause of upd_pre, repeated: the caller-side assumption the transition slice names) no real vehicle
        // is listed twice: update_vehicle / remove_vehicle read the previous tour of the vehicle from self.tours
        forall|i: int, j: int| 0 <= i < j < changed_vehicles@.len() && changed_vehicles@[i] is Vehicle
            ==> #[trigger] changed_vehicles@[i] != #[trigger] changed_vehicles@[j],
    ensures
        forall|vt: VehicleTypeIdx| old(transitions)@.contains_key(vt) <==> #[trigger] final(transitions)@.contains_key(vt),
        // C15 / C10: every transition is consistent with the NEW tours ...
        forall|vt: VehicleTypeIdx| #[trigger] final(transitions)@.contains_key(vt) ==> final(transitions)@[vt].wf(&self.network, tours@), // @obl C10.update_transitions.consistent_with_new_tours
        // ... and its cycles hold exactly the NEW vehicles of its type ("every real vehicle belongs to
        // exactly one rotation cycle of its type": one cycle by wf_cycles / wf_lookup)
        forall|vt: VehicleTypeIdx, v: VehicleIdx| #![trigger final(transitions)@[vt].has_vehicle(v)] final(transitions)@.contains_key(vt)
            ==> (final(transitions)@[vt].has_vehicle(v) <==> (vehicles@.contains_key(v) && vtype(vehicles@[v]) == vt)), // @obl C10.update_transitions.membership
        // C09: "the schedule's maintenance violation equals its from-scratch value"
        *final(maintenance_violation) == viol_sum(final(transitions)@, sched_types(self)), // @obl C09.update_transitions.violation_sum
        // the transitions of the other types are untouched
        forall|vt: VehicleTypeIdx| #[trigger] final(transitions)@.contains_key(vt) && !self.touches_type(vehicles@, changed_vehicles@, vt)
            ==> final(transitions)@[vt] == old(transitions)@[vt], // @obl C10.update_transitions.other_types_untouched
//@end

// D11 (fixed in /repo): the index of the next vehicle or dummy; refuses when all 2^16 indices have been handed out.
// `//@item?`: on a tree without this function (the unfixed code casts `self.vehicle_counter as Idx`) the item is skipped
// and the obligations of spawn_vehicle_for_path that need a fresh id fail.
//@item? solution/src/schedule/modifications.rs Schedule::next_free_idx
//@retname r
//@fmt-nonempty
//@sig
    ensures
        vehicle_counter <= 0xffff ==> r == Ok::<Idx, String>(vehicle_counter as u16),
        vehicle_counter > 0xffff ==> r is Err, // @obl C13.next_free_idx.refuses_when_all_indices_are_used
//@end

// ---- the function under contract ----------------------------------------------------------------------
//@item solution/src/schedule/modifications.rs Schedule::spawn_vehicle_for_path
//@viter
//@retname r
//@sig
    requires
        self.sv_ok(),
        self.type_known(vehicle_type_idx),
        // `*nodes.first().unwrap()`; the nodes of the path are nodes of the network (`self.network.node(..)`); A-len
        path_as_vec@.len() >= 1, all_in_net(&self.network, path_as_vec@), tour_len_ok(path_as_vec@),
        // A-counter (magnitude)
        self.spawn_counter_ok(path_as_vec@),
        // what the choice of the depots needs (find_best_start_depot_for_spawning, slices/depot_choice.vs; not part of sv_ok):
        // A-index (how Network::new fills the list; not proved in slice network_new): the start depot node list holds StartDepot
        // nodes of the network whose depot is in the network's depot table
        self.network.start_depots_ok(),
        // only if a start depot has to be chosen (the path does not start with a depot):
        // magnitude: the counts of the schedule's usage table fit u32 (vehicle ids are 16 bit)
        !self.network.sp_node(path_as_vec@[0]).sp_is_depot() ==> self.usage_counts_small(vehicle_type_idx, self.depot_usage@),
        // C06 / C17: some start depot node of the network has room for the type w.r.t. the schedule's usage table ("There should
        // be at least the overflow depot available."; that the overflow depot's capacity suffices is C17, slices/network_new.vs,
        // D5; lemma_depot_without_type_limit_suffices: a start depot node whose depot lists the type without per-type limit and
        // where fewer vehicles start in total than its total capacity suffices).  Otherwise `expect` panics.
        !self.network.sp_node(path_as_vec@[0]).sp_is_depot() ==> self.some_depot_has_room(vehicle_type_idx, self.depot_usage@), // @obl C06.spawn_vehicle.expect_needs_a_depot_with_room
    ensures
        // C01 / C10 "a vehicle only serves service trips of the vehicle's type": "If some node on the path is not
        // compatible with the vehicle type an error is returned", and every node of the new vehicle's tour is compatible
        !all_compatible(&self.network, path_as_vec@, vehicle_type_idx) ==> r is Err, // @obl C01.spawn_vehicle.only_compatible_nodes
        // D11: ids are 16 bit and never reused: when all 2^16 have been handed out the spawn is refused (the unfixed code
        // wrapped around and overwrote the vehicle stored under id 0)
        self.vehicle_counter > 0xffff ==> r is Err, // @obl C13.spawn_vehicle.refuses_instead_of_reusing_an_id
        r is Ok ==> all_compatible(&self.network, r->Ok_0.0.tours@[r->Ok_0.1].nodes@, vehicle_type_idx), // @obl C01.spawn_vehicle.only_compatible_nodes
        // C13 "documented effect and nothing else"
        r is Ok ==> self.spawned(vehicle_type_idx, path_as_vec@, &r->Ok_0.0, r->Ok_0.1), // @obl C13.spawn_vehicle.adds_exactly_one_vehicle_with_the_given_path
        // ... no activity of the path is lost, unless the path starts with a depot and ends with an activity (see "NOT
        // covered / finding" in the header)
        r is Ok ==> activities_kept(&self.network, path_as_vec@, r->Ok_0.0.tours@[r->Ok_0.1].nodes@), // @obl C13.spawn_vehicle.adds_exactly_one_vehicle_with_the_given_path
        r is Ok ==> self.listed(vehicle_type_idx, &r->Ok_0.0, r->Ok_0.1), // @obl C13.spawn_vehicle.adds_exactly_one_vehicle_with_the_given_path
        // C02 "the number of vehicles starting there stays within the depot's total capacity and within the per-type capacity
        // (types not listed for a depot never start there)": if the path does not start with a depot, the new vehicle's start depot
        // node is a start depot node of the network whose depot lists the type and had room for one more vehicle of it, per
        // type and in total, in the OLD usage table ...
        r is Ok && !self.network.sp_node(path_as_vec@[0]).sp_is_depot()
            ==> self.network.start_depot_nodes@.contains(r->Ok_0.0.tours@[r->Ok_0.1].nodes@[0])
                && self.sp_can_spawn(r->Ok_0.0.tours@[r->Ok_0.1].nodes@[0], vehicle_type_idx, self.depot_usage@), // @obl C02.spawn_vehicle.start_depot_had_room
        // ... hence the depot's limits hold for the NEW usage table (lemma_spawn_keeps_depot_limits)
        r is Ok && !self.network.sp_node(path_as_vec@[0]).sp_is_depot()
            ==> self.depot_limits_hold(r->Ok_0.0.tours@[r->Ok_0.1].nodes@[0], vehicle_type_idx, r->Ok_0.0.depot_usage@), // @obl C02.spawn_vehicle.depot_limits_hold_after_the_spawn
        // C13 "the vehicle is spawned from the nearest availabe depot": ... and it is the nearest such node (dead-head distance
        // from the depot to the start location of the first node of the path; ties: the one listed first)
        r is Ok && !self.network.sp_node(path_as_vec@[0]).sp_is_depot()
            ==> self.best_start_depot(r->Ok_0.0.tours@[r->Ok_0.1].nodes@[0], vehicle_type_idx, self.network.sp_node(path_as_vec@[0]).sp_start_location(), self.depot_usage@), // @obl C13.spawn_vehicle.nearest_start_depot_with_room
        // C13 "Similarly, if path does not end with a depot the vehicle is spawned to the nearest depot (from the end location of
        // the last trip)": if the path neither starts nor ends with a depot, the tour ends at the nearest end depot node
        // (capacities ignored; ties: the one listed first)
        r is Ok && !self.network.sp_node(path_as_vec@[0]).sp_is_depot() && !self.network.sp_node(path_as_vec@[path_as_vec@.len() - 1]).sp_is_depot()
            ==> self.network.nearest_end_depot(r->Ok_0.0.tours@[r->Ok_0.1].nodes@[r->Ok_0.0.tours@[r->Ok_0.1].nodes@.len() - 1],
                    self.network.sp_node(path_as_vec@[path_as_vec@.len() - 1]).sp_end_location()), // @obl C13.spawn_vehicle.nearest_end_depot
        // C10 "listings sorted and match": if every type's id list held exactly the vehicles of the type, it still does
        r is Ok && self.listings_match() ==> r->Ok_0.0.listings_match(), // @obl C10.spawn_vehicle.listings_still_match
        r is Ok ==> self.formations_follow(&r->Ok_0.0, r->Ok_0.1), // @obl C13.spawn_vehicle.formations_follow_update_train_formation
        // C09 "cached aggregates equal recomputation"
        r is Ok ==> r->Ok_0.0.costs == self.costs + r->Ok_0.0.tours@[r->Ok_0.1].costs, // @obl C09.spawn_vehicle.costs_plus_tour_costs
        r is Ok ==> usage_exact_for(r->Ok_0.0.depot_usage@, &self.network, r->Ok_0.0.vehicles@, r->Ok_0.0.tours@, r->Ok_0.1)
            && usage_same_except(self.depot_usage@, r->Ok_0.0.depot_usage@, r->Ok_0.1)
            && usage_exact(r->Ok_0.0.depot_usage@, &self.network, r->Ok_0.0.vehicles@, r->Ok_0.0.tours@), // @obl C09.spawn_vehicle.depot_usage_exact
        // C15 / C10 / C09: rotation cycles and maintenance violation
        r is Ok ==> self.transitions_follow(vehicle_type_idx, &r->Ok_0.0), // @obl C10.spawn_vehicle.transitions_follow_new_tours
        // ---- CLOSURE (C10 "after any sequence of schedule modifications", C09 / C11 "for every reachable schedule"): the result
        // satisfies the schedule-invariant bundle sv_ok() of the precondition AGAIN, conjunct by conjunct (spcl_lemma_closure,
        // env/spawn_vehicle_shim.vs).  Instance validity: the network is the same
        r is Ok ==> r->Ok_0.0.network.wf() && depot_lists_ok(&r->Ok_0.0.network), // @obl C10.spawn_vehicle.result_satisfies_the_schedule_invariants_again
        // ids / listings: vehicles under their own `Vehicle` id below the counter, with a tour; dummies under `Dummy` ids; id lists sorted
        r is Ok ==> r->Ok_0.0.sv_ids_ok(), // @obl C10.spawn_vehicle.result_satisfies_the_schedule_invariants_again
        // formations: every activity has an entry; the instance clause (A-types); C09: the cached unserved-passengers pair covers
        // every duplicate-free list of nodes w.r.t. the NEW table (re-established from the clause itself and the exact delta)
        r is Ok ==> r->Ok_0.0.spcl_forms_cover_activities() && r->Ok_0.0.spcl_trips_typed() && r->Ok_0.0.spcl_unserved_covers(), // @obl C10.spawn_vehicle.result_satisfies_the_schedule_invariants_again
        // formations, MAGNITUDE clauses (at most 2^17 vehicles per formation; the u32 capacity / seat sums fit with one more vehicle):
        // NOT invariants of the operation (every formation along the new tour grows by one vehicle, and sv_ok does not relate the
        // length of a formation to the number of vehicles); they hold again under the weakest hypothesis on the RESULT: the clause
        // itself for the formations that grew (the activities of the new tour) -- everywhere else it is inherited
        r is Ok && r->Ok_0.0.spcl_grown_len_small(r->Ok_0.0.tours@[r->Ok_0.1].nodes@) ==> r->Ok_0.0.spcl_forms_len_small(), // @obl C10.spawn_vehicle.result_satisfies_the_schedule_invariants_again
        r is Ok && r->Ok_0.0.spcl_grown_sums_fit(r->Ok_0.0.tours@[r->Ok_0.1].nodes@) ==> r->Ok_0.0.spcl_forms_sums_fit(), // @obl C10.spawn_vehicle.result_satisfies_the_schedule_invariants_again
        r is Ok && r->Ok_0.0.spcl_grown_len_small(r->Ok_0.0.tours@[r->Ok_0.1].nodes@) && r->Ok_0.0.spcl_grown_sums_fit(r->Ok_0.0.tours@[r->Ok_0.1].nodes@)
            ==> r->Ok_0.0.sv_formations_ok(), // @obl C10.spawn_vehicle.result_satisfies_the_schedule_invariants_again
        // rotation cycles: every clause of transitions_ok, INCLUDING its magnitude clause (fewer than 2^17 vehicles in the cycles:
        // they hold exactly the vehicles, and ids are 16 bit)
        r is Ok ==> r->Ok_0.0.transitions_ok(), // @obl C10.spawn_vehicle.result_satisfies_the_schedule_invariants_again
        // depot usage: exact w.r.t. the result's own network
        r is Ok ==> usage_exact(r->Ok_0.0.depot_usage@, &r->Ok_0.0.network, r->Ok_0.0.vehicles@, r->Ok_0.0.tours@), // @obl C10.spawn_vehicle.result_satisfies_the_schedule_invariants_again
        // the bundle.  `costs <= 2^61` is a magnitude clause, too, and not an invariant (costs grow by the costs of the new tour):
        // it is a hypothesis on the result
        r is Ok && r->Ok_0.0.spcl_grown_len_small(r->Ok_0.0.tours@[r->Ok_0.1].nodes@) && r->Ok_0.0.spcl_grown_sums_fit(r->Ok_0.0.tours@[r->Ok_0.1].nodes@)
            && r->Ok_0.0.costs <= sched_cost_bound() ==> r->Ok_0.0.sv_ok(), // @obl C10.spawn_vehicle.result_satisfies_the_schedule_invariants_again
        // the preconditions outside sv_ok that are not about the path: a known vehicle type stays known; A-index for the start depots
        r is Ok ==> forall|t: VehicleTypeIdx| self.type_known(t) ==> #[trigger] r->Ok_0.0.type_known(t), // @obl C10.spawn_vehicle.result_satisfies_the_schedule_invariants_again
        r is Ok ==> r->Ok_0.0.network.start_depots_ok(), // @obl C10.spawn_vehicle.result_satisfies_the_schedule_invariants_again
//@closure any#0
    -> (b: bool) requires self.network.has(*n) ensures b == !self.network.sp_compatible(*n, vehicle_type_idx) /* @obl C01.spawn_vehicle.only_compatible_nodes */
//@closure unwrap_or_else#0
    -> (q: usize) ensures q == e
//@first
        broadcast use axiom_vec_node_idx_debug;
        let ghost path = path_as_vec@;
        let ghost id = self.next_vehicle_id();
        let ghost l0 = self.listing(vehicle_type_idx);
        proof {
            if self.vehicle_counter <= 0xffff { lemma_fresh_id(self); }
            // C10 "listings sorted": putting the id where binary_search says keeps the list sorted
            assert forall|q: Result<usize, usize>| #[trigger] bsearch_post(l0, id, q)
                implies 0 <= bs_pos(q) <= l0.len() && sorted_cmp(l0.insert(bs_pos(q), id)) by {
                lemma_sorted_insert(l0, id, q);
            }
        }
//@after "let vehicle ="
        let ghost nt = tour;
        let ghost vh = vehicle;
        proof {
            // `any` returned false: every node of the path is compatible with the type
            assert forall|i: int| 0 <= i < path.len() implies self.network.sp_compatible(#[trigger] path[i], vehicle_type_idx) by {} // @obl C01.spawn_vehicle.only_compatible_nodes
            assert(tour_of_net(&self.network, &nt));
            lemma_tour_compatible(&self.network, path, &nt, vehicle_type_idx); // @obl C01.spawn_vehicle.only_compatible_nodes
            lemma_activities_kept(&self.network, path, nt.nodes@); // @obl C13.spawn_vehicle.adds_exactly_one_vehicle_with_the_given_path
            // what the bookkeeping steps need
            lemma_tfu_pre(self, vehicle_type_idx, vh, &nt);
            lemma_cost_bounds(&self.network, nt.nodes@);
            assert(tour_ok(&self.network, &nt));
            lemma_upd_pre_new(self, vehicle_type_idx, id, vh, nt, self.vehicles@.insert(id, vh), self.tours@.insert(id, nt));
        }
//@after "let position"
        let ghost pos = position as int;
//@before "Ok(("
        proof {
            if self.listings_match() {
                lemma_listings_match(self.vehicle_ids_grouped_and_sorted@, self.vehicles@, vehicle_ids_grouped_and_sorted@, vehicles@, vehicle_type_idx, id, vh, pos); // @obl C10.spawn_vehicle.listings_still_match
            }
            assert(vehicles@ == self.vehicles@.insert(id, vh)); // @obl C13.spawn_vehicle.adds_exactly_one_vehicle_with_the_given_path
            assert(tours@ == self.tours@.insert(id, nt)); // @obl C13.spawn_vehicle.adds_exactly_one_vehicle_with_the_given_path
            // C09: the usage table was brought up to date for the new vehicle and left alone for everybody else
            lemma_usage_exact_step(self.depot_usage@, depot_usage@, &self.network, self.vehicles@, self.tours@, vehicles@, tours@, id); // @obl C09.spawn_vehicle.depot_usage_exact
            // C02: the chosen start depot had room in the old table; the new vehicle was booked there and nowhere else
            if !self.network.sp_node(path[0]).sp_is_depot() {
                let ghost n0 = nt.nodes@[0];
                assert(self.best_start_depot(n0, vehicle_type_idx, self.network.sp_node(path[0]).sp_start_location(), self.depot_usage@)); // @obl C02.spawn_vehicle.start_depot_had_room
                assert forall|d: DepotIdx, vt: VehicleTypeIdx| (#[trigger] sp_spawned(depot_usage@, d, vt)).contains(id) <==> (d == self.network.sp_depot_idx_of(n0) && vt == vehicle_type_idx) by {
                    assert(sp_spawned(depot_usage@, d, vt).contains(id) <==> starts_at(&self.network, vehicles@, tours@, id, d, vt));
                }
                lemma_spawn_keeps_depot_limits(self, n0, vehicle_type_idx, self.depot_usage@, depot_usage@, id); // @obl C02.spawn_vehicle.depot_limits_hold_after_the_spawn
            }
            // CLOSURE: whatever schedule is built from these parts (the tail expression `Ok((Schedule::new(..), vehicle_id))` has no
            // name yet) and satisfies the effect clauses above, satisfies the invariant bundle again
            assert forall|s1: Schedule| #![trigger s1.transitions_ok()] #![trigger s1.sv_ok()] #![trigger s1.sv_formations_ok()] #![trigger s1.spcl_unserved_covers()] #![trigger s1.sv_ids_ok()]
                self.spcl_step(vehicle_type_idx, path, &s1, id)
                implies spcl_closed(self, &s1, id) by {
                spcl_lemma_closure(self, &s1, vehicle_type_idx, path, id); // @obl C10.spawn_vehicle.result_satisfies_the_schedule_invariants_again
            }
        }
//@end

} // mod tr
} // verus!
fn main() {}
