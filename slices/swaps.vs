// slice `swaps`: the local-search neighbourhood moves of solver/src/local_search/neighborhood/swaps.rs and swaps/*.rs
// (C11: "Each candidate produced by the local-search neighbourhood (maintenance spawning, path exchange, hitch-hiking,
// single-node removal) from any reachable schedule is itself a structurally valid schedule whose cached objective
// components equal their recomputed values ... Generating candidates never panics and leaves the base schedule
// observably unchanged").
//
// LEVEL A (this slice): WIRING.  Verified verbatim: the free fn `improve_depot_and_recompute_transitions` and the four
// `Swap::apply` impls (as trait impls: `//@keep-trait`).  Every schedule modification they call is a stub
// `r == sw::<callee>(arguments)` with an UNINTERPRETED spec function (env/swaps_shim.vs, A-wire); each move is proved to be
// exactly the documented composition of those modifications (`<Move>::result`, transcribed from the doc comments and the
// comments in the code), and to contain no failing `unwrap` / index / `assert!` under the stated preconditions (`<Move>::req`).
// What the modifications themselves do (C13 / C09 / C10 / C01 / C02 for their results) is proved in the slices remove_segment,
// add_path, override_reassign, fit_reassign, spawn_vehicle, dummy_ops and depot_ops; this slice fixes WHICH modifications a
// candidate is made of, in which order, on which schedule and with which arguments.
//   * improve_depot_and_recompute_transitions(s, changed) = recompute_transitions_for(Some(T)) applied to
//     improve_depots(s, Some(changed)), where T lists, ascending and each exactly once, the types of the changed vehicles
//     whose rotation cycles in the improved schedule have a positive maintenance violation (idr_result; T is unique:
//     lemma_vt_strict_unique / lemma_idr_result_unique);
//   * RemoveSingleNode:  remove_segment(s, [node, node], vehicle), nothing else;
//   * AddTripForHitchHiking:  Err if the node's formation has reached the trip's formation limit; else
//     add_path_to_vehicle_tour(s, vehicle, <node>); Err if that fails or reports a conflict path; else
//     improve_depot_and_recompute_transitions(its schedule, [vehicle]);
//   * SpawnVehicleForMaintenance:  Err if the vehicle's tour already visits a maintenance slot; if the slot is full
//     (occupants >= track count) remove_segment(s, [slot, slot], LAST occupant); add_path_to_vehicle_tour(that, vehicle, <slot>);
//     if a conflict path is reported spawn_vehicle_for_path(that, type of the vehicle, conflict path); Err if any step fails;
//     else improve_depot_and_recompute_transitions(that, [last occupant if still a vehicle, vehicle, new vehicle if any]);
//   * PathExchange:  override_reassign(s, segment, provider, receiver), Err if it fails; then by case (PxCase)
//       no new dummy                                  -> nothing more,
//       new dummy, provider (a dummy in s) is gone    -> nothing more,
//       new dummy, provider (a vehicle in s) is gone  -> spawn_vehicle_to_replace_dummy_tour(first, new dummy, provider's type),
//       new dummy, provider still present             -> fit_reassign(first, [first node, last node of the new dummy's tour],
//                                                        new dummy, provider),
//     Err if that step fails; else improve_depot_and_recompute_transitions(second, the touched vehicles -- receiver if a vehicle
//     of s; replacement vehicle resp. provider -- that are vehicles of the second schedule, consecutive repetitions dropped).
//   "leaves the base schedule observably unchanged": `schedule: &Schedule` is a shared reference and `Schedule` has no
//   interior mutability (Rust's type system; nothing to prove); every stub takes `&self`.
//
// ASSUMPTIONS introduced by this slice (env/swaps_shim.vs):
//   A-wire   Schedule::{remove_segment, add_path_to_vehicle_tour, override_reassign, fit_reassign, spawn_vehicle_for_path,
//            spawn_vehicle_to_replace_dummy_tour, improve_depots, recompute_transitions_for}: `r == sw::f(self, args)` for an
//            uninterpreted f (the result is a function of the receiver and the arguments; a Path / Vec argument enters as its
//            node / item sequence (and network)); no precondition: what the modifications need of the schedule is the
//            business of their own slices (R7b)
//   A-dyn    trait `Swap` declared by hand with `apply` only (Display / Send / Sync bounds dropped) and the precondition hook
//            swap_req, fixed per move by axiom_req_{remove_single_node, add_trip_for_hitch_hiking,
//            spawn_vehicle_for_maintenance, path_exchange}
//   A-std8   <[T]>::sort (a rearrangement that is sorted w.r.t. Ord::cmp), Vec::dedup (sw_dedup: drops every element equal to
//            its predecessor), Iterator::filter_map on the SeqIter shim (sw_somes)  -- transcribed from the std documentation
//   A-derive derived PartialOrd / Ord of VehicleTypeIdx = order of the wrapped index (vt_rank); derived PartialEq of the index
//            types is structural (env/model_types.vs)
//   A-clone  derived Clone of Schedule yields an equal schedule
//   A-stub   TrainFormation::ids (`formation.iter().map(|v| v.idx()).collect()`): the ids of the formation's vehicles in order
//            -- not verified in any slice; Tour::visits_maintenance (returns the cached field) is verified here
//   R7a stubs (verified elsewhere with the SAME contract text; tools/stub_sync.py reports no difference): Schedule::vehicle_type_of,
//            Schedule::tour_of, Schedule::get_network (sched_guard), Schedule::train_formation_of (json_writer),
//            Schedule::next_day_transition_of, Tour::first_node, Tour::last_node (depot_usage), Transition::maintenance_violation
//            (depot_ops), TrainFormation::vehicle_count (formation), Network::maximal_formation_count_for,
//            Network::track_count_of_maintenance_slot (limits), Path::new_from_single_node (path), Path::consume (fit_reassign)
//   plus the shared ones: env/im_shim.vs (im::HashMap, Vec::retain), env/schedule_shim.vs, env/seqiter.vs, env/time_ops.vs /
//            model_fns.vs / dist_ops.vs included trusted, key model of the index types, A-fmt (R9).
//
// PRECONDITIONS (`<Move>::req`, attached through swap_req; idr_req for the free fn):
//   improve_depot_and_recompute_transitions  idr_req: every changed vehicle is a real vehicle of the schedule ("assumes that all
//            vehicles are real vehicles in the given schedule": `vehicle_type_of(v).unwrap()`); the schedule with improved depots
//            has rotation cycles for their types (`next_day_transition_of`: `.get(&vt).unwrap()`)
//   RemoveSingleNode            none
//   AddTripForHitchHiking       Network::wf; the node is a service trip of the network whose vehicle type exists; it has a
//            formation of at most 2^32-1 vehicles; and idr_req for (the schedule add_path returns, [vehicle]) -- in
//            particular THE VEHICLE MUST BE A REAL VEHICLE: add_path_to_vehicle_tour accepts a dummy, the following
//            `vehicle_type_of(dummy).unwrap()` would panic (the neighbourhood only passes vehicles_iter_all())
//   SpawnVehicleForMaintenance  the vehicle is a real vehicle with a tour; Network::wf; the slot is a maintenance node of the
//            network and has a formation; a full slot has an occupant, i.e. NO SLOT WITH TRACK COUNT 0 (`occupants.last().unwrap()`
//            panics for `0 >= 0`; the neighbourhood only passes slots with vehicle_count < track_count); idr_req for
//            (schedule3, changed3)
//   PathExchange                case ProviderPresent: the dummy reported by override_reassign has a non-empty tour in the
//            schedule it returns (`tour_of(new_dummy).unwrap()`, `nodes[0]`); the improved schedule has rotation cycles for the
//            changed vehicles' types.  That the changed vehicles are real vehicles of the second schedule is NOT assumed: it is
//            proved from `retain(|&v| second_schedule.is_vehicle(v))`.  `schedule.vehicle_type_of(provider).unwrap()` needs no
//            precondition either (guarded by the match on `schedule.is_vehicle(provider)`).
//   The clauses about intermediate schedules (idr_req of a modification's result) are consequences of the modifications'
//   contracts in their own slices (vehicles / keys of next_period_transitions unchanged or extended); here the results are
//   uninterpreted, so they are stated.
//
// NOT covered here: level B (that the candidate is a valid schedule with exact caches).  For RemoveSingleNode it is proved in the
//   companion slice slices/swaps_sem.vs over the real contract of remove_segment (the two levels cannot share a file: both
//   need an inherent method Schedule::remove_segment, with different contracts).  For the other three moves it is NOT derived:
//   they compose two to five modifications whose shims cannot be included together (same names: sp_is_vehicle, sorted_cmp,
//   usage_exact, ids_ok, rs_ok, Ord of VehicleIdx, ...), and the modification slices do not prove that their result satisfies
//   the precondition bundle of the NEXT modification as a whole (rs_ok / ap_ok / dp_ok: see their headers).  Also not covered:
//   the texts of the error messages; the neighbourhood iterators of neighborhood/mod.rs (rayon); the Display impls.
#![feature(allocator_api)]
use vstd::prelude::*;
use std::ops::Add;
use std::ops::Sub;
use std::collections::{BTreeMap, HashMap};
use std::sync::Arc;
//@include env/display_time.rs
//@include env/display_model.rs
verus! {
//@include env/std_specs.vs
//@include env/seqiter.vs
//@include env/time_types.vs
//@include-trusted env/time_ops.vs
//@include env/model_types.vs
//@include env/broadcast_model.vs
//@include env/model_network_types.vs
//@include env/model_spec.vs
//@include-trusted env/model_fns.vs
//@include env/solution_types.vs
//@include env/tour_spec.vs
//@include env/sums.vs
//@include-trusted env/dist_ops.vs
//@include env/vsum_impls.vs
//@include env/cache_spec.vs
//@include-proved env/cache_lemmas.vs
//@include env/limits_spec.vs

pub mod tr {
use super::*;
use vstd::prelude::*;
use self::im::HashMap;
use self::im_set::HashSet;
//@include env/im_shim.vs

//@item solution/src/transition.rs type CycleIdx : plain
//@end
//@item solution/src/transition/transition_cycle.rs struct TransitionCycle : plain
//@drop-derive Clone
//@end
impl Clone for TransitionCycle {
    #[verifier::external_body]
    fn clone(&self) -> (r: Self)
        ensures r == *self
    { unimplemented!() }
}
//@item solution/src/transition.rs struct Transition : plain
//@end
//@include env/transition_spec.vs
//@include env/schedule_shim.vs
//@include env/sched_guard_shim.vs

// ---- the four moves (verbatim type definitions) ----------------------------------------------------------
//@item solver/src/local_search/neighborhood/swaps/remove_single_node.rs struct RemoveSingleNode : plain
//@end
//@item solver/src/local_search/neighborhood/swaps/add_trip_for_hitch_hiking.rs struct AddTripForHitchHiking : plain
//@end
//@item solver/src/local_search/neighborhood/swaps/spawn_vehicle_for_maintenance.rs struct SpawnVehicleForMaintenance : plain
//@drop-derive Clone
//@end
//@item solver/src/local_search/neighborhood/swaps/path_exchange.rs struct PathExchange : plain
//@end
//@include env/swaps_shim.vs

// ---- the schedule's look-ups ---------------------------------------------------------------------------------
// verified here (verbatim bodies)
//@item solution/src/schedule.rs Schedule::is_vehicle
//@retname r
//@sig
    ensures r == self.vehicles@.contains_key(vehicle),
//@end
//@item solution/src/schedule.rs Schedule::is_dummy
//@retname r
//@sig
    ensures r == self.dummy_tours@.contains_key(vehicle),
//@end
//@item solution/src/schedule.rs Schedule::is_vehicle_or_dummy
//@retname r
//@sig
    ensures r == (self.vehicles@.contains_key(vehicle) || self.dummy_tours@.contains_key(vehicle)),
//@end
//@item solution/src/tour.rs Tour::visits_maintenance
//@retname r
//@sig
    ensures r == self.visits_maintenance,
//@end
// R7a stubs: verified in slice sched_guard; contract text copied from there
//@item solution/src/schedule.rs Schedule::vehicle_type_of : trusted
//@retname r
//@sig
    ensures
        self.vehicles@.contains_key(vehicle) ==> r == Ok::<VehicleTypeIdx, String>(self.type_of(vehicle)),
        !self.vehicles@.contains_key(vehicle) ==> r is Err,
//@end
//@item solution/src/schedule.rs Schedule::tour_of : trusted
//@retname r
//@sig
    ensures
        self.has_tour(vehicle) ==> r is Ok && *r->Ok_0 == self.sp_tour_of(vehicle),
        !self.has_tour(vehicle) ==> r is Err,
//@end
//@item solution/src/schedule.rs Schedule::get_network : trusted
//@retname r
//@sig
    ensures r == self.network,
//@end
// verified in slice json_writer / train_formation_update
//@item solution/src/schedule.rs Schedule::train_formation_of : trusted
//@retname r
//@sig
    requires self.train_formations@.contains_key(node),
    ensures *r == self.train_formations@[node],
//@end
// verified in slice depot_usage
//@item solution/src/schedule.rs Schedule::next_day_transition_of : trusted
//@retname r
//@sig
    requires self.next_period_transitions@.contains_key(vehicle_type),
    ensures *r == self.next_period_transitions@[vehicle_type],
//@end
//@item solution/src/tour.rs Tour::first_node : trusted
//@retname r
//@sig
    requires self.nodes@.len() >= 1,
    ensures r == self.nodes@[0],
//@end
//@item solution/src/tour.rs Tour::last_node : trusted
//@retname r
//@sig
    requires self.nodes@.len() >= 1,
    ensures r == self.nodes@[self.nodes@.len() - 1],
//@end
// verified in slice depot_ops / depot_usage / sched_guard
//@item solution/src/transition.rs Transition::maintenance_violation : trusted
//@retname r
//@sig
    ensures r == self.total_maintenance_violation,
//@end
// verified in slice formation
//@item solution/src/train_formation.rs TrainFormation::vehicle_count : trusted
//@retname r
//@sig
    requires self.formation@.len() <= u32::MAX,
    ensures r == self.formation@.len(),
//@end
// A-stub: not verified in any slice; `self.formation.iter().map(|v| v.idx()).collect()`
//@item solution/src/train_formation.rs TrainFormation::ids : trusted
//@retname r
//@sig
    ensures r@ == self.formation@.map_values(|v: Vehicle| v.idx),
//@end
// verified in slice limits (env/limits_fns.vs)
//@item model/src/network.rs Network::track_count_of_maintenance_slot : trusted
//@retname r
//@sig
    requires self.has(maintenance_node), self.sp_node(maintenance_node) is Maintenance,
    ensures r == self.sp_node(maintenance_node)->Maintenance_0.1.track_count,
//@end
//@item model/src/network.rs Network::maximal_formation_count_for : trusted
//@retname r
//@sig
    requires self.is_trip(service_trip),
    ensures r == combined_limit(
        self.vehicle_types.vehicle_types@[self.sp_trip(service_trip).vehicle_type].maximal_formation_count,
        self.sp_trip(service_trip).maximal_formation_count), // @obl C02.maximal_formation_count_for.smaller_of_present_limits
//@end
// verified in slice path / fit_reassign
//@item solution/src/path.rs Path::new_from_single_node : trusted
//@retname r
//@sig
    requires network.wf(), network.has(node), !network.sp_node(node).sp_is_depot(),
    ensures r.node_sequence@ == seq![node], r.network == network,
//@end
//@item solution/src/path.rs Path::consume : trusted
//@retname r
//@sig
    ensures r@ == self.node_sequence@,
//@end

// ---- A-wire: the schedule modifications (uninterpreted; verified in their own slices) -----------------------
//@item solution/src/schedule/modifications.rs Schedule::remove_segment : trusted
//@retname r
//@sig
    ensures r == sw::remove_segment(*self, segment, vehicle_idx),
//@end
//@item solution/src/schedule/modifications.rs Schedule::add_path_to_vehicle_tour : trusted
//@retname r
//@sig
    ensures r == sw::add_path_to_vehicle_tour(*self, vehicle_idx, path.node_sequence@, path.network),
//@end
//@item solution/src/schedule/modifications.rs Schedule::override_reassign : trusted
//@retname r
//@sig
    ensures r == sw::override_reassign(*self, segment, provider, receiver),
//@end
//@item solution/src/schedule/modifications.rs Schedule::fit_reassign : trusted
//@retname r
//@sig
    ensures r == sw::fit_reassign(*self, segment, provider, receiver),
//@end
//@item solution/src/schedule/modifications.rs Schedule::spawn_vehicle_for_path : trusted
//@retname r
//@sig
    ensures r == sw::spawn_vehicle_for_path(*self, vehicle_type_idx, path_as_vec@),
//@end
//@item solution/src/schedule/modifications.rs Schedule::spawn_vehicle_to_replace_dummy_tour : trusted
//@retname r
//@sig
    ensures r == sw::spawn_vehicle_to_replace_dummy_tour(*self, dummy_idx, vehicle_type_idx),
//@end
//@item solution/src/schedule/modifications.rs Schedule::improve_depots : trusted
//@retname r
//@sig
    ensures r == sw::improve_depots(*self, sw::opt_seq(vehicles)),
//@end
//@item solution/src/schedule/modifications.rs Schedule::recompute_transitions_for : trusted
//@retname r
//@sig
    ensures r == sw::recompute_transitions_for(*self, sw::opt_seq(vehicle_types)),
//@end

// =====================================================================================================
// improve_depot_and_recompute_transitions
// =====================================================================================================
// "assumes that all vehicles are real vehicles in the given schedule"
//@item solver/src/local_search/neighborhood/swaps.rs fn improve_depot_and_recompute_transitions
//@retname r
//@viter
//@sig
    requires
        idr_req(schedule, changed_vehicles@), // @obl C11.improve_depot_and_recompute_transitions.no_panic_under_stated_preconditions
    ensures
        idr_result(schedule, changed_vehicles@, r), // @obl C11.improve_depot_and_recompute_transitions.is_the_documented_composition
//@closure-params map#0
    &VehicleIdx
//@closure map#0
    -> (q: VehicleTypeIdx) requires schedule.vehicles@.contains_key(*p0) ensures q == schedule.type_of(*p0)
//@closure-params filter_map#0
    &VehicleTypeIdx
//@closure filter_map#0
    -> (o: Option<VehicleTypeIdx>)
        requires schedule_with_improved_depots.next_period_transitions@.contains_key(*p0)
        ensures o == idr_keep(schedule_with_improved_depots, *p0) /* @obl C11.improve_depot_and_recompute_transitions.is_the_documented_composition */
//@first
        let ghost changed = changed_vehicles@;
//@before "let schedule_with_improved_depots"
        let ghost vts = changed_vehicle_types@;
        proof {
            assert(vts.len() == changed.len());
            assert forall|i: int| 0 <= i < changed.len() implies #[trigger] vts[i] == schedule.type_of(changed[i]) by {}
        }
//@after "let mut changed_vehicle_types_with_positive_violation"
        let ghost listed = changed_vehicle_types_with_positive_violation@;
        proof {
            // the filter_map kept exactly the changed types with a positive violation
            let outs = choose|outs: Seq<Option<VehicleTypeIdx>>| #![trigger sw_somes(outs)] outs.len() == vts.len()
                && (forall|i: int| 0 <= i < outs.len() ==> #[trigger] outs[i] == idr_keep(schedule_with_improved_depots, vts[i]))
                && listed == sw_somes(outs);
            assert forall|vt: VehicleTypeIdx| #[trigger] listed.contains(vt) <==> idr_recomputed_type(schedule, changed, vt) by {
                lemma_positive_types(schedule, changed, vts, outs, vt);
            }
            // "make vehicle types unique": whatever sorted rearrangement `sort` produces, `dedup` turns it into THE type list
            // (stated for every such list, so that no hint is anchored at the sort / dedup statements)
            assert forall|q: Seq<VehicleTypeIdx>| q.to_multiset() == listed.to_multiset() && sw_sorted(q)
                implies idr_type_list(schedule, changed, #[trigger] sw_dedup(q)) by {
                lemma_sorted_dedup_is_type_list(schedule, changed, listed, q);
            }
        }
//@end

// =====================================================================================================
// the four moves
// =====================================================================================================
//@item solver/src/local_search/neighborhood/swaps/remove_single_node.rs traitfn RemoveSingleNode::apply
//@keep-trait
//@retname r
//@sig
    ensures
        r == self.result(schedule), // @obl C11.remove_single_node.is_the_documented_composition
//@first
        proof { axiom_req_remove_single_node(self, schedule); }
//@end

//@item solver/src/local_search/neighborhood/swaps/add_trip_for_hitch_hiking.rs traitfn AddTripForHitchHiking::apply
//@keep-trait
//@retname r
//@sig
    ensures
        self.result(schedule, r), // @obl C11.add_trip_for_hitch_hiking.is_the_documented_composition
//@first
        proof {
            axiom_req_add_trip_for_hitch_hiking(self, schedule);
            lemma_no_panic_add_trip_for_hitch_hiking(self, schedule);
            // (`vec![self.vehicle]` is anonymous: every one-element list of the vehicle is the list [vehicle])
            assert forall|q: Seq<VehicleIdx>| #[trigger] q.len() == 1 && q[0] == self.vehicle implies q == seq![self.vehicle] by {
                assert(q =~= seq![self.vehicle]);
            }
        }
//@end

//@item solver/src/local_search/neighborhood/swaps/spawn_vehicle_for_maintenance.rs traitfn SpawnVehicleForMaintenance::apply
//@keep-trait
//@retname r
//@fmt-nonempty
//@sig
    ensures
        self.result(schedule, r), // @obl C11.spawn_vehicle_for_maintenance.is_the_documented_composition
//@first
        proof { axiom_req_spawn_vehicle_for_maintenance(self, schedule); lemma_no_panic_spawn_vehicle_for_maintenance(self, schedule); }
//@end

//@item solver/src/local_search/neighborhood/swaps/path_exchange.rs traitfn PathExchange::apply
//@keep-trait
//@retname r
//@sig
    ensures
        self.result(schedule, r), // @obl C11.path_exchange.is_the_documented_composition
//@closure-params? retain#0
    &VehicleIdx
//@closure? retain#0
    -> (b: bool) ensures b == second_schedule.vehicles@.contains_key(*p0)
//@first
        proof { axiom_req_path_exchange(self, schedule); lemma_no_panic_path_exchange(self, schedule); }
//@after "let second_schedule"
        let ghost touched = vehicle_of_changed_tours@;
        proof {
            assert(touched =~= self.touched(schedule));
            // `retain(|&v| second_schedule.is_vehicle(v))` keeps the real vehicles of the second schedule (stated for every
            // mask, so that no hint is anchored at the retain / dedup statements)
            assert forall|mask: Seq<bool>| mask.len() == touched.len()
                && (forall|i: int| 0 <= i < mask.len() ==> #[trigger] mask[i] == second_schedule.vehicles@.contains_key(touched[i]))
                implies #[trigger] mask_filter(touched, mask) == sw_keep(touched, second_schedule) by {
                lemma_mask_is_keep(touched, mask, second_schedule);
            }
        }
//@end

} // mod tr
} // verus!
fn main() {}
