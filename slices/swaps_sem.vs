// slice `swaps_sem`: level B (SEMANTIC) for the neighbourhood move RemoveSingleNode (C11: "Each candidate produced by the
// local-search neighbourhood (... single-node removal) from any reachable schedule is itself a structurally valid schedule
// whose cached objective components equal their recomputed values ... Generating candidates never panics and leaves the
// base schedule observably unchanged").  Companion of slices/swaps.vs (level A, wiring): there every modification is an
// uninterpreted stub; here Schedule::remove_segment is an R7a stub with the REAL contract text of slices/remove_segment.vs
// (copied verbatim; tools/stub_sync.py reports no difference) and the verbatim body of `RemoveSingleNode::apply` (trait impl,
// `//@keep-trait`) is proved to yield
//   * no candidate (Err) if the vehicle is not a real vehicle or its tour refuses to give up the node (C12);
//   * otherwise, unless the removal is delegated to replace_vehicle_by_dummy (the node is the vehicle's only activity; not
//     under contract in slices/remove_segment.vs: NOT covered), a candidate exactly when an id is left for the dummy tour, and
//     the candidate satisfies RemoveSingleNode::candidate_ok (env/swaps_sem_shim.vs): same network / vehicles, valid ids
//     (C10), the vehicle's tour is the old one without the node -- well-formed, exact caches --, all other tours and all
//     formations elsewhere are the base's, the removed trip is handed back in a new dummy tour; unserved passengers, costs,
//     depot usage table and maintenance violation have their recomputed values for the candidate (C09); every rotation cycle is
//     consistent with the candidate's tours and holds exactly its vehicles of the type (C15 / C10).
//   "leaves the base schedule observably unchanged": `schedule: &Schedule`, no interior mutability (type system).
// The two levels cannot share one file: level A needs `Schedule::remove_segment` with the contract `r == sw::remove_segment(..)`,
// level B with the verified text; both are inherent methods of the one type `Schedule`.
// Level B is NOT attempted for AddTripForHitchHiking / SpawnVehicleForMaintenance / PathExchange: they compose two to five
// modifications whose shims (env/add_path_shim.vs + env/spawn_vehicle_shim.vs, env/depot_ops_shim.vs, env/override_reassign_shim.vs,
// env/fit_reassign_shim.vs, env/dummy_ops_shim.vs) define the same names (sp_is_vehicle, sorted_cmp, usage_exact, ids_ok, rs_ok,
// Ord of VehicleIdx, sp_depot_idx_of, ...) and cannot be included together; moreover the modification slices do not prove that
// their result satisfies the precondition bundle of the NEXT modification (rs_ok / ap_ok / dp_ok as a whole), which a
// composition needs.
//
// ASSUMPTIONS introduced by this slice (env/swaps_sem_shim.vs):
//   A-dyn    trait `Swap` declared by hand with `apply` only and the precondition hook swap_req, fixed for RemoveSingleNode by
//            axiom_sem_req_remove_single_node
//   R7a stub Schedule::remove_segment (verified in slice remove_segment; its own assumptions are listed there)
//   plus the shared environment of slices/remove_segment.vs (same include list).
// PRECONDITIONS (RemoveSingleNode::req): those of remove_segment for the segment [node, node]: rs_ok, the node is a node of the
//   network, A-counter (shrunk_counter_ok), tfu_pre for the removed node.
// NOT covered: the whole-tour case (replace_vehicle_by_dummy); preservation of rs_ok as a whole (only the clauses listed in
//   candidate_ok; in particular the magnitude clauses and formations_ok are not re-established).
#![feature(allocator_api)]
use vstd::prelude::*;
use std::ops::Add;
use std::ops::Sub;
use std::collections::{BTreeMap, HashMap};
use std::sync::Arc;
//@include env/display_time.rs
//@include env/display_model.rs
impl std::fmt::Display for Segment { fn fmt(&self, _f: &mut std::fmt::Formatter) -> std::fmt::Result { Ok(()) } }
verus! {
//@include env/std_specs.vs
//@include env/seqiter.vs
//@include env/time_types.vs
//@include-trusted env/time_ops.vs
//@include env/model_types.vs
//@include env/broadcast_model.vs
//@include env/model_network_types.vs
//@include env/model_spec.vs
//@include-trusted env/model_fns.vs
//@include env/solution_types.vs
//@include env/tour_spec.vs
//@include env/sums.vs
//@include-trusted env/dist_ops.vs
//@include env/vsum_impls.vs
//@include env/cache_spec.vs
//@include-proved env/cache_lemmas.vs

pub mod tr {
use super::*;
use vstd::prelude::*;
use self::im::HashMap;
use self::im_set::HashSet;
//@include env/im_shim.vs

//@item solution/src/transition.rs type CycleIdx : plain
//@end
//@item solution/src/transition/transition_cycle.rs struct TransitionCycle : plain
//@drop-derive Clone
//@end
impl Clone for TransitionCycle {
    #[verifier::external_body]
    fn clone(&self) -> (r: Self)
        ensures r == *self
    { unimplemented!() }
}
//@item solution/src/transition.rs struct Transition : plain
//@end
//@include env/transition_spec.vs
//@include env/schedule_shim.vs
//@include env/sched_guard_shim.vs
//@include env/remove_segment_shim.vs
// the vocabulary and lemmas of slice `train_formation_update` (in a module of its own: its `max0` has the same
// name as the one of env/transition_spec.vs)
pub mod tfu {
use super::*;
use vstd::prelude::*;
//@include env/train_formation_update_shim.vs
} // mod tfu
use self::tfu::*;

//@item solver/src/local_search/neighborhood/swaps/remove_single_node.rs struct RemoveSingleNode : plain
//@end
//@include env/swaps_sem_shim.vs

// R7a stub: verified in slice remove_segment; contract text copied from there (verbatim)
//@item solution/src/schedule/modifications.rs Schedule::remove_segment : trusted
//@retname r
//@sig
    requires
        self.rs_ok(),
        // the segment's ends are nodes of the network
        self.network.has(segment.start), self.network.has(segment.end),
        // A-counter (magnitude)
        self.shrunk_counter_ok(segment, vehicle_idx),
        // caller-side: the precondition of the formation bookkeeping for the removed nodes (u32 magnitudes of the
        // formations' capacities, the trips' vehicle types are types of the network, and C09 for the
        // unserved-passenger pair: it covers the removed nodes' contribution) -- not derived from rs_ok
        self.removes(segment, vehicle_idx) ==> self.tfu_pre(self.train_formations@, self.unserved_passengers,
            Some(vehicle_idx), None::<Vehicle>, self.removed_nodes(segment, vehicle_idx)),
        // WHOLE-TOUR CASE ONLY: the precondition `listed_ok` of replace_vehicle_by_dummy -- C10 "vehicle … listings are sorted
        // and match the stored tours", as far as that body needs it for the vehicle that goes: its type has an id list
        // (`vehicle_ids_grouped_and_sorted[&vehicle_type_id]`), which is sorted and holds the id (`binary_search(..).unwrap()`).
        // Not derivable from rs_ok (sched_ok says that the concatenation of the grouped id lists holds exactly the vehicles with a
        // tour, once each -- not that a vehicle is in the list of ITS type, nor that the lists are sorted).  (The other precondition of replace_vehicle_by_dummy, tfu_pre for the nodes of the WHOLE tour -- C09 for the
        // unserved-passenger pair --, IS derived: lemma_whole_tour_case, from tfu_pre for the removed nodes above.)
        self.removes(segment, vehicle_idx) && self.whole_tour(segment, vehicle_idx) ==> self.listed_ok(vehicle_idx),
    ensures
        // "# Errors: If the vehicle is not a real vehicle an error is returned."; Tour::remove refuses (C12)
        !self.vehicles@.contains_key(vehicle_idx) ==> r is Err, // @obl C13.remove_segment.err_not_real_vehicle
        self.vehicles@.contains_key(vehicle_idx) && !self.seg_removable(segment, vehicle_idx) ==> r is Err, // @obl C13.remove_segment.err_tour_refuses
        // otherwise the operation succeeds (in both cases: whether the provider keeps a tour or is replaced by a dummy) ...
        self.removes(segment, vehicle_idx) && self.id_left(segment, vehicle_idx) ==> r is Ok, // @obl C13.remove_segment.ok_when_tour_accepts
        // ... except D11: ids are 16 bit and never reused: when all 2^16 have been handed out and the removed trips would need a new
        // dummy tour, the modification is refused (the unfixed code wrapped around and overwrote the tour stored under id 0)
        self.removes(segment, vehicle_idx) && !self.id_left(segment, vehicle_idx) ==> r is Err, // @obl C13.remove_segment.refuses_instead_of_reusing_an_id

        // ---- WHOLE-TOUR CASE: "If the segment contains all non-depot nodes of the tour, the vehicle is replaced by a dummy." --
        // (whole_tour: at most the two depots would be kept.)  The effect is the one of replace_vehicle_by_dummy (its contract,
        // slices/dummy_ops.vs).  C13 "a vehicle left without activities disappears … removed service trips are handed back (… in
        // a new dummy tour)": no vehicle / tour under the id, one occurrence of the id leaves the sorted id list of its type,
        // which stays sorted; ONE new dummy tour under the unused id Dummy(vehicle_counter) holds exactly the service trips of
        // the tour, in order (none if it serves no service trip)
        self.removes(segment, vehicle_idx) && self.whole_tour(segment, vehicle_idx) && r is Ok ==>
            self.vehicle_gone(vehicle_idx, &r->Ok_0), // @obl C13.remove_segment.whole_tour_vehicle_disappears_trips_go_to_one_new_dummy
        self.removes(segment, vehicle_idx) && self.whole_tour(segment, vehicle_idx) && r is Ok && self.needs_dummy(vehicle_idx) ==>
            self.trips_in_new_dummy(vehicle_idx, &r->Ok_0), // @obl C13.remove_segment.whole_tour_vehicle_disappears_trips_go_to_one_new_dummy
        self.removes(segment, vehicle_idx) && self.whole_tour(segment, vehicle_idx) && r is Ok && !self.needs_dummy(vehicle_idx) ==>
            self.no_new_dummy(&r->Ok_0), // @obl C13.remove_segment.whole_tour_vehicle_disappears_trips_go_to_one_new_dummy
        // (the tour is the removed block with at most its two depots around it: it holds a service trip iff the block does, and
        // its service trips are those of the block -- see the clauses for both cases below)
        self.removes(segment, vehicle_idx) && self.whole_tour(segment, vehicle_idx) ==>
            self.needs_dummy(vehicle_idx) == has_service(&self.network, self.removed_nodes(segment, vehicle_idx)),
        // every other vehicle / tour (map equalities: vehicles - v, tours - v), the id lists of the other types, every dummy
        // tour that was there, the network
        self.removes(segment, vehicle_idx) && self.whole_tour(segment, vehicle_idx) && r is Ok ==>
            self.others_untouched(vehicle_idx, &r->Ok_0), // @obl C13.remove_segment.other_tours_untouched
        // C09: costs
        self.removes(segment, vehicle_idx) && self.whole_tour(segment, vehicle_idx) && r is Ok ==>
            r->Ok_0.costs == self.costs - self.tours@[vehicle_idx].costs, // @obl C09.remove_segment.costs_follow_tour

        // ---- PARTIAL CASE (3 or more nodes are kept): the provider keeps a tour -----------------------------------------------
        self.removes(segment, vehicle_idx) && !self.whole_tour(segment, vehicle_idx) && r is Ok ==>
            r->Ok_0.vehicles@ == self.vehicles@ && r->Ok_0.vehicle_ids_grouped_and_sorted@ == self.vehicle_ids_grouped_and_sorted@
            && r->Ok_0.network == self.network, // @obl C13.remove_segment.vehicle_set_unchanged
        self.removes(segment, vehicle_idx) && !self.whole_tour(segment, vehicle_idx) && r is Ok ==>
            self.provider_shrunk(segment, vehicle_idx, r->Ok_0.tours@), // @obl C13.remove_segment.provider_loses_exactly_segment
        self.removes(segment, vehicle_idx) && !self.whole_tour(segment, vehicle_idx) && r is Ok ==>
            self.other_tours_untouched(vehicle_idx, r->Ok_0.tours@), // @obl C13.remove_segment.other_tours_untouched
        // C09: costs
        self.removes(segment, vehicle_idx) && !self.whole_tour(segment, vehicle_idx) && r is Ok ==>
            r->Ok_0.costs == self.costs + r->Ok_0.tours@[vehicle_idx].costs - self.tours@[vehicle_idx].costs, // @obl C09.remove_segment.costs_follow_tour

        // ---- BOTH CASES (the same clause holds whether the provider keeps a tour or not; in the whole-tour case it is derived
        // from the contract of replace_vehicle_by_dummy, which speaks about the nodes of the whole tour: lemma_whole_tour_case) ----
        // "All service trips are added to a new dummy tour."
        self.removes(segment, vehicle_idx) && r is Ok && has_service(&self.network, self.removed_nodes(segment, vehicle_idx)) ==>
            self.trips_handed_back(self.removed_nodes(segment, vehicle_idx), r->Ok_0.dummy_tours@, r->Ok_0.dummy_ids_sorted@), // @obl C13.remove_segment.removed_trips_in_new_dummy_tour
        // the counter advances exactly when a new dummy tour takes the removed service trips
        self.removes(segment, vehicle_idx) && r is Ok && has_service(&self.network, self.removed_nodes(segment, vehicle_idx)) ==>
            r->Ok_0.vehicle_counter == self.vehicle_counter + 1, // @obl C13.remove_segment.fresh_dummy_id
        self.removes(segment, vehicle_idx) && r is Ok && !has_service(&self.network, self.removed_nodes(segment, vehicle_idx)) ==>
            r->Ok_0.dummy_tours@ == self.dummy_tours@ && r->Ok_0.dummy_ids_sorted@ == self.dummy_ids_sorted@
            && r->Ok_0.vehicle_counter == self.vehicle_counter, // @obl C13.remove_segment.no_trip_no_dummy
        // the provider leaves the formation of every removed activity (order kept), no other formation changes
        self.removes(segment, vehicle_idx) && r is Ok ==>
            self.formations_follow(self.removed_nodes(segment, vehicle_idx), vehicle_idx, r->Ok_0.train_formations@), // @obl C13.remove_segment.formations_elsewhere_untouched
        // C10: the ids stay valid (in particular every dummy id is below the counter: the next id is fresh again)
        self.removes(segment, vehicle_idx) && r is Ok ==> r->Ok_0.ids_ok(), // @obl C10.remove_segment.ids_stay_valid
        // C09: unserved passengers, depot usage; C15 / C10: rotation cycles
        self.removes(segment, vehicle_idx) && r is Ok ==>
            self.unserved_follow(self.removed_nodes(segment, vehicle_idx), vehicle_idx, r->Ok_0.unserved_passengers), // @obl C09.remove_segment.unserved_passengers_delta_exact
        self.removes(segment, vehicle_idx) && r is Ok ==>
            usage_exact(r->Ok_0.depot_usage@, &self.network, r->Ok_0.vehicles@, r->Ok_0.tours@), // @obl C09.remove_segment.depot_usage_exact
        self.removes(segment, vehicle_idx) && r is Ok ==>
            self.transitions_follow(vehicle_idx, r->Ok_0.next_period_transitions@, r->Ok_0.maintenance_violation, r->Ok_0.vehicles@, r->Ok_0.tours@), // @obl C10.remove_segment.transitions_follow_new_tours

        // ---- CLOSURE (the induction step of C10 "after any sequence of schedule modifications", C09 / C11 "for every reachable
        // schedule"): the result satisfies the schedule-invariant bundle rs_ok = sched_ok + ids_ok + formations_ok + transitions_ok +
        // usage_exact AGAIN, conjunct by conjunct (sched_ok in its five groups so_network / so_vehicles / so_listing / so_costs_cover /
        // so_costs_small: lemma_sched_ok_split).  Proved from the effect clauses above (rs_effect) in env/remove_segment_shim.vs,
        // block CLOSURE; both cases.  (`r is Ok` implies `removes`: the first two clauses.)
        // network (never modified), and every stored tour is the valid tour of a real vehicle held by a consistent cycle structure
        r is Ok ==> r->Ok_0.network == self.network && r->Ok_0.so_network(), // @obl C10.remove_segment.result_satisfies_the_schedule_invariants_again
        r is Ok ==> r->Ok_0.so_vehicles(), // @obl C10.remove_segment.result_satisfies_the_schedule_invariants_again
        // ids
        r is Ok ==> r->Ok_0.ids_ok(), // @obl C10.remove_segment.result_satisfies_the_schedule_invariants_again
        // formations: every activity has one, it lists the vehicles whose tours contain the node
        r is Ok ==> r->Ok_0.formations_ok(), // @obl C10.remove_segment.result_satisfies_the_schedule_invariants_again
        // depot usage (C09)
        r is Ok ==> usage_exact(r->Ok_0.depot_usage@, &r->Ok_0.network, r->Ok_0.vehicles@, r->Ok_0.tours@), // @obl C10.remove_segment.result_satisfies_the_schedule_invariants_again
        // rotation cycles (C15 / C10 / C09), including the magnitude "fewer than 2^17 vehicles" (no vehicle is added)
        r is Ok ==> r->Ok_0.transitions_ok(), // @obl C10.remove_segment.result_satisfies_the_schedule_invariants_again
        // listings, vehicle by vehicle (NOT a conjunct of rs_ok: the whole-tour-case precondition listed_ok of the next
        // modification): every vehicle that stays and was listed in the sorted id list of its type still is
        r is Ok ==> self.listings_kept(&r->Ok_0), // @obl C10.remove_segment.result_satisfies_the_schedule_invariants_again
        // listings (sched_ok: the listing is duplicate-free and matches the stored tours; at most 2^17 vehicles) and C09 (the costs
        // cover the tours' costs).  NO PREMISE any more: sched_vehicles is DEFINED (env/schedule_shim.vs: the grouped id lists of the
        // network's vehicle types, concatenated in type order), so the listing of the result follows the grouped id lists, whose change
        // is an effect clause -- unchanged in the partial case, one occurrence of the id taken out of the list of the provider's type in
        // the whole-tour case (listing_follows, proved: lemma_listing_follows_holds) --, hence it is exact again (listing_exact:
        // duplicate-free, lists exactly the vehicles that have a tour); the number of vehicles and the cost sum are derived from it
        r is Ok ==> self.listing_follows(segment, vehicle_idx, &r->Ok_0) && listing_exact(&r->Ok_0), // @obl C10.remove_segment.result_satisfies_the_schedule_invariants_again
        r is Ok ==> r->Ok_0.so_listing() && r->Ok_0.so_costs_cover(), // @obl C10.remove_segment.result_satisfies_the_schedule_invariants_again
        // (the former premised forms of these clauses, implied by the two lines above; kept because slices/swaps_sem.vs stubs this
        // function with them -- to be dropped when that stub has been synced)
        r is Ok && listing_exact(&r->Ok_0) ==> r->Ok_0.so_listing() && r->Ok_0.so_costs_cover(), // @obl C10.remove_segment.result_satisfies_the_schedule_invariants_again
        r is Ok && self.listing_follows(segment, vehicle_idx, &r->Ok_0) ==> listing_exact(&r->Ok_0), // @obl C10.remove_segment.result_satisfies_the_schedule_invariants_again
        // magnitude costs <= 2^61: an invariant of the whole-tour case only (the costs shrink by the tour's costs); in the partial
        // case the shrunk tour may cost more than the old one (no triangle inequality is assumed): there the conjunct is the
        // premise `r->Ok_0.costs <= sched_cost_bound()` of the clause below
        // (a sufficient condition in the partial case: the shrunk tour does not cost more than the old one)
        r is Ok && (self.whole_tour(segment, vehicle_idx) || r->Ok_0.tours@[vehicle_idx].costs <= self.tours@[vehicle_idx].costs)
            ==> r->Ok_0.costs <= self.costs && r->Ok_0.so_costs_small(), // @obl C10.remove_segment.result_satisfies_the_schedule_invariants_again
        // the bundle as the next modification requires it (the costs premise: see above; in the whole-tour case it holds)
        r is Ok && r->Ok_0.costs <= sched_cost_bound() ==> r->Ok_0.rs_ok(), // @obl C10.remove_segment.result_satisfies_the_schedule_invariants_again
        r is Ok && self.whole_tour(segment, vehicle_idx) ==> r->Ok_0.rs_ok(), // @obl C10.remove_segment.result_satisfies_the_schedule_invariants_again
        // (former premised form, implied by the line above; kept for the stub of slices/swaps_sem.vs)
        r is Ok && listing_exact(&r->Ok_0) && r->Ok_0.costs <= sched_cost_bound() ==> r->Ok_0.rs_ok(), // @obl C10.remove_segment.result_satisfies_the_schedule_invariants_again
//@end

//@item solver/src/local_search/neighborhood/swaps/remove_single_node.rs traitfn RemoveSingleNode::apply
//@keep-trait
//@retname r
//@sig
    ensures
        // no candidate unless the vehicle is a real vehicle whose tour gives up the node
        !schedule.vehicles@.contains_key(self.vehicle) ==> r is Err, // @obl C11.remove_single_node.no_candidate_for_non_vehicle
        schedule.vehicles@.contains_key(self.vehicle) && !schedule.seg_removable(single(self.node), self.vehicle) ==> r is Err, // @obl C11.remove_single_node.no_candidate_when_tour_refuses
        // a candidate exactly when an id is left for the dummy tour that takes the removed trip
        self.keeps_tour(schedule, r) ==> (r is Ok <==> schedule.id_left(single(self.node), self.vehicle)), // @obl C11.remove_single_node.candidate_iff_id_left
        // C11: the candidate is a valid schedule with exact caches
        self.keeps_tour(schedule, r) && r is Ok ==> self.candidate_ok(schedule, &r->Ok_0), // @obl C11.remove_single_node.candidate_is_valid_schedule_with_exact_caches
        // the removed trip is handed back (C13 / C03: nothing is lost)
        self.keeps_tour(schedule, r) && r is Ok && has_service(&schedule.network, self.removed(schedule)) ==>
            schedule.trips_handed_back(self.removed(schedule), r->Ok_0.dummy_tours@, r->Ok_0.dummy_ids_sorted@), // @obl C11.remove_single_node.removed_trip_handed_back
        self.keeps_tour(schedule, r) && r is Ok && !has_service(&schedule.network, self.removed(schedule)) ==>
            r->Ok_0.dummy_tours@ == schedule.dummy_tours@ && r->Ok_0.dummy_ids_sorted@ == schedule.dummy_ids_sorted@, // @obl C11.remove_single_node.no_trip_no_dummy
//@first
        // (the vocabulary stays folded in the body: the clauses of remove_segment's contract are matched as atoms, and a call
        // with other arguments fails at the tagged postconditions instead of exhausting the resource limit)
        hide(Schedule::rs_ok);
        hide(Schedule::shrunk_counter_ok);
        hide(Schedule::tfu_pre);
        hide(Schedule::seg_removable);
        hide(Schedule::removed_nodes);
        hide(Schedule::kept_nodes);
        hide(Schedule::id_left);
        hide(Schedule::provider_shrunk);
        hide(Schedule::other_tours_untouched);
        hide(Schedule::trips_handed_back);
        hide(Schedule::formations_follow);
        hide(Schedule::unserved_follow);
        hide(Schedule::transitions_follow);
        hide(Schedule::ids_ok);
        hide(usage_exact);
        hide(has_service);
        hide(RemoveSingleNode::candidate_ok);
        proof {
            axiom_sem_req_remove_single_node(self, schedule);
            lemma_sem_pre_remove_single_node(self, schedule);
            // (the body is one tail expression: the step from the callee's clauses to candidate_ok is offered for every schedule)
            assert forall|c: Schedule|
                c.vehicles@ == schedule.vehicles@ && c.vehicle_ids_grouped_and_sorted@ == schedule.vehicle_ids_grouped_and_sorted@ && c.network == schedule.network
                && schedule.provider_shrunk(single(self.node), self.vehicle, c.tours@)
                && schedule.other_tours_untouched(self.vehicle, c.tours@)
                && schedule.formations_follow(schedule.removed_nodes(single(self.node), self.vehicle), self.vehicle, c.train_formations@)
                && c.ids_ok()
                && schedule.unserved_follow(schedule.removed_nodes(single(self.node), self.vehicle), self.vehicle, c.unserved_passengers)
                && c.costs == schedule.costs + c.tours@[self.vehicle].costs - schedule.tours@[self.vehicle].costs
                && usage_exact(c.depot_usage@, &schedule.network, c.vehicles@, c.tours@)
                && schedule.transitions_follow(self.vehicle, c.next_period_transitions@, c.maintenance_violation, c.vehicles@, c.tours@)
                implies #[trigger] self.candidate_ok(schedule, &c) by {
                lemma_candidate_ok(self, schedule, &c);
            }
        }
//@end

} // mod tr
} // verus!
fn main() {}
