// slice `time`: rapid_time's DateTime / Duration arithmetic against the spec vocabulary
use vstd::prelude::*;
use std::ops::Add;
use std::ops::Sub;
//@include env/display_time.rs
verus! {
//@include env/time_types.vs
//@include env/time_ops.vs
} // verus!
fn main() {}
