// slice `tour_ctor`: Tour::position_of (R8 fragment of its binary_search_by comparator), Node::cmp_start_time,
// Tour::new.  Replaces the A-stub "position_of returns the index of the node iff it is in the tour" by
// A-lib (slice::binary_search_by) + A-index (the node stored under key i has index i).
#![feature(allocator_api)]
use vstd::prelude::*;
use std::ops::Add;
use std::ops::Sub;
use std::collections::{BTreeMap, HashMap};
use std::sync::Arc;
use core::cmp::Ordering;
//@include env/display_time.rs
//@include env/display_model.rs
verus! {
//@include env/std_specs.vs
//@include env/seqiter.vs
//@include env/time_types.vs
//@include-trusted env/time_ops.vs
//@include env/model_types.vs
//@include env/broadcast_model.vs
//@include env/model_network_types.vs
//@include env/model_spec.vs
//@include-trusted env/model_fns.vs
//@include env/solution_types.vs
//@include env/tour_spec.vs
//@include env/ord_specs.vs
//@include env/sums.vs
//@include env/dist_ops.vs
//@include env/vsum_impls.vs
//@include env/cache_spec.vs
//@include env/tour_accessors.vs
//@item solution/src/tour.rs Tour::first_node
//@retname r
//@sig
    requires self.nodes@.len() >= 1,
    ensures r == self.nodes@[0],
//@end
//@item solution/src/tour.rs Tour::last_node
//@retname r
//@sig
    requires self.nodes@.len() >= 1,
    ensures r == self.nodes@[self.nodes@.len() - 1],
//@end
//@item model/src/network.rs Network::config
//@retname r
//@sig
    ensures r == self.config,
//@end

/// the order used to keep tours sorted: start time, then end time, then index (from the doc comment of cmp_start_time)
pub open spec fn key_cmp(a: &Node, b: &Node) -> Ordering {
    if !(dt_cmp(a.sp_start_time(), b.sp_start_time()) is Equal) { dt_cmp(a.sp_start_time(), b.sp_start_time()) }
    else if !(dt_cmp(a.sp_end_time(), b.sp_end_time()) is Equal) { dt_cmp(a.sp_end_time(), b.sp_end_time()) }
    else { int_cmp(node_idx_rank(a.sp_idx()), node_idx_rank(b.sp_idx())) }
}
//@item model/src/network/nodes.rs Node::cmp_start_time
//@retname r
//@sig
    ensures r == key_cmp(self, other),
//@end

//@skeleton solution/src/tour.rs Tour::position_of : closure binary_search_by#0 = 3cef10da5e16136c
//@frag solution/src/tour.rs Tour::position_of : closure binary_search_by#0 as frag_position_of_cmp
//@params &self, node: NodeIdx, other: &NodeIdx
//@ret (r: Ordering)
//@sig
    requires self.network.has(node), self.network.has(*other),
    ensures r == key_cmp(&self.network.sp_node(*other), &self.network.sp_node(node)),
//@end

/// A-index: the node stored under key i carries index i (how Network::new fills `nodes`)
pub open spec fn idx_ok(net: &Network) -> bool {
    forall|i: NodeIdx| #[trigger] net.nodes@.contains_key(i) ==> net.nodes@[i].sp_idx() == i
}
pub proof fn lemma_key_cmp_rank(a: &Node, b: &Node)
    requires a.wf(), b.wf(),
    ensures
        key_cmp(a, b) is Equal ==> a.sp_start_time() == b.sp_start_time() && a.sp_end_time() == b.sp_end_time() && a.sp_idx() == b.sp_idx(),
        dt_lt(a.sp_start_time(), b.sp_start_time()) ==> key_cmp(a, b) is Less,
        dt_lt(b.sp_start_time(), a.sp_start_time()) ==> key_cmp(a, b) is Greater,
{
    assert(dt_ok(a.sp_start_time()) && dt_ok(b.sp_start_time()) && dt_ok(a.sp_end_time()) && dt_ok(b.sp_end_time()));
    lemma_dt_cmp_rank(a.sp_start_time(), b.sp_start_time());
    lemma_dt_cmp_rank(a.sp_end_time(), b.sp_end_time());
    if dt_rank(a.sp_start_time()) == dt_rank(b.sp_start_time()) { lemma_dt_rank_injective(a.sp_start_time(), b.sp_start_time()); }
    if dt_rank(a.sp_end_time()) == dt_rank(b.sp_end_time()) { lemma_dt_rank_injective(a.sp_end_time(), b.sp_end_time()); }
}
pub proof fn lemma_dt_rank_injective(a: DateTime, b: DateTime)
    requires dt_ok(a), dt_ok(b), dt_rank(a) == dt_rank(b),
    ensures a == b,
{
    if a is Point && b is Point {
        let p = a->Point_0; let q = b->Point_0;
        assert(p.days == q.days && p.seconds == q.seconds) by (nonlinear_arith)
            requires 86400 * (p.days as int) + (p.seconds as int) == 86400 * (q.days as int) + (q.seconds as int), p.seconds < 86400, q.seconds < 86400;
    }
}
/// the nodes of a well-formed tour are strictly sorted w.r.t. the comparator
pub proof fn lemma_tour_sorted_by_key(t: &Tour, i: int, j: int)
    requires t.wf(), 0 <= i < j < t.len(),
    ensures key_cmp(&t.node_at(i), &t.node_at(j)) is Less,
{
    let net = &t.network;
    lemma_tour_kinds(t, i); lemma_tour_kinds(t, j);
    assert(net.nodes@.contains_key(t.nodes@[i]) && net.nodes@.contains_key(t.nodes@[j]));
    lemma_ends_sorted(net, t.nodes@, i, j);
    lemma_node_start_le_end(net, t.nodes@[i]);
    lemma_node_start_le_end(net, t.nodes@[j]);
    lemma_key_cmp_rank(&t.node_at(i), &t.node_at(j));
    // start(i) <= end(i) <= start(j); strict unless i is a depot: a start depot starts at Earliest, only an
    // end depot starts at Latest and it is the last node
    let a = t.node_at(i); let b = t.node_at(j);
    if a.sp_is_activity() {
        assert(dt_lt(a.sp_start_time(), b.sp_start_time()));
    } else {
        // i is the start depot (position 0 of a real tour); j > 0 is an activity or the end depot
        assert(a is StartDepot);
        assert(!(b is StartDepot));
        assert(dt_lt(a.sp_start_time(), b.sp_start_time()));
    }
}
/// A-lib -> stub contract: what `binary_search_by(cmp)` returns on a slice sorted w.r.t. cmp, transcribed
/// from the std documentation, implies the contract of Tour::position_of used by the other slices
pub open spec fn bsearch_result(t: &Tour, node: NodeIdx, r: Result<usize, usize>) -> bool {
    &&& (r is Ok ==> r->Ok_0 < t.len() && key_cmp(&t.node_at(r->Ok_0 as int), &t.network.sp_node(node)) is Equal)
    &&& (r is Err ==> forall|i: int| 0 <= i < t.len() ==> !(key_cmp(&#[trigger] t.node_at(i), &t.network.sp_node(node)) is Equal))
}
pub proof fn lemma_position_of_contract(t: &Tour, node: NodeIdx, r: Result<usize, usize>)
    requires t.wf(), idx_ok(&t.network), t.network.has(node), bsearch_result(t, node, r),
    ensures
        r is Ok ==> 0 <= r->Ok_0 < t.len() && t.nodes@[r->Ok_0 as int] == node, // @obl C12.position_of.ok_is_index_of_node
        r is Err ==> !t.nodes@.contains(node), // @obl C12.position_of.err_iff_absent
{
    let net = &t.network;
    assert(net.nodes@.contains_key(node));
    if r is Ok {
        let p = r->Ok_0 as int;
        assert(net.has(t.nodes@[p]) && net.nodes@.contains_key(t.nodes@[p]));
        lemma_key_cmp_rank(&t.node_at(p), &net.sp_node(node));
    } else {
        if t.nodes@.contains(node) {
            let i = choose|i: int| 0 <= i < t.nodes@.len() && t.nodes@[i] == node;
            assert(key_cmp(&t.node_at(i), &net.sp_node(node)) is Equal) by {
                lemma_dt_cmp_rank(net.sp_node(node).sp_start_time(), net.sp_node(node).sp_start_time());
                lemma_dt_cmp_rank(net.sp_node(node).sp_end_time(), net.sp_node(node).sp_end_time());
            }
        }
    }
}

//@include-trusted env/tour_new_fns.vs
//@item solution/src/tour.rs Tour::new
//@retname r
//@sig
    requires network.wf(), nodes@.len() >= 1, all_in_net(&network, nodes@), len_ok(nodes@),
    ensures
        // C01: a tour handed out by Tour::new is a valid real tour, and every valid node sequence is accepted
        r is Ok <==> valid_real_tour(&network, nodes@), // @obl C01.tour_new.ok_iff_valid
        r is Ok ==> r->Ok_0.nodes@ == nodes@ && !r->Ok_0.is_dummy && r->Ok_0.network == network && r->Ok_0.caches_ok() && r->Ok_0.wf(),
//@closure-params map_err#0
    (Tour, String)
//@closure map_err#0
    -> (e: String)
//@end
} // verus!
fn main() {}
