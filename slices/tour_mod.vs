// slice `tour_mod`: Tour constructors and modifiers — structure (C01, C10, C12) and caches (C09)
#![feature(allocator_api)]
use vstd::prelude::*;
use std::ops::Add;
use std::ops::Sub;
use std::collections::{BTreeMap, HashMap};
use std::sync::Arc;
//@include env/display_time.rs
//@include env/display_model.rs
verus! {
//@include env/std_specs.vs
//@include env/seqiter.vs
//@include env/time_types.vs
//@include-trusted env/time_ops.vs
//@include env/model_types.vs
//@include env/broadcast_model.vs
//@include env/model_network_types.vs
//@include env/model_spec.vs
//@include-trusted env/model_fns.vs
//@include env/solution_types.vs
//@include env/tour_spec.vs
//@include env/sums.vs
//@include env/dist_ops.vs
//@include env/vsum_impls.vs
//@include env/cache_spec.vs
//@include env/cache_lemmas.vs
//@include env/remove_lemmas.vs
//@include env/insert_lemmas.vs

//@item model/src/network.rs Network::config
//@retname r
//@sig
    ensures r == self.config,
//@end
//@item model/src/network.rs Network::planning_days
//@retname r
//@sig
    ensures r == self.planning_days,
//@end

//@item solution/src/tour.rs Tour::compute_service_distance_of_nodes
//@retname r
//@viter
//@sig
    requires network.wf(), all_in_net(network, nodes@), len_ok(nodes@),
    ensures r == network.spec_service_distance(nodes@), // @obl C09.compute_service_distance
//@first
        proof { lemma_service_distance_sum(network, nodes@); }
//@closure-params 0
    &NodeIdx
//@closure 0
    -> (d: Distance) requires network.has(*n) ensures d == network.sp_node(*n).sp_travel_distance()
//@end

//@item solution/src/tour.rs Tour::compute_useful_duration_of_nodes
//@retname r
//@viter
//@sig
    requires network.wf(), all_in_net(network, nodes@), len_ok(nodes@),
    ensures r == network.spec_useful_duration(nodes@), // @obl C09.compute_useful_duration
//@first
        proof {
            lemma_useful_duration_sum(network, nodes@);
            assert forall|i: int| 0 <= i < nodes@.len() implies network.sp_node(#[trigger] nodes@[i]).wf() by { lemma_node_facts(network, nodes@[i]); }
        }
//@closure-params 0
    &NodeIdx
//@closure 0
    -> (d: Duration) requires network.has(*n), network.sp_node(*n).wf() ensures d == network.sp_node(*n).sp_duration()
//@end

//@item solution/src/tour.rs Tour::compute_dead_head_distance_of_nodes
//@retname r
//@viter
//@sig
    requires network.wf(), all_in_net(network, nodes@), len_ok(nodes@),
    ensures r == network.spec_dead_head_distance(nodes@), // @obl C09.compute_dead_head_distance
//@first
        proof {
            lemma_dead_head_distance_sum(network, nodes@);
            if nodes@.len() == 1 { assert(legs(nodes@, network.f_leg_dist()) =~= Seq::<int>::empty()); }
        }
//@closure-params 0
    (&NodeIdx, &NodeIdx)
//@closure 0
    -> (d: Distance) requires network.wf(), network.has(*p0.0), network.has(*p0.1)
       ensures d == network.locations.sp_distance(network.sp_node(*p0.0).sp_end_location(), network.sp_node(*p0.1).sp_start_location())
//@end

//@item solution/src/tour.rs Tour::compute_visits_maintenance
//@retname r
//@viter
//@sig
    requires network.wf(), all_in_net(network, nodes@),
    ensures r == network.spec_visits_maintenance(nodes@), // @obl C09.compute_visits_maintenance
//@closure-params 0
    &NodeIdx
//@closure 0
    -> (b: bool) requires network.has(*p0) ensures b == (network.sp_node(*p0) is Maintenance)
//@end

//@item solution/src/tour.rs Tour::compute_costs_of_nodes
//@retname r
//@viter
//@sig
    requires network.wf(), all_in_net(network, nodes@), len_ok(nodes@),
    ensures r as int == network.spec_costs(nodes@), // @obl C09.compute_costs
//@first
        proof {
            lemma_cost_sums(network, nodes@);
            lemma_cost_bounds(network, nodes@);
        }
//@closure-params 0
    &NodeIdx
//@closure 0
    -> (c: Cost) requires network.wf(), network.has(*n) ensures c as int == network.node_cost(*n)
//@closure-params 1
    (&NodeIdx, &NodeIdx)
//@closure 1
    -> (c: Cost) requires network.wf(), network.has(*p0.0), network.has(*p0.1) ensures c as int == network.leg_cost(*p0.0, *p0.1)
//@before "network .node(*n) .duration()"
                proof { lemma_node_facts(network, *n); }
//@before "network .dead_head_time_between(*a, *b)"
                    proof { lemma_leg_facts(network, *a, *b); }
//@end

//@item solution/src/tour.rs Tour::new_precomputed
//@retname r
//@sig
    ensures r.nodes == nodes, r.is_dummy == is_dummy, r.visits_maintenance == visits_maintenance,
        r.useful_duration == useful_duration, r.service_distance == service_distance,
        r.dead_head_distance == dead_head_distance, r.costs == costs, r.network == network,
//@end

//@item solution/src/tour.rs Tour::new_computing
//@retname r
//@sig
    requires network.wf(), all_in_net(&network, nodes@), len_ok(nodes@),
    ensures r.nodes@ == nodes@, r.is_dummy == is_dummy, r.network == network,
        r.caches_ok(), // @obl C09.new_computing.caches
//@end

//@include env/tour_new_fns.vs

//@item solution/src/tour.rs Tour::first_node
//@retname r
//@sig
    requires self.nodes@.len() >= 1,
    ensures r == self.nodes@[0],
//@end
//@item solution/src/tour.rs Tour::last_node
//@retname r
//@sig
    requires self.nodes@.len() >= 1,
    ensures r == self.nodes@[self.nodes@.len() - 1],
//@end

//@item solution/src/tour/modifications.rs Tour::replace_start_depot
//@retname r
//@sig
    requires self.wf(), self.caches_ok(), self.network.has(new_start_depot), tour_len_ok(self.nodes@),
    ensures
        r is Ok <==> !self.is_dummy && self.network.sp_node(new_start_depot) is StartDepot,
        // C13/C01: a depot-only operation changes no activity; the tour stays valid
        r is Ok ==> r->Ok_0.nodes@ == self.nodes@.update(0, new_start_depot) && r->Ok_0.is_dummy == self.is_dummy && r->Ok_0.network == self.network,
        r is Ok ==> r->Ok_0.wf(), // @obl C01.replace_start_depot.wf
        r is Ok ==> r->Ok_0.caches_ok(), // @obl C09.replace_start_depot.caches
//@before "let new_dead_head_distance"
        proof {
            let net = &self.network;
            let old = self.nodes@;
            let tail = old.subrange(1, old.len() as int);
            assert(old =~= seq![old[0]] + tail);
            assert(nodes@ =~= seq![new_start_depot] + tail);
            assert(nodes@ =~= old.update(0, new_start_depot));
            lemma_sums_cons(net, old[0], tail);
            lemma_sums_cons(net, new_start_depot, tail);
            lemma_depot_zero(net, old[0]);
            lemma_depot_zero(net, new_start_depot);
            lemma_vm_update_depot(net, old, 0, new_start_depot);
            assert(net.has(old[0]) && net.has(old[1]));
            lemma_leg_facts(net, old[0], old[1]);
            lemma_leg_facts(net, new_start_depot, old[1]);
            assert forall|i: int| 0 <= i < tail.len() implies #[trigger] net.has(tail[i]) by { assert(net.has(old[i + 1])); }
            lemma_cost_bounds(net, tail);
            lemma_cost_bounds(net, old);
            lemma_dhd_bounds(net, tail);
            assert forall|i: int| 0 <= i < nodes@.len() implies #[trigger] net.has(nodes@[i]) by { if i > 0 { assert(net.has(old[i])); } }
            // the new tour is connected: a start depot reaches every activity
            lemma_tour_kinds(self, 1);
            assert forall|i: int| 0 <= i < nodes@.len() - 1 implies #[trigger] net.reach(nodes@[i], nodes@[i + 1]) by {
                if i > 0 { assert(net.reach(old[i], old[i + 1])); }
            }
            assert(nodes@.subrange(1, nodes@.len() - 1) =~= old.subrange(1, old.len() - 1));
        }
//@end

//@item solution/src/tour/modifications.rs Tour::replace_end_depot
//@retname r
//@sig
    requires self.wf(), self.caches_ok(), self.network.has(new_end_depot), tour_len_ok(self.nodes@),
    ensures
        r is Ok <==> !self.is_dummy && self.network.sp_node(new_end_depot) is EndDepot,
        r is Ok ==> r->Ok_0.nodes@ == self.nodes@.update(self.len() - 1, new_end_depot) && r->Ok_0.is_dummy == self.is_dummy && r->Ok_0.network == self.network, // @obl C05.replace_end_depot.only_end_depot_changes
        r is Ok ==> r->Ok_0.wf(), // @obl C01.replace_end_depot.wf
        r is Ok ==> r->Ok_0.caches_ok(), // @obl C09.replace_end_depot.caches
//@before "let new_dead_head_distance"
        proof {
            let net = &self.network;
            let old = self.nodes@;
            let n = old.len() as int;
            let head = old.subrange(0, n - 1);
            assert(old =~= head + seq![old[n - 1]]);
            assert(nodes@ =~= head + seq![new_end_depot]);
            assert(nodes@ =~= old.update(n - 1, new_end_depot));
            lemma_sums_snoc(net, head, old[n - 1]);
            lemma_sums_snoc(net, head, new_end_depot);
            lemma_tour_kinds(self, n - 1);
            lemma_tour_kinds(self, n - 2);
            lemma_depot_zero(net, old[n - 1]);
            lemma_depot_zero(net, new_end_depot);
            lemma_vm_update_depot(net, old, n - 1, new_end_depot);
            assert(net.has(old[n - 1]) && net.has(old[n - 2]));
            assert(head.last() == old[n - 2]);
            lemma_leg_facts(net, old[n - 2], old[n - 1]);
            lemma_leg_facts(net, old[n - 2], new_end_depot);
            assert forall|i: int| 0 <= i < head.len() implies #[trigger] net.has(head[i]) by { assert(net.has(old[i])); }
            lemma_cost_bounds(net, head);
            lemma_cost_bounds(net, old);
            lemma_dhd_bounds(net, head);
            assert forall|i: int| 0 <= i < nodes@.len() implies #[trigger] net.has(nodes@[i]) by { if i < n - 1 { assert(net.has(old[i])); } }
            assert forall|i: int| 0 <= i < nodes@.len() - 1 implies #[trigger] net.reach(nodes@[i], nodes@[i + 1]) by {
                if i < n - 2 { assert(net.reach(old[i], old[i + 1])); }
            }
            assert(nodes@.subrange(1, nodes@.len() - 1) =~= old.subrange(1, old.len() - 1));
        }
//@end

// ---- private cost / distance helpers of tour/modifications.rs ------------------------------------------
//@item solution/src/tour/modifications.rs Tour::dead_head_and_idle_costs_after_node_unchecked
//@retname r
//@sig
    requires self.wf(), pos + 1 < self.len(), tour_len_ok(self.nodes@),
    ensures r as int == self.network.leg_cost(self.nodes@[pos as int], self.nodes@[pos + 1]),
//@first
        proof {
            assert(self.network.has(self.nodes@[pos as int]) && self.network.has(self.nodes@[pos + 1]));
            lemma_leg_facts(&self.network, self.nodes@[pos as int], self.nodes@[pos + 1]);
        }
//@end
//@item solution/src/tour/modifications.rs Tour::dead_head_and_idle_costs_after_node
//@retname r
//@sig
    requires self.wf(), tour_len_ok(self.nodes@),
    ensures r as int == (if pos + 1 < self.len() { self.network.leg_cost(self.nodes@[pos as int], self.nodes@[pos + 1]) } else { 0 }),
//@end
//@item solution/src/tour/modifications.rs Tour::dead_head_and_idle_costs_before_node
//@retname r
//@sig
    requires self.wf(), tour_len_ok(self.nodes@),
    ensures r as int == (if 0 < pos < self.len() { self.network.leg_cost(self.nodes@[pos - 1], self.nodes@[pos as int]) } else { 0 }),
//@end
//@item solution/src/tour/modifications.rs Tour::dead_head_and_idle_costs_between_two_nodes
//@retname r
//@sig
    requires self.wf(), self.network.has(node1), self.network.has(node2),
    ensures r as int == self.network.leg_cost(node1, node2),
//@first
        proof { lemma_leg_facts(&self.network, node1, node2); }
//@end
//@item solution/src/tour/modifications.rs Tour::service_and_maintenance_costs_by_id
//@retname r
//@sig
    requires self.wf(), self.network.has(node),
    ensures r as int == self.network.node_cost(node),
//@first
        proof { lemma_node_facts(&self.network, node); }
//@end
//@item solution/src/tour/modifications.rs Tour::service_and_maintenance_costs_by_pos
//@retname r
//@sig
    requires self.wf(), pos < self.len(),
    ensures r as int == self.network.node_cost(self.nodes@[pos as int]),
//@first
        proof { assert(self.network.has(self.nodes@[pos as int])); }
//@end

//@item solution/src/tour/modifications.rs Tour::dead_head_distance_of_segment
//@retname r
//@viter
//@sig
    requires self.wf(), start_pos <= end_pos <= self.len(), tour_len_ok(self.nodes@),
    ensures r == ddec(mid_p(self.pre(start_pos as int), self.mid(start_pos as int, end_pos as int), self.suf(end_pos as int), self.network.f_leg_dist())),
        dsmall(mid_p(self.pre(start_pos as int), self.mid(start_pos as int, end_pos as int), self.suf(end_pos as int), self.network.f_leg_dist())),
//@first
        proof {
            lemma_cuts(self, start_pos as int, end_pos as int);
            let net = &self.network;
            let m = self.mid(start_pos as int, end_pos as int);
            assert forall|i: int| 0 <= i < m.len() implies #[trigger] net.has(m[i]) by { assert(net.has(self.nodes@[start_pos + i])); }
            lemma_dead_head_distance_sum(net, m);
            lemma_dhd_bounds(net, m);
            if start_pos > 0 && start_pos < self.len() {
                assert(net.has(self.nodes@[start_pos - 1]) && net.has(self.nodes@[start_pos as int]));
                lemma_leg_facts(net, self.nodes@[start_pos - 1], self.nodes@[start_pos as int]);
            }
            if end_pos > 0 && end_pos < self.len() {
                assert(net.has(self.nodes@[end_pos - 1]) && net.has(self.nodes@[end_pos as int]));
                lemma_leg_facts(net, self.nodes@[end_pos - 1], self.nodes@[end_pos as int]);
            }
            let jp = junction(self.pre(start_pos as int), m, net.f_leg_dist());
            let js = junction(m, self.suf(end_pos as int), net.f_leg_dist());
            lemma_dist_add_enc(jp, psum(m, net.f_leg_dist()));
            lemma_dist_add_enc(jp + psum(m, net.f_leg_dist()), js);
        }
//@closure-params 0
    (usize, usize)
//@closure 0
    -> (d: Distance) requires self.wf(), p0.0 < self.len(), p0.1 < self.len()
       ensures d == self.network.locations.sp_distance(self.network.sp_node(self.nodes@[p0.0 as int]).sp_end_location(), self.network.sp_node(self.nodes@[p0.1 as int]).sp_start_location())
//@end

//@item solution/src/tour/modifications.rs Tour::dead_head_distance_of_new_nodes
//@retname r
//@viter
//@sig
    requires self.wf(), start_pos <= end_pos <= self.len(), tour_len_ok(self.nodes@),
        new_nodes@.len() >= 1, all_in_net(&self.network, new_nodes@), tour_len_ok(new_nodes@),
    ensures r == ddec(mid_p(self.pre(start_pos as int), new_nodes@, self.suf(end_pos as int), self.network.f_leg_dist())),
        dsmall(mid_p(self.pre(start_pos as int), new_nodes@, self.suf(end_pos as int), self.network.f_leg_dist())),
//@first
        proof {
            lemma_cuts(self, start_pos as int, end_pos as int);
            let net = &self.network;
            let m = new_nodes@;
            lemma_dead_head_distance_sum(net, m);
            lemma_dhd_bounds(net, m);
            assert(net.has(m[0]) && net.has(m[m.len() - 1]));
            if start_pos > 0 {
                assert(net.has(self.nodes@[start_pos - 1]));
                lemma_leg_facts(net, self.nodes@[start_pos - 1], m[0]);
            }
            if end_pos < self.len() {
                assert(net.has(self.nodes@[end_pos as int]));
                lemma_leg_facts(net, m[m.len() - 1], self.nodes@[end_pos as int]);
            }
            let jp = junction(self.pre(start_pos as int), m, net.f_leg_dist());
            let js = junction(m, self.suf(end_pos as int), net.f_leg_dist());
            lemma_dist_add_enc(jp, psum(m, net.f_leg_dist()));
            lemma_dist_add_enc(jp + psum(m, net.f_leg_dist()), js);
        }
//@closure-params 0
    (&NodeIdx, &NodeIdx)
//@closure 0
    -> (d: Distance) requires self.wf(), self.network.has(*p0.0), self.network.has(*p0.1)
       ensures d == self.network.locations.sp_distance(self.network.sp_node(*p0.0).sp_end_location(), self.network.sp_node(*p0.1).sp_start_location())
//@end

//@item solution/src/tour/modifications.rs Tour::costs_of_segment
//@retname r
//@viter
//@sig
    requires self.wf(), start_pos <= end_pos <= self.len(), tour_len_ok(self.nodes@),
    ensures r as int == mid_p(self.pre(start_pos as int), self.mid(start_pos as int, end_pos as int), self.suf(end_pos as int), self.network.f_leg_cost())
            + nsum(self.mid(start_pos as int, end_pos as int), self.network.f_node_cost()),
//@first
        proof {
            lemma_cuts(self, start_pos as int, end_pos as int);
            let net = &self.network;
            let m = self.mid(start_pos as int, end_pos as int);
            assert forall|i: int| 0 <= i < m.len() implies #[trigger] net.has(m[i]) by { assert(net.has(self.nodes@[start_pos + i])); }
            lemma_cost_sums(net, m);
            lemma_cost_bounds(net, m);
            if start_pos > 0 && start_pos < self.len() {
                assert(net.has(self.nodes@[start_pos - 1]) && net.has(self.nodes@[start_pos as int]));
                lemma_leg_facts(net, self.nodes@[start_pos - 1], self.nodes@[start_pos as int]);
            }
            if end_pos > 0 && end_pos < self.len() {
                assert(net.has(self.nodes@[end_pos - 1]) && net.has(self.nodes@[end_pos as int]));
                lemma_leg_facts(net, self.nodes@[end_pos - 1], self.nodes@[end_pos as int]);
            }
            if m.len() == 0 { assert(m.map_values(net.f_node_cost()) =~= Seq::<int>::empty()); }
        }
//@closure-params 0
    usize
//@closure 0
    -> (c: Cost) requires self.wf(), pos + 1 < self.len(), tour_len_ok(self.nodes@) ensures c as int == self.network.leg_cost(self.nodes@[pos as int], self.nodes@[pos + 1])
//@closure-params 1
    usize
//@closure 1
    -> (c: Cost) requires self.wf(), i < self.len() ensures c as int == self.network.node_cost(self.nodes@[i as int])
//@end

//@item solution/src/tour/modifications.rs Tour::costs_of_new_nodes
//@retname r
//@viter
//@sig
    requires self.wf(), start_pos <= end_pos <= self.len(), tour_len_ok(self.nodes@),
        new_nodes@.len() >= 1, all_in_net(&self.network, new_nodes@), tour_len_ok(new_nodes@),
    ensures r as int == mid_p(self.pre(start_pos as int), new_nodes@, self.suf(end_pos as int), self.network.f_leg_cost())
            + nsum(new_nodes@, self.network.f_node_cost()),
//@first
        proof {
            lemma_cuts(self, start_pos as int, end_pos as int);
            let net = &self.network;
            let m = new_nodes@;
            lemma_cost_sums(net, m);
            lemma_cost_bounds(net, m);
            assert(net.has(m[0]) && net.has(m[m.len() - 1]));
            if start_pos > 0 {
                assert(net.has(self.nodes@[start_pos - 1]));
                lemma_leg_facts(net, self.nodes@[start_pos - 1], m[0]);
            }
            if end_pos < self.len() {
                assert(net.has(self.nodes@[end_pos as int]));
                lemma_leg_facts(net, m[m.len() - 1], self.nodes@[end_pos as int]);
            }
        }
//@closure-params 0
    (&NodeIdx, &NodeIdx)
//@closure 0
    -> (c: Cost) requires self.wf(), self.network.has(*p0.0), self.network.has(*p0.1) ensures c as int == self.network.leg_cost(*p0.0, *p0.1)
//@closure-params 1
    &NodeIdx
//@closure 1
    -> (c: Cost) requires self.wf(), self.network.has(*n) ensures c as int == self.network.node_cost(*n)
//@end

//@include env/tour_stubs.vs
//@include-trusted env/path_fns.vs
//@include-trusted env/tour_pos_fns.vs
//@item solution/src/tour.rs Tour::is_dummy
//@retname r
//@sig
    ensures r == self.is_dummy,
//@end

//@item solution/src/tour/modifications.rs Tour::remove
//@retname r
//@viter
//@sig
    requires self.wf(), self.caches_ok(), self.network.has(segment.start), self.network.has(segment.end), tour_len_ok(self.nodes@),
    ensures
        // C12: "Removing a segment yields the tour without exactly those nodes, is refused when it
        // would strand a depot or leave an unconnectable gap"
        r is Ok <==> self.has_node(segment.start) && self.has_node(segment.end)
            && self.removable(self.index_of(segment.start), self.index_of(segment.end)), // @obl C12.remove.refusal
        r is Ok ==> r->Ok_0.1.node_sequence@ == self.mid(self.index_of(segment.start), self.index_of(segment.end) + 1)
            && (r->Ok_0.0 is Some ==> r->Ok_0.0->Some_0.nodes@ == self.rest(self.index_of(segment.start), self.index_of(segment.end) + 1)), // @obl C12.remove.exactly_those_nodes
        r is Ok && r->Ok_0.0 is Some ==> r->Ok_0.0->Some_0.is_dummy == self.is_dummy && r->Ok_0.0->Some_0.network == self.network
            && r->Ok_0.0->Some_0.wf(), // @obl C01.remove.wf
        r is Ok && r->Ok_0.0 is Some ==> r->Ok_0.0->Some_0.caches_ok(), // @obl C09.remove.caches
        // C13: "a vehicle left without activities disappears": no tour is returned exactly when nothing (dummy) resp.
        // nothing but the two depots (real vehicle) would be left
        r is Ok ==> (r->Ok_0.0 is None <==> (if self.is_dummy { self.rest(self.index_of(segment.start), self.index_of(segment.end) + 1).len() == 0 }
            else { self.rest(self.index_of(segment.start), self.index_of(segment.end) + 1).len() <= 2 })), // @obl C13.remove.no_tour_iff_no_activity_left
        r is Ok ==> r->Ok_0.1.network == self.network,
//@closure-params 0
    usize
//@closure 0
    -> (d: Duration) requires i < self.len(), self.network.has(self.nodes@[i as int]), self.network.sp_node(self.nodes@[i as int]).wf() ensures d == self.network.sp_node(self.nodes@[i as int]).sp_duration()
//@closure-params 1
    usize
//@closure 1
    -> (d: Distance) requires i < self.len(), self.network.has(self.nodes@[i as int]) ensures d == self.network.sp_node(self.nodes@[i as int]).sp_travel_distance()
//@closure-params? 2
    &NodeIdx
//@closure? 2
    -> (b: bool) requires self.network.has(*n) ensures b == (self.network.sp_node(*n) is Maintenance)
//@closure-params? 3
    &NodeIdx
//@closure? 3
    -> (b: bool) requires self.network.has(*n) ensures b == (self.network.sp_node(*n) is Maintenance)
//@first
        proof {
            if !self.nodes@.contains(segment.start) { lemma_not_has_node(self, segment.start); }
            if !self.nodes@.contains(segment.end) { lemma_not_has_node(self, segment.end); }
        }
//@before "let pos_seg_end"
        proof { lemma_index_of(self, segment.start, pos_seg_start as int); }
//@before "self.check_if_sequence_is_removable"
        proof { lemma_index_of(self, segment.end, pos_seg_end as int); }
//@before "let new_useful_duration"
        broadcast use axiom_into_items_seqiter;
        proof {
            let s = pos_seg_start as int; let e1 = pos_seg_end + 1;
            lemma_remove_sums_visible(self, s, e1);
            lemma_remove_useful(self, s, e1);
        }
//@before "let new_service_distance"
        assert(new_useful_duration == self.network.spec_useful_duration(self.rest(pos_seg_start as int, pos_seg_end + 1)));
        proof { lemma_remove_service(self, pos_seg_start as int, pos_seg_end + 1); }
//@before "let new_dead_head_distance"
        assert(new_service_distance == self.network.spec_service_distance(self.rest(pos_seg_start as int, pos_seg_end + 1)));
        proof { lemma_remove_dhd(self, pos_seg_start as int, pos_seg_end + 1); }
//@before "let new_costs"
        assert(self.is_dummy || (pos_seg_start >= 1 && pos_seg_end + 1 <= self.len() - 1) ==>
            new_dead_head_distance == self.network.spec_dead_head_distance(self.rest(pos_seg_start as int, pos_seg_end + 1)));
        proof { lemma_remove_costs(self, pos_seg_start as int, pos_seg_end + 1); }
//@before "let mut tour_nodes"
        assert(new_costs as int == self.network.spec_costs(self.rest(pos_seg_start as int, pos_seg_end + 1)));
//@before "if tour_nodes.is_empty()"
        proof {
            let s = pos_seg_start as int; let e1 = pos_seg_end + 1;
            assert(tour_nodes@ == self.rest(s, e1) && removed_nodes@ == self.mid(s, e1)) by {
                reveal(Tour::rest); reveal(Tour::mid);
                assert(tour_nodes@ =~= self.nodes@.subrange(0, s) + self.nodes@.subrange(e1, self.len()));
                assert(removed_nodes@ =~= self.nodes@.subrange(s, e1));
            }
            lemma_remove_block(self, s, pos_seg_end as int);
            lemma_cuts(self, s, e1);
        }
//@before "let visits_maintenance"
        proof {
            lemma_remove_vm(self, pos_seg_start as int, pos_seg_end + 1);
            lemma_remove_wf(self, tour_nodes@, pos_seg_start as int, pos_seg_end as int);
        }
//@before "Ok(( Some(Tour::new_precomputed("
        proof {
            let s = pos_seg_start as int; let e1 = pos_seg_end + 1;
            assert(visits_maintenance == self.network.spec_visits_maintenance(self.rest(s, e1)));
        }
//@attr verifier::rlimit(100)
//@end

// ---- Path accessors ------------------------------------------------------------------------------
//@item solution/src/path.rs Path::first
//@retname r
//@sig
    requires self.node_sequence@.len() >= 1,
    ensures r == self.node_sequence@[0],
//@end
//@item solution/src/path.rs Path::last
//@retname r
//@sig
    requires self.node_sequence@.len() >= 1,
    ensures r == self.node_sequence@[self.node_sequence@.len() - 1],
//@end
//@item solution/src/path.rs Path::consume
//@retname r
//@sig
    ensures r@ == self.node_sequence@,
//@end
//@item solution/src/path.rs Path::iter : trusted
//@ret SeqIter<NodeIdx>
//@sig
    ensures r@ == self.node_sequence@,
//@end
//@item solution/src/path.rs Path::drop_first
//@retname r
//@sig
    requires self.network.wf(), self.node_sequence@.len() >= 1, all_in_net(&self.network, self.node_sequence@),
    ensures
        all_depots(&self.network, self.node_sequence@.subrange(1, self.node_sequence@.len() as int)) ==> r is None,
        !all_depots(&self.network, self.node_sequence@.subrange(1, self.node_sequence@.len() as int)) ==> r is Some
            && r.unwrap().node_sequence@ == self.node_sequence@.subrange(1, self.node_sequence@.len() as int) && r.unwrap().network == self.network,
//@first
        proof {
            let t = self.node_sequence@.subrange(1, self.node_sequence@.len() as int);
            assert forall|i: int| 0 <= i < t.len() implies #[trigger] self.network.has(t[i]) by { assert(self.network.has(self.node_sequence@[i + 1])); }
        }
//@end
//@item solution/src/path.rs Path::drop_last
//@retname r
//@sig
    requires self.network.wf(), self.node_sequence@.len() >= 1, all_in_net(&self.network, self.node_sequence@),
    ensures
        all_depots(&self.network, self.node_sequence@.subrange(0, self.node_sequence@.len() - 1)) ==> r is None,
        !all_depots(&self.network, self.node_sequence@.subrange(0, self.node_sequence@.len() - 1)) ==> r is Some
            && r.unwrap().node_sequence@ == self.node_sequence@.subrange(0, self.node_sequence@.len() - 1) && r.unwrap().network == self.network,
//@first
        proof {
            let t = self.node_sequence@.subrange(0, self.node_sequence@.len() - 1);
            assert forall|i: int| 0 <= i < t.len() implies #[trigger] self.network.has(t[i]) by { assert(self.network.has(self.node_sequence@[i])); }
        }
//@end

//@item solution/src/tour/modifications.rs Tour::insert_path
//@retname r
//@viter
//@viter-skip path
//@sig
    requires self.wf(), self.caches_ok(), tour_len_ok(self.nodes@),
        path.network == self.network, tour_len_ok(path.node_sequence@),
        // A-path: the inserted path is a path of the network (connected) with an activity
        path_shape(&self.network, path.node_sequence@),
    ensures ({
        let n = eff_path(self, path.node_sequence@);
        exists|s: int, e: int| {
            &&& ins_positions(self, n, s, e) && 0 <= s <= e <= self.len()
            // C12: longest prefix whose last node reaches the path + the whole path + longest suffix the path reaches
            &&& r.0.nodes@ == #[trigger] self.spliced(s, e, n) // @obl C12.insert_path.prefix_path_suffix
            // C12: reports exactly the dropped nodes
            &&& (all_depots(&self.network, self.mid(s, e)) ==> r.1 is None)
            &&& (!all_depots(&self.network, self.mid(s, e)) ==> r.1 is Some && r.1.unwrap().node_sequence@ == self.mid(s, e)) // @obl C12.insert_path.reports_exactly_dropped
        }
    }),
        r.0.is_dummy == self.is_dummy && r.0.network == self.network,
        r.0.wf(), // @obl C01.insert_path.wf
        r.0.caches_ok(), // @obl C09.insert_path.caches
//@closure-params 0
    NodeIdx
//@closure 0
    -> (b: bool) requires self.network.has(n) ensures b == (self.network.sp_node(n) is Maintenance)
//@closure-params 1
    usize
//@closure 1
    -> (d: Duration) requires i < self.len(), self.network.has(self.nodes@[i as int]), self.network.sp_node(self.nodes@[i as int]).wf() ensures d == self.network.sp_node(self.nodes@[i as int]).sp_duration()
//@closure-params 2
    &NodeIdx
//@closure 2
    -> (d: Duration) requires self.network.has(*n), self.network.sp_node(*n).wf() ensures d == self.network.sp_node(*n).sp_duration()
//@closure-params 3
    usize
//@closure 3
    -> (d: Distance) requires i < self.len(), self.network.has(self.nodes@[i as int]) ensures d == self.network.sp_node(self.nodes@[i as int]).sp_travel_distance()
//@closure-params 4
    &NodeIdx
//@closure 4
    -> (d: Distance) requires self.network.has(*n) ensures d == self.network.sp_node(*n).sp_travel_distance()
//@closure-params? 5
    &NodeIdx
//@closure? 5
    -> (b: bool) requires self.network.has(*n) ensures b == (self.network.sp_node(*n) is Maintenance)
//@closure-params? 6
    &NodeIdx
//@closure? 6
    -> (b: bool) requires self.network.has(*n) ensures b == (self.network.sp_node(*n) is Maintenance)
//@first
        let ghost p0 = path.node_sequence@;
        proof { lemma_strip(&self.network, p0); }
//@before "let new_path_contains_maintenace"
        assert(path.node_sequence@ == eff_path(self, p0) && path.network == self.network);
        proof {
            assert(path_shape(&self.network, path.node_sequence@));
            assert(self.is_dummy ==> no_depot(&self.network, path.node_sequence@));
            assert(path.node_sequence@.len() <= p0.len());
        }
//@before "let segment"
        let ghost n = new_nodes@;
//@before "let new_useful_duration"
        proof {
            let s = start_pos as int; let e = end_pos as int;
            lemma_insert_wf(self, n, s, e);
            lemma_remove_sums_visible(self, s, e);
            lemma_useful_duration_sum(&self.network, n);
            lemma_service_distance_sum(&self.network, n);
            assert forall|i: int| 0 <= i < n.len() implies self.network.has(#[trigger] n[i]) && self.network.sp_node(n[i]).wf() by {
                assert(self.network.has(n[i])); lemma_node_facts(&self.network, n[i]);
            }
            lemma_insert_useful(self, s, e, n);
        }
//@before "let new_service_distance"
        assert(new_useful_duration == self.network.spec_useful_duration(self.spliced(start_pos as int, end_pos as int, n)));
        proof { lemma_insert_service(self, start_pos as int, end_pos as int, n); }
//@before "let new_dead_head_distance = self"
        assert(new_service_distance == self.network.spec_service_distance(self.spliced(start_pos as int, end_pos as int, n)));
        proof { lemma_insert_dhd(self, start_pos as int, end_pos as int, n); }
//@before "let new_costs"
        assert(self.dead_head_distance is Distance ==> new_dead_head_distance == self.network.spec_dead_head_distance(self.spliced(start_pos as int, end_pos as int, n)));
        proof { lemma_insert_costs(self, start_pos as int, end_pos as int, n); }
//@before "let mut new_tour_nodes"
        assert(new_costs as int == self.network.spec_costs(self.spliced(start_pos as int, end_pos as int, n)));
//@before "let new_dead_head_distance = if"
        proof {
            let s = start_pos as int; let e = end_pos as int;
            assert(new_tour_nodes@ == self.spliced(s, e, n) && removed_nodes@ == self.mid(s, e)) by {
                reveal(Tour::spliced); reveal(Tour::mid);
                assert(new_tour_nodes@ =~= self.nodes@.subrange(0, s) + n + self.nodes@.subrange(e, self.len()));
                assert(removed_nodes@ =~= self.nodes@.subrange(s, e));
            }
            lemma_cuts(self, s, e);
            lemma_spliced(self, s, e, n);
        }
//@before "let visits_maintenance"
        assert(new_dead_head_distance == self.network.spec_dead_head_distance(self.spliced(start_pos as int, end_pos as int, n)));
        proof { lemma_insert_vm(self, start_pos as int, end_pos as int, n); }
//@before "( Tour::new_precomputed("
        assert(visits_maintenance == self.network.spec_visits_maintenance(self.spliced(start_pos as int, end_pos as int, n)));
//@attr verifier::rlimit(100)
//@end
} // verus!
fn main() {}
