// slice `tour_pos`: position logic of Tour (C12, C01): binary searches, insert positions,
// removability, conflict, sub_path
use vstd::prelude::*;
use std::ops::Add;
use std::ops::Sub;
use std::collections::{BTreeMap, HashMap};
use std::sync::Arc;
//@include env/display_time.rs
//@include env/display_model.rs
verus! {
//@include env/std_specs.vs
//@include env/time_types.vs
//@include-trusted env/time_ops.vs
//@include env/model_types.vs
//@include env/broadcast_model.vs
//@include env/model_network_types.vs
//@include env/model_spec.vs
//@include-trusted env/model_fns.vs
//@include env/solution_types.vs
//@include env/tour_spec.vs


//@include env/tour_stubs.vs
//@include-trusted env/path_fns.vs
//@include env/tour_pos_fns.vs
} // verus!
fn main() {}
