// slice `train_formation_update`: Schedule::update_train_formation (solution/src/schedule/modifications.rs), the
// train-formation / unserved-passenger bookkeeping of every schedule modification, verbatim body.
//   C13  "Each schedule modification has its documented effect and nothing else … formations elsewhere … stay
//        untouched.  In a formation a replacing vehicle takes the replaced one's position, additions go to the
//        tail and removals keep the order."
//   C02 / C10  "formation, track and depot limits hold" (a formation only grows strictly below the node's limit)
//   C09  "cached aggregates equal recomputation" (the unserved-passengers pair changes by exactly
//        - Σ unserved(old formation) + Σ unserved(new formation) over the moved service trips)
// Contract on Ok (vocabulary in env/train_formation_update_shim.vs; tf0 / tf1 = table before / after):
//   (a) formations_elsewhere_untouched: tf1.dom() == tf0.dom(), every node that is not a moved non-depot node keeps
//       its formation;
//   (b) moved_get_replacement: every moved non-depot node n has tf1[n].formation@ == repl_seq(tf0[n].formation@, ..)
//       and repl_ok(tf0[n].formation@, .., n) -- repl_seq / repl_ok are, case by case (grows / replaces / shrinks /
//       none, the predicates of slices/admission.vs), the result and the success condition that the contract of
//       vehicle_replacement_in_train_formation states: push at the tail / update at first_pos / remove at first_pos /
//       unchanged;  grown_within_limits: after growth the formation is within sp_node_limit;
//   (c) the pair is old - un_sum(.., false, c) + un_sum(.., true, c), component-wise (un_sum = Σ over the moved nodes of
//       unserved_at: max(0, demand - capacity) resp. max(0, seated - seats) for service trips, 0 otherwise);
//   (d) Ok <==> all_ok: the replacement succeeds for every moved non-depot node (proved as an equivalence).
//   lemma_implies_remove_segment_stub (shim): (a), (b), (d) imply the postcondition of the stub of this function in
//   slices/remove_segment.vs (receiver None, real provider).
//
// ASSUMPTIONS introduced / used by this slice:
//   A-stub   Schedule::vehicle_replacement_in_train_formation, Schedule::compute_unserved_passengers_at_node: trusted
//            stubs with exactly the contract text under which slices/admission.vs verifies their bodies
//   A-iter / R12  the parameter `moved_nodes: impl Iterator<Item = NodeIdx>` is retyped to the shim iterator
//            SeqIter<NodeIdx> (env/seqiter.vs: `next` yields the items of the view in order): the caller's
//            iterator is its finite sequence of items
//   A-im     im::HashMap {get, insert} (env/im_shim.vs, external_body shims)
//   A-derive Vehicle::clone is structural (external_body, text as in slices/admission.vs); Option<Vehicle>::clone is
//            the specification vstd ships for Option::clone
//   plus the shared env: env/model_fns.vs included trusted (Network::node, Node::is_depot, Node::is_service: verified
//   in slice `network`), env/broadcast_model.vs (key model of the index types).  env/train_formation_update_shim.vs
//   contains only open spec functions and proved lemmas (no axiom, no external_body).
//   vx rewrites applied to the body: R11 (`if .. { continue; }` + rest -> if/else), R12 (parameter type), R2 (pub).
//
// PRECONDITIONS the caller must guarantee (Schedule::tfu_pre; everything only up to the first failing replacement):
//   * every moved node is a node of the network; every moved non-depot node has a formation in the table
//     (`get(&node).unwrap()`, the panic of vehicle_replacement_in_train_formation), of at most u32::MAX vehicles;
//     a moved service trip has a vehicle type of the network (Network::is_trip);
//   * for a moved service trip the capacity and seats sums of its old and of its new formation fit into u32
//     (TrainFormation::capacity / seats);
//   * every node is moved once (`no_duplicates`) -- otherwise (b) / (c) would have to talk about repeated replacement;
//   * the u32 arithmetic `unserved.c -= before.c; … unserved.c += after.c` neither underflows nor overflows
//     (arith_ok_at, per prefix of the moved nodes; this is the weakest condition).  lemma_arith_from_totals gives the
//     form a caller gets from C09: old value >= Σ old contributions of the moved nodes (the pair is the sum over ALL
//     service trips and every node is moved once) and old value + Σ new contributions <= u32::MAX.
//
// NOT covered: on Err nothing is claimed about `train_formations` / `unserved_passengers` (the callers drop them) nor
//   about the message; termination / behaviour of a caller-supplied iterator beyond A-iter; that the callers
//   (spawn_vehicle_for_path, replace_vehicle_by_dummy, add_path_to_vehicle_tour, remove_segment, override_reassign, update_tours) establish tfu_pre -- in particular the stub in slices/remove_segment.vs
//   requires less than tfu_pre (it omits the u32 and type-lookup conditions).
#![feature(allocator_api)]
use vstd::prelude::*;
use std::ops::Add;
use std::ops::Sub;
use std::collections::{BTreeMap, HashMap};
use std::sync::Arc;
//@include env/display_time.rs
//@include env/display_model.rs
verus! {
//@include env/std_specs.vs
//@include env/seqiter.vs
//@include env/time_types.vs
//@include-trusted env/time_ops.vs
//@include env/model_types.vs
//@include env/broadcast_model.vs
//@include env/model_network_types.vs
//@include env/model_spec.vs
//@include-trusted env/model_fns.vs
//@include env/solution_types.vs
//@include env/sums.vs
//@include-trusted env/dist_ops.vs
//@include env/vsum_impls.vs
//@include env/admission_shim.vs

// =====================================================================================================
// vocabulary copied from slices/admission.vs (limits, formations), where the functions that use it are verified
// =====================================================================================================
pub open spec fn combined_limit(type_limit: Option<VehicleCount>, segment_limit: Option<VehicleCount>) -> Option<VehicleCount> {
    match (type_limit, segment_limit) {
        (Some(a), Some(b)) => Some(if a <= b { a } else { b }),
        (Some(a), None) => Some(a),
        (None, Some(b)) => Some(b),
        (None, None) => None,
    }
}
impl Network {
    pub open spec fn sp_trip(&self, n: NodeIdx) -> ServiceTrip { self.sp_node(n)->Service_0.1 }
    pub open spec fn is_trip(&self, n: NodeIdx) -> bool {
        self.has(n) && self.sp_node(n) is Service && self.vehicle_types.vehicle_types@.contains_key(self.sp_trip(n).vehicle_type)
    }
}
//@item solution/src/vehicle.rs struct Vehicle : plain
//@drop-derive Clone
//@end
//@item solution/src/train_formation.rs struct TrainFormation : plain
//@end
/// A-derive: the derived Clone of Vehicle is structural (text as in slices/admission.vs)
impl Clone for Vehicle {
    #[verifier::external_body]
    fn clone(&self) -> (r: Self)
        ensures r == *self
    { unimplemented!() }
}
/// passenger capacity / seats of a formation: the sums over its vehicles
pub open spec fn fcap(f: Seq<Vehicle>) -> int { isum(f.map_values(|v: Vehicle| v.vehicle_type.capacity as int)) }
pub open spec fn fseats(f: Seq<Vehicle>) -> int { isum(f.map_values(|v: Vehicle| v.vehicle_type.seats as int)) }
/// position of the first vehicle with the given id (s.len() if there is none)
pub open spec fn first_pos(s: Seq<Vehicle>, v: VehicleIdx) -> int
    decreases s.len(),
{
    if s.len() == 0 { 0 } else if s[0].idx == v { 0 } else { 1 + first_pos(s.drop_first(), v) }
}
pub open spec fn has_vehicle(s: Seq<Vehicle>, v: VehicleIdx) -> bool {
    exists|i: int| 0 <= i < s.len() && #[trigger] s[i].idx == v
}

pub mod tr {
use super::*;
use vstd::prelude::*;
use self::im::HashMap;
use crate::im_set::HashSet;
//@include env/im_shim.vs

//@item solution/src/transition.rs type CycleIdx : plain
//@end
//@item solution/src/transition/transition_cycle.rs struct TransitionCycle : plain
//@end
//@item solution/src/transition.rs struct Transition : plain
//@end
//@item solution/src/schedule.rs type DepotUsage : plain
//@end
//@item solution/src/schedule.rs struct Schedule : plain
//@drop-derive Clone
//@end

impl Schedule {
    pub open spec fn sp_is_dummy(&self, v: VehicleIdx) -> bool { self.dummy_tours@.contains_key(v) }
    pub open spec fn grows(&self, provider: Option<VehicleIdx>, receiver: Option<Vehicle>) -> bool {
        receiver is Some && !self.sp_is_dummy(receiver.unwrap().idx) && !(provider is Some && !self.sp_is_dummy(provider.unwrap()))
    }
    pub open spec fn replaces(&self, provider: Option<VehicleIdx>, receiver: Option<Vehicle>) -> bool {
        receiver is Some && !self.sp_is_dummy(receiver.unwrap().idx) && provider is Some && !self.sp_is_dummy(provider.unwrap())
    }
    pub open spec fn shrinks(&self, provider: Option<VehicleIdx>, receiver: Option<Vehicle>) -> bool {
        !(receiver is Some && !self.sp_is_dummy(receiver.unwrap().idx)) && provider is Some && !self.sp_is_dummy(provider.unwrap())
    }
    pub open spec fn sp_node_limit(&self, node: NodeIdx) -> Option<VehicleCount> {
        match self.network.sp_node(node) {
            Node::Maintenance((_, m)) => Some(m.track_count),
            Node::Service((_, s)) => combined_limit(
                self.network.vehicle_types.vehicle_types@[s.vehicle_type].maximal_formation_count,
                s.maximal_formation_count),
            _ => None,
        }
    }
}

//@item solution/src/schedule/modifications.rs Schedule::vehicle_replacement_in_train_formation : trusted
//@retname r
//@sig
    requires
        train_formations@.contains_key(node),
        self.network.has(node),
        self.network.sp_node(node) is Service ==> self.network.is_trip(node),
        train_formations@[node].formation@.len() <= u32::MAX,
    ensures
        // growth is admitted only while there is room: strictly below the limit before, within it after
        self.grows(provider, receiver_vehicle) ==>
            (r is Ok <==> (self.sp_node_limit(node) is Some ==> train_formations@[node].formation@.len() < self.sp_node_limit(node).unwrap())), // @obl C02.vehicle_replacement.growth_only_below_limit
        self.grows(provider, receiver_vehicle) && r is Ok && self.network.sp_node(node) is Maintenance ==>
            r.unwrap().formation@.len() <= self.network.sp_node(node)->Maintenance_0.1.track_count, // @obl C02.vehicle_replacement.track_count_respected
        self.grows(provider, receiver_vehicle) && r is Ok && self.network.sp_node(node) is Service ==>
            (self.sp_node_limit(node) is Some ==> r.unwrap().formation@.len() <= self.sp_node_limit(node).unwrap()), // @obl C02.vehicle_replacement.formation_count_respected
        self.grows(provider, receiver_vehicle) && r is Ok ==>
            r.unwrap().formation@ == train_formations@[node].formation@.push(receiver_vehicle.unwrap()), // @obl C02.vehicle_replacement.add_at_tail
        // replace keeps the count
        self.replaces(provider, receiver_vehicle) ==> (r is Ok <==> has_vehicle(train_formations@[node].formation@, provider.unwrap())),
        self.replaces(provider, receiver_vehicle) && r is Ok ==>
            r.unwrap().formation@ == train_formations@[node].formation@.update(
                first_pos(train_formations@[node].formation@, provider.unwrap()), receiver_vehicle.unwrap())
            && r.unwrap().formation@.len() == train_formations@[node].formation@.len(), // @obl C02.vehicle_replacement.replace_keeps_count
        // remove shrinks it by one
        self.shrinks(provider, receiver_vehicle) ==> (r is Ok <==> has_vehicle(train_formations@[node].formation@, provider.unwrap())),
        self.shrinks(provider, receiver_vehicle) && r is Ok ==>
            r.unwrap().formation@ == train_formations@[node].formation@.remove(
                first_pos(train_formations@[node].formation@, provider.unwrap()))
            && r.unwrap().formation@.len() == train_formations@[node].formation@.len() - 1, // @obl C02.vehicle_replacement.remove_shrinks_by_one
        // nothing real moves: the formation is unchanged
        !self.grows(provider, receiver_vehicle) && !self.replaces(provider, receiver_vehicle) && !self.shrinks(provider, receiver_vehicle)
            ==> r == Ok::<TrainFormation, String>(train_formations@[node]), // @obl C02.vehicle_replacement.noop_unchanged
//@end

//@item solution/src/schedule.rs Schedule::compute_unserved_passengers_at_node : trusted
//@retname r
//@sig
    requires
        network.has(node), network.sp_node(node) is Service,
        fcap(train_formation.formation@) <= u32::MAX, fseats(train_formation.formation@) <= u32::MAX,
    ensures
        r.0 == (if network.sp_trip(node).passengers as int > fcap(train_formation.formation@)
            { network.sp_trip(node).passengers as int - fcap(train_formation.formation@) } else { 0 }), // @obl C02.unserved_passengers.max0_demand_minus_capacity
        r.1 == (if network.sp_trip(node).seated as int > fseats(train_formation.formation@)
            { network.sp_trip(node).seated as int - fseats(train_formation.formation@) } else { 0 }), // @obl C02.unserved_passengers.max0_seated_minus_seats
//@end

//@include env/train_formation_update_shim.vs

// sibling accessor of the OLD schedule's table (verified here, verbatim; contract text as in slices/json_writer.vs):
// present so that a body that reads `self.train_formation_of(node)` instead of the table under construction
// type-checks and fails its obligations
//@item solution/src/schedule.rs Schedule::train_formation_of
//@retname r
//@sig
    requires self.train_formations@.contains_key(node),
    ensures *r == self.train_formations@[node],
//@end
//@item solution/src/schedule/modifications.rs Schedule::update_train_formation
//@param-type moved_nodes SeqIter<NodeIdx>
//@retname r
//@sig
    requires
        self.tfu_pre(old(train_formations)@, *old(unserved_passengers), provider, receiver_vehicle, moved_nodes@),
    ensures
        // C13: "Each schedule modification has its documented effect and nothing else … formations elsewhere … stay untouched"
        r is Ok ==> self.formations_elsewhere_untouched(moved_nodes@, old(train_formations)@, final(train_formations)@), // @obl C13.update_train_formation.formations_elsewhere_untouched
        // C13: "In a formation a replacing vehicle takes the replaced one's position, additions go to the tail and
        // removals keep the order": every moved non-depot node gets the replacement of its OLD formation
        r is Ok ==> self.moved_get_replacement(moved_nodes@, old(train_formations)@, final(train_formations)@, provider, receiver_vehicle), // @obl C13.update_train_formation.moved_nodes_get_the_replacement
        // C02 / C10: "formation, track and depot limits hold"
        r is Ok ==> self.grown_within_limits(moved_nodes@, final(train_formations)@, provider, receiver_vehicle), // @obl C02.update_train_formation.grown_formations_within_limits
        // C09: "cached aggregates equal recomputation": the delta is exact
        r is Ok ==> final(unserved_passengers).0 == old(unserved_passengers).0
            - self.un_sum(old(train_formations)@, provider, receiver_vehicle, moved_nodes@, moved_nodes@.len() as int, false, 0)
            + self.un_sum(old(train_formations)@, provider, receiver_vehicle, moved_nodes@, moved_nodes@.len() as int, true, 0)
          && final(unserved_passengers).1 == old(unserved_passengers).1
            - self.un_sum(old(train_formations)@, provider, receiver_vehicle, moved_nodes@, moved_nodes@.len() as int, false, 1)
            + self.un_sum(old(train_formations)@, provider, receiver_vehicle, moved_nodes@, moved_nodes@.len() as int, true, 1), // @obl C09.update_train_formation.unserved_passengers_delta_exact
        // the modification is refused iff the replacement fails for some moved non-depot node
        r is Ok <==> self.all_ok(old(train_formations)@, provider, receiver_vehicle, moved_nodes@, moved_nodes@.len() as int), // @obl C13.update_train_formation.refused_iff_a_replacement_fails
//@first
        let ghost tf0 = train_formations@;
        let ghost u0 = *unserved_passengers;
        let ghost moved = moved_nodes@;
        proof {
            assert(moved.take(0) =~= Seq::<NodeIdx>::empty());
        }
//@loop "for node in"
            invariant
                it.snapshot@@ == moved, moved == moved_nodes@,
                tf0 == old(train_formations)@, u0 == *old(unserved_passengers),
                0 <= it.index@ <= moved.len(),
                self.tfu_pre(tf0, u0, provider, receiver_vehicle, moved),
                // the loop state after the first `it.index@` moved nodes (= Schedule::upd_state)
                self.all_ok(tf0, provider, receiver_vehicle, moved, it.index@ as int), // @obl C13.update_train_formation.refused_iff_a_replacement_fails
                self.formations_elsewhere_untouched(moved.take(it.index@ as int), tf0, train_formations@), // @obl C13.update_train_formation.formations_elsewhere_untouched
                self.moved_get_replacement(moved.take(it.index@ as int), tf0, train_formations@, provider, receiver_vehicle), // @obl C13.update_train_formation.moved_nodes_get_the_replacement
                unserved_passengers.0 == u0.0 - self.un_sum(tf0, provider, receiver_vehicle, moved, it.index@ as int, false, 0)
                    + self.un_sum(tf0, provider, receiver_vehicle, moved, it.index@ as int, true, 0), // @obl C09.update_train_formation.unserved_passengers_delta_exact
                unserved_passengers.1 == u0.1 - self.un_sum(tf0, provider, receiver_vehicle, moved, it.index@ as int, false, 1)
                    + self.un_sum(tf0, provider, receiver_vehicle, moved, it.index@ as int, true, 1), // @obl C09.update_train_formation.unserved_passengers_delta_exact
//@loop-first "for node in"
            let ghost k = it.index@ as int;
            proof {
                assert(node == moved[k]);
                assert(self.node_pre(tf0, provider, receiver_vehicle, moved[k]));
                assert(self.arith_ok_at(tf0, provider, receiver_vehicle, moved, u0.0 as int, k, 0));
                assert(self.arith_ok_at(tf0, provider, receiver_vehicle, moved, u0.1 as int, k, 1));
                lemma_untouched_yet(self, tf0, train_formations@, provider, receiver_vehicle, moved, k);
                if self.network.sp_node(node).sp_is_depot() {
                    lemma_step_depot(self, tf0, train_formations@, provider, receiver_vehicle, moved, k);
                }
            }
//@before "train_formations.insert"
            let ghost tf_before = train_formations@;
            proof {
                // a failing replacement here: not all replacements succeed (the `?` returns Err)
                // only moved non-depot nodes are rewritten
                assert(!self.network.sp_node(moved[k]).sp_is_depot()); // @obl C13.update_train_formation.formations_elsewhere_untouched
                if !self.repl_ok(tf0[node].formation@, provider, receiver_vehicle, node) {
                    assert(!self.all_ok(tf0, provider, receiver_vehicle, moved, moved.len() as int));
                }
            }
//@after "train_formations.insert"
            proof {
                // the table is the one before with the formation of `node` replaced as specified
                lemma_step_moved(self, tf0, tf_before, train_formations@, provider, receiver_vehicle, moved, k, train_formations@[node]); // @obl C13.update_train_formation.moved_nodes_get_the_replacement
            }
//@before "Ok(())"
        proof {
            assert(moved.take(moved.len() as int) =~= moved);
            lemma_grown_within_limits(self, moved, tf0, train_formations@, provider, receiver_vehicle);
        }
//@end

} // mod tr
} // verus!
fn main() {}
