// slice `transition`: rotation-cycle bookkeeping (C15), cyclic successor (C05)
#![feature(allocator_api)]
use vstd::prelude::*;
use std::ops::Add;
use std::ops::Sub;
use std::collections::{BTreeMap, HashMap};
use std::sync::Arc;
//@include env/display_time.rs
//@include env/display_model.rs
verus! {
//@include env/std_specs.vs
//@include env/seqiter.vs
//@include env/time_types.vs
//@include-trusted env/time_ops.vs
//@include env/model_types.vs
//@include env/broadcast.vs
//@include env/model_network_types.vs
//@include env/model_spec.vs
//@include-trusted env/model_fns.vs
//@include env/solution_types.vs
//@include env/tour_spec.vs

//@item model/src/base_types/distance.rs Distance::in_meter
//@retname r
//@sig
    ensures
        self is Distance ==> r == Ok::<Meter, &str>(self->Distance_0),
        self is Infinity ==> r is Err,
//@end

pub mod tr {
use super::*;
use vstd::prelude::*;
use self::im::HashMap;
//@include env/im_shim.vs
/// A-iter: inside this module the path `std::iter::once` resolves to the shim `vonce` (the only
/// `std::` path of the extracted code)
pub mod std { pub mod iter { pub use crate::vonce as once; } }

//@item solution/src/transition.rs type CycleIdx : plain
//@end
//@item solution/src/transition/transition_cycle.rs struct TransitionCycle : plain
//@drop-derive Clone
//@end
impl Clone for TransitionCycle {
    #[verifier::external_body]
    fn clone(&self) -> (r: Self)
        ensures r == *self
    { unimplemented!() }
}
//@item solution/src/transition.rs struct Transition : plain
//@end
//@include env/transition_spec.vs

// ---- Tour: trusted stubs (verified in the tour slices) ----------------------------------------------
//@item solution/src/tour.rs Tour::maintenance_counter : trusted
//@retname r
//@sig
    requires -counter_bound() <= tour_counter(self) <= counter_bound(),
    ensures r == tour_counter(self),
//@end
//@item solution/src/tour.rs Tour::start_depot : trusted
//@retname r
//@sig
    requires self.wf(),
    ensures !self.is_dummy ==> r == Ok::<NodeIdx, String>(sp_start_depot(self)),
//@end
//@item solution/src/tour.rs Tour::end_depot : trusted
//@retname r
//@sig
    requires self.wf(),
    ensures !self.is_dummy ==> r == Ok::<NodeIdx, String>(sp_end_depot(self)),
//@end

// ---- TransitionCycle ---------------------------------------------------------------------------------
//@item solution/src/transition/transition_cycle.rs TransitionCycle::new
//@retname r
//@sig
    ensures r.cycle == cycle, r.maintenance_counter == maintenance_counter,
//@end
//@item solution/src/transition/transition_cycle.rs TransitionCycle::iter : trusted
//@ret SeqIter<VehicleIdx>
//@retname r
//@sig
    ensures r@ == self.cycle@,
//@end
//@item solution/src/transition/transition_cycle.rs TransitionCycle::get_vec
//@retname r
//@sig
    ensures *r == self.cycle,
//@end
//@item solution/src/transition/transition_cycle.rs TransitionCycle::len
//@retname r
//@sig
    ensures r == self.cycle@.len(),
//@end
//@item solution/src/transition/transition_cycle.rs TransitionCycle::is_empty
//@retname r
//@sig
    ensures r == (self.cycle@.len() == 0),
//@end
//@item solution/src/transition/transition_cycle.rs TransitionCycle::first
//@retname r
//@sig
    ensures r == (if self.cycle@.len() > 0 { Some(self.cycle@[0]) } else { None }),
//@end
//@item solution/src/transition/transition_cycle.rs TransitionCycle::last
//@retname r
//@sig
    ensures r == (if self.cycle@.len() > 0 { Some(self.cycle@[self.cycle@.len() - 1]) } else { None }),
//@end
//@item solution/src/transition/transition_cycle.rs TransitionCycle::get
//@retname r
//@sig
    ensures r == (if idx < self.cycle@.len() { Some(self.cycle@[idx as int]) } else { None }),
//@end
//@item solution/src/transition/transition_cycle.rs TransitionCycle::maintenance_counter
//@retname r
//@sig
    ensures r == self.maintenance_counter,
//@end
//@item solution/src/transition/transition_cycle.rs TransitionCycle::three_opt
//@retname r
//@sig
    requires
        i < j < k < self.cycle@.len(),
        self.cycle@.len() <= max_vehicles(),
        cycle_tours_ok(network, tours@, self.cycle@),
        // the old counter is exact
        self.maintenance_counter == spec_cycle_counter(network, tours@, self.cycle@),
    ensures
        r.cycle@ == three_opt_seq(self.cycle@, i as int, j as int, k as int), // @obl C15.three_opt.new_cycle
        r.maintenance_counter == spec_cycle_counter(network, tours@, r.cycle@), // @obl C15.three_opt.counter
//@first
        broadcast use axiom_ext_items_slice;
//@before "let end_depot_i"
        proof {
            lemma_three_opt_exec(network, tours@, self.cycle@, i as int, j as int, k as int);
        }
//@end

// ---- Transition --------------------------------------------------------------------------------------
//@item solution/src/transition.rs Transition::get_successor_of
//@retname r
//@sig
    requires self.wf_cycles(), self.wf_lookup(), self.has_vehicle(vehicle),
    ensures r == self.succ_of(vehicle), // @obl C05.get_successor_of.cyclic_successor
//@closure 0
    -> (b: bool) ensures b == (v == vehicle)
//@before "let successor_position"
        assert(cycle.cycle@.len() == cycle.cycle.len());
//@end
//@item solution/src/transition/modifications.rs Transition::maintenance_counter_of_tour_plus_dead_head_trips_before_and_after
//@retname r
//@sig
    requires tour_ok(network, tour), network.has(end_depot_of_predecessor), network.has(start_depot_of_successor),
    ensures r == tour_counter(tour) + dist_m(network, end_depot_of_predecessor, sp_start_depot(tour))
            + dist_m(network, sp_end_depot(tour), start_depot_of_successor),
        -3 * counter_bound() <= r <= 3 * counter_bound(),
//@first
        proof {
            lemma_tour_ok_depots(network, tour);
            lemma_dist_bound(network, end_depot_of_predecessor, sp_start_depot(tour));
            lemma_dist_bound(network, sp_end_depot(tour), start_depot_of_successor);
        }
//@end
//@item solution/src/transition/modifications.rs Transition::end_depot_of_predecessor_and_start_depot_of_successor
//@retname r
//@sig
    requires self.wf_cycles(), self.wf_lookup(), self.has_vehicle(vehicle),
        self.tours_real(eff_tours(updated_tours@, old_tours@)),
    ensures
        r.0 == sp_end_depot(&eff_tours(updated_tours@, old_tours@)[self.pred_of(vehicle)]),
        r.1 == sp_start_depot(&eff_tours(updated_tours@, old_tours@)[self.succ_of(vehicle)]),
//@closure position#0
    -> (b: bool) ensures b == (v == vehicle)
//@closure? unwrap_or_else#0
    -> (q: &Tour) requires old_tours@.contains_key(predecessor) ensures *q == old_tours@[predecessor]
//@closure? unwrap_or_else#1
    -> (q: &Tour) requires old_tours@.contains_key(successor) ensures *q == old_tours@[successor]
//@before "let predecessor"
        proof {
            let c = self.cyc(*cycle_idx as int);
            assert(c.len() == self.cycles@[*cycle_idx as int].cycle.len());
            assert(c.index_of(vehicle) == vehicle_idx);
            lemma_mod_next(vehicle_idx as int, c.len() as int);
            lemma_mod_prev(vehicle_idx as int, c.len() as int);
        }
//@end
//@item solution/src/transition/modifications.rs Transition::replace_cycle
//@retname r
//@sig
    requires
        cycle_idx < self.n(),
        // caller obligation: the new cycle is a rearrangement of the old one and its counter is exact
        is_permutation_of(new_cycle.cycle@, self.cyc(cycle_idx as int)),
        exists|net: &Network, tours: Map<VehicleIdx, Tour>|
            #[trigger] self.wf(net, tours) && new_cycle.maintenance_counter == spec_cycle_counter(net, tours, new_cycle.cycle@),
    ensures
        forall|net: &Network, tours: Map<VehicleIdx, Tour>|
            self.wf(net, tours) && new_cycle.maintenance_counter == spec_cycle_counter(net, tours, new_cycle.cycle@)
            ==> #[trigger] r.wf(net, tours), // @obl C15.replace_cycle.wf
        r.cycles@ == self.cycles@.update(cycle_idx as int, new_cycle), // @obl C15.replace_cycle.membership
        r.cycle_lookup@ == self.cycle_lookup@,
        r.empty_cycles@ == self.empty_cycles@,
//@before "let total_maintenance_violation"
        proof {
            let (net, tours) = choose|net: &Network, tours: Map<VehicleIdx, Tour>|
                #[trigger] self.wf(net, tours) && new_cycle.maintenance_counter == spec_cycle_counter(net, tours, new_cycle.cycle@);
            self@.lemma_bounds(net, tours);
            lemma_perm_tours_ok(self@, net, tours, cycle_idx as int, new_cycle.cycle@);
            lemma_counter_bound(net, tours, new_cycle.cycle@);
            assert(self.cyc(cycle_idx as int).len() <= self.total_len());
        }
//@before "Transition {"
        proof {
            assert(cycles@ =~= self.cycles@.update(cycle_idx as int, new_cycle));
            let nv = TView { cycles: cycles@, total_violation: total_maintenance_violation as int, total_counter: total_maintenance_counter as int,
                lookup: self.cycle_lookup@, empty: self.empty_cycles@ };
            assert forall|net: &Network, tours: Map<VehicleIdx, Tour>|
                self.wf(net, tours) && new_cycle.maintenance_counter == spec_cycle_counter(net, tours, new_cycle.cycle@)
                implies #[trigger] nv.wf(net, tours) by {
                lemma_perm_tours_ok(self@, net, tours, cycle_idx as int, new_cycle.cycle@);
                lemma_frame(self@, nv, net, tours, tours, cycle_idx as int, new_cycle);
            }
        }
//@end
//@item solution/src/transition/modifications.rs Transition::add_vehicle_to_own_cycle
//@retname r
//@sig
    requires
        exists|tours: Map<VehicleIdx, Tour>| #[trigger] self.wf(network, tours),
        !self.has_vehicle(vehicle),
        tour_ok(network, new_tour),
        self.total_len() < max_vehicles(),
    ensures
        forall|tours: Map<VehicleIdx, Tour>| #[trigger] self.wf(network, tours)
            ==> r.wf(network, tours.insert(vehicle, *new_tour)), // @obl C15.add_vehicle_to_own_cycle.wf
        // a new one-vehicle cycle, reusing an index from empty_cycles if there is one
        r.has_vehicle(vehicle) && 0 <= r.cycle_of(vehicle) < r.n() && r.cyc(r.cycle_of(vehicle)) == seq![vehicle], // @obl C15.add_vehicle_to_own_cycle.membership
        r.cycle_lookup@ == self.cycle_lookup@.insert(vehicle, r.cycle_of(vehicle) as usize),
        self.empty_cycles@.len() == 0 ==> r.n() == self.n() + 1 && r.cycle_of(vehicle) == self.n(),
        self.empty_cycles@.len() > 0 ==> r.n() == self.n() && r.cycle_of(vehicle) == self.empty_cycles@.last()
            && r.empty_cycles@ == self.empty_cycles@.drop_last(), // @obl C15.add_vehicle_to_own_cycle.reuses_empty_cycle
        forall|i: int| 0 <= i < self.n() && i != r.cycle_of(vehicle) ==> #[trigger] r.cyc(i) == self.cyc(i),
//@first
        proof {
            let tours = choose|tours: Map<VehicleIdx, Tour>| #[trigger] self.wf(network, tours);
            self@.lemma_bounds(network, tours);
            lemma_tour_ok_depots(network, new_tour);
            lemma_dist_bound(network, sp_end_depot(new_tour), sp_start_depot(new_tour));
        }
//@after "let new_cycle"
        let ghost nc = new_cycle;
        assert(nc.cycle@ =~= seq![vehicle]);
//@before "Transition {"
        proof {
            let nv = TView { cycles: cycles@, total_violation: total_maintenance_violation as int, total_counter: total_maintenance_counter as int,
                lookup: cycle_lookup@, empty: empty_cycles@ };
            assert forall|tours: Map<VehicleIdx, Tour>| #[trigger] self.wf(network, tours)
                implies nv.wf(network, tours.insert(vehicle, *new_tour)) by {
                let tours2 = tours.insert(vehicle, *new_tour);
                lemma_counter_single(network, tours2, vehicle);
                if self.empty_cycles@.len() == 0 {
                    assert(cycles@ =~= self.cycles@.push(nc));
                    lemma_push_cycle(self@, nv, network, tours, tours2, nc);
                    assert forall|x: CycleIdx| #[trigger] nv.empty.contains(x) <==> (0 <= x < nv.n() && nv.cyc(x as int).len() == 0) by {
                        assert(!self@.empty.contains(x));
                        if x < self.n() { assert(nv.cyc(x as int) == self.cyc(x as int)); }
                    }
                } else {
                    let k = self.empty_cycles@.last() as int;
                    assert(cycles@ =~= self.cycles@.update(k, nc));
                    lemma_frame(self@, nv, network, tours, tours2, k, nc);
                    lemma_drop_last_contains(self.empty_cycles@);
                    assert forall|x: CycleIdx| #[trigger] nv.empty.contains(x) <==> (0 <= x < nv.n() && nv.cyc(x as int).len() == 0) by {
                        if x < self.n() && x != k { assert(nv.cyc(x as int) == self.cyc(x as int)); }
                    }
                }
            }
        }
//@before "let empty_cycle_idx"
            assert(self.empty_cycles@.contains(self.empty_cycles@.last()));
//@end
//@item solution/src/transition/modifications.rs Transition::update_vehicle
//@retname r
//@sig
    requires
        self.wf(network, eff_tours(updated_tours@, old_tours@)),
        self.has_vehicle(vehicle),
        // caller-side assumption: the tour that `vehicle` had so far is read from old_tours, i.e. a
        // vehicle is updated at most once per round
        !updated_tours@.contains_key(vehicle),
        tour_ok(network, new_tour),
    ensures
        r.wf(network, eff_tours(updated_tours@, old_tours@).insert(vehicle, *new_tour)), // @obl C15.update_vehicle.wf
        r.n() == self.n() && (forall|i: int| 0 <= i < self.n() ==> #[trigger] r.cyc(i) == self.cyc(i)), // @obl C15.update_vehicle.same_cycles
        r.cycle_lookup@ == self.cycle_lookup@,
        r.empty_cycles@ == self.empty_cycles@,
//@before "let cycle_idx"
        proof {
            assert(cycles@ =~= self.cycles@) by {
                assert forall|i: int| 0 <= i < self.cycles@.len() implies #[trigger] cycles@[i] == self.cycles@[i] by {
                    assert(vstd::pervasive::cloned(self.cycles@[i], cycles@[i]));
                }
            }
        }
//@before "let new_maintenance_counter"
        proof {
            let tours = eff_tours(updated_tours@, old_tours@);
            let k = *cycle_idx as int;
            let c = self.cyc(k);
            let n = c.len() as int;
            self@.lemma_bounds(network, tours);
            assert(old_cycle.maintenance_counter == self@.cycles[k].maintenance_counter);
            assert(c.contains(vehicle));
            let p = c.index_of(vehicle);
            assert(self.cyc(k)[p] == vehicle);
            assert(tour_ok(network, &tours[vehicle]));
            lemma_tour_ok_depots(network, new_tour);
            lemma_dist_bound(network, sp_end_depot(new_tour), sp_start_depot(new_tour));
            if n >= 2 {
                lemma_mod_next(p, n);
                lemma_mod_prev(p, n);
                let pr = self.pred_of(vehicle);
                let su = self.succ_of(vehicle);
                assert(self.cyc(k)[(p + n - 1) % n] == pr);
                assert(self.cyc(k)[(p + 1) % n] == su);
                lemma_tour_ok_depots(network, &tours[pr]);
                lemma_tour_ok_depots(network, &tours[su]);
                lemma_counter_update(network, tours, c, p, *new_tour);
            } else {
                assert(c =~= seq![vehicle]);
                lemma_counter_single(network, tours.insert(vehicle, *new_tour), vehicle);
            }
        }
//@after "let new_cycle"
        let ghost nc = new_cycle;
//@before "Transition {"
        proof {
            let tours = eff_tours(updated_tours@, old_tours@);
            let k = *cycle_idx as int;
            assert(cycles@ =~= self.cycles@.update(k, nc));
            let nv = TView { cycles: cycles@, total_violation: total_maintenance_violation as int, total_counter: total_maintenance_counter as int,
                lookup: self.cycle_lookup@, empty: self.empty_cycles@ };
            lemma_perm_tours_ok(self@, network, tours, k, nc.cycle@);
            lemma_frame(self@, nv, network, tours, tours.insert(vehicle, *new_tour), k, nc);
            assert forall|x: CycleIdx| #[trigger] nv.empty.contains(x) <==> (0 <= x < nv.n() && nv.cyc(x as int).len() == 0) by {
                if x < self.n() && x != k { assert(nv.cyc(x as int) == self.cyc(x as int)); }
            }
        }
//@end
//@item solution/src/transition/modifications.rs Transition::remove_vehicle
//@retname r
//@sig
    requires
        self.wf(network, eff_tours(updated_tours@, old_tours@)),
        self.has_vehicle(vehicle),
        // caller-side assumption: the tour of the removed vehicle is read from old_tours
        !updated_tours@.contains_key(vehicle),
    ensures
        r.wf(network, eff_tours(updated_tours@, old_tours@)), // @obl C15.remove_vehicle.wf
        // the vehicle is gone from its cycle and from the lookup; the cycle index is pushed to
        // empty_cycles if the cycle became empty
        r.cycle_lookup@ == self.cycle_lookup@.remove(vehicle), // @obl C15.remove_vehicle.lookup
        r.n() == self.n(),
        r.cyc(self.cycle_of(vehicle)) == self.cyc(self.cycle_of(vehicle)).remove(self.cyc(self.cycle_of(vehicle)).index_of(vehicle)), // @obl C15.remove_vehicle.cycle
        forall|i: int| 0 <= i < self.n() && i != self.cycle_of(vehicle) ==> #[trigger] r.cyc(i) == self.cyc(i),
        r.empty_cycles@ == (if self.cyc(self.cycle_of(vehicle)).len() == 1 { self.empty_cycles@.push(self.cycle_of(vehicle) as CycleIdx) } else { self.empty_cycles@ }), // @obl C15.remove_vehicle.empty_cycles
        r.total_len() == self.total_len() - 1,
//@closure-params 0
    &VehicleIdx
//@closure 0
    -> (b: bool) ensures b == (*p0 != vehicle)
//@before "let cycle_idx"
        proof {
            assert(cycles@ =~= self.cycles@) by {
                assert forall|i: int| 0 <= i < self.cycles@.len() implies #[trigger] cycles@[i] == self.cycles@[i] by {
                    assert(vstd::pervasive::cloned(self.cycles@[i], cycles@[i]));
                }
            }
        }
//@before "let new_maintenance_counter"
        proof {
            let tours = eff_tours(updated_tours@, old_tours@);
            let k = *cycle_idx as int;
            let c = self.cyc(k);
            let n = c.len() as int;
            self@.lemma_bounds(network, tours);
            assert(old_cycle.maintenance_counter == self@.cycles[k].maintenance_counter);
            assert(c.contains(vehicle));
            let p = c.index_of(vehicle);
            assert(self.cyc(k)[p] == vehicle);
            assert(tour_ok(network, &tours[vehicle]));
            // the filter drops exactly position p
            assert(exists|m: Seq<bool>| #![trigger mask_filter(c, m)] m.len() == c.len() && new_cycle_vec@ == mask_filter(c, m)
                && forall|i: int| 0 <= i < c.len() ==> #[trigger] m[i] == (c[i] != vehicle));
            let m = choose|m: Seq<bool>| #![trigger mask_filter(c, m)] m.len() == c.len() && new_cycle_vec@ == mask_filter(c, m)
                && forall|i: int| 0 <= i < c.len() ==> #[trigger] m[i] == (c[i] != vehicle);
            lemma_mask_filter_remove(c, m, p);
            if n >= 2 {
                lemma_mod_next(p, n);
                lemma_mod_prev(p, n);
                let pr = self.pred_of(vehicle);
                let su = self.succ_of(vehicle);
                assert(self.cyc(k)[(p + n - 1) % n] == pr);
                assert(self.cyc(k)[(p + 1) % n] == su);
                lemma_tour_ok_depots(network, &tours[pr]);
                lemma_tour_ok_depots(network, &tours[su]);
                lemma_dist_bound(network, sp_end_depot(&tours[pr]), sp_start_depot(&tours[su]));
                lemma_counter_remove(network, tours, c, p);
            }
        }
//@after "let new_cycle ="
        let ghost nc = new_cycle;
//@before "Transition {"
        proof {
            let tours = eff_tours(updated_tours@, old_tours@);
            let k = self.cycle_of(vehicle);
            assert(cycles@ =~= self.cycles@.update(k, nc));
            let nv = TView { cycles: cycles@, total_violation: total_maintenance_violation as int, total_counter: total_maintenance_counter as int,
                lookup: cycle_lookup@, empty: empty_cycles@ };
            lemma_remove_vehicle_wf(self@, nv, network, tours, vehicle, nc);
        }
//@end
//@item solution/src/transition/modifications.rs Transition::add_vehicle_at_the_end
//@retname r
//@sig
    requires
        self.wf(network, eff_tours(updated_tours@, old_tours@)),
        !self.has_vehicle(vehicle),
        new_cycle_idx < self.n(),
        eff_tours(updated_tours@, old_tours@).contains_key(vehicle),
        tour_ok(network, &eff_tours(updated_tours@, old_tours@)[vehicle]),
        self.total_len() < max_vehicles(),
    ensures
        r.wf_but_empty(network, eff_tours(updated_tours@, old_tours@)), // @obl C15.add_vehicle_at_the_end.wf
        r.wf_empty(), // @obl C15.add_vehicle_at_the_end.empty_cycles
        // the vehicle is appended to cycle new_cycle_idx
        r.cycle_lookup@ == self.cycle_lookup@.insert(vehicle, new_cycle_idx), // @obl C15.add_vehicle_at_the_end.lookup
        r.n() == self.n(),
        r.cyc(new_cycle_idx as int) == self.cyc(new_cycle_idx as int).push(vehicle), // @obl C15.add_vehicle_at_the_end.cycle
        forall|i: int| 0 <= i < self.n() && i != new_cycle_idx ==> #[trigger] r.cyc(i) == self.cyc(i),
        r.total_len() == self.total_len() + 1,
//@closure unwrap_or_else#0
    -> (q: &Tour) requires old_tours@.contains_key(vehicle) ensures *q == old_tours@[vehicle]
//@closure-params? retain#0
    &CycleIdx
//@closure? retain#0
    -> (b: bool) ensures b == (*p0 != new_cycle_idx)
//@closure-params map#0
    &VehicleIdx
//@closure map#0
    -> (d: NodeIdx)
    requires eff_tours(updated_tours@, old_tours@).contains_key(*p0), eff_tours(updated_tours@, old_tours@)[*p0].wf(),
        !eff_tours(updated_tours@, old_tours@)[*p0].is_dummy,
    ensures d == sp_end_depot(&eff_tours(updated_tours@, old_tours@)[*p0])
//@closure unwrap_or_else#1
    -> (q: &Tour) requires old_tours@.contains_key(v) ensures *q == old_tours@[v]
//@closure-params map#1
    &VehicleIdx
//@closure map#1
    -> (d: NodeIdx)
    requires eff_tours(updated_tours@, old_tours@).contains_key(*p0), eff_tours(updated_tours@, old_tours@)[*p0].wf(),
        !eff_tours(updated_tours@, old_tours@)[*p0].is_dummy,
    ensures d == sp_start_depot(&eff_tours(updated_tours@, old_tours@)[*p0])
//@closure unwrap_or_else#2
    -> (q: &Tour) requires old_tours@.contains_key(v) ensures *q == old_tours@[v]
//@before "let old_cycle"
        proof {
            assert(cycles@ =~= self.cycles@) by {
                assert forall|i: int| 0 <= i < self.cycles@.len() implies #[trigger] cycles@[i] == self.cycles@[i] by {
                    assert(vstd::pervasive::cloned(self.cycles@[i], cycles@[i]));
                }
            }
        }
//@before "let new_maintenance_counter"
        proof {
            let tours = eff_tours(updated_tours@, old_tours@);
            let k = new_cycle_idx as int;
            let c = self.cyc(k);
            let n = c.len() as int;
            self@.lemma_bounds(network, tours);
            assert(old_cycle.maintenance_counter == self@.cycles[k].maintenance_counter);
            assert(new_cycle_vec@ =~= c.push(vehicle));
            assert(*tour_of_vehicle == tours[vehicle]);
            lemma_tour_ok_depots(network, tour_of_vehicle);
            lemma_dist_bound(network, sp_end_depot(tour_of_vehicle), sp_start_depot(tour_of_vehicle));
            if n >= 1 {
                let pr = self.cyc(k)[n - 1];
                let su = self.cyc(k)[0];
                lemma_tour_ok_depots(network, &tours[pr]);
                lemma_tour_ok_depots(network, &tours[su]);
                lemma_dist_bound(network, sp_end_depot(&tours[pr]), sp_start_depot(&tours[su]));
                lemma_counter_push(network, tours, c, vehicle);
            } else {
                assert(c.push(vehicle) =~= seq![vehicle]);
                lemma_counter_single(network, tours, vehicle);
            }
        }
//@before "tour_of_vehicle.maintenance_counter()"
            proof {
                // the local list no longer contains new_cycle_idx (what the result *should* carry)
                let e = self.empty_cycles@;
                assert(exists|m: Seq<bool>| #![trigger mask_filter(e, m)] m.len() == e.len() && empty_cycles@ == mask_filter(e, m)
                    && forall|i: int| 0 <= i < e.len() ==> #[trigger] m[i] == (e[i] != new_cycle_idx));
                let m = choose|m: Seq<bool>| #![trigger mask_filter(e, m)] m.len() == e.len() && empty_cycles@ == mask_filter(e, m)
                    && forall|i: int| 0 <= i < e.len() ==> #[trigger] m[i] == (e[i] != new_cycle_idx);
                lemma_mask_filter_ne(e, m, new_cycle_idx);
            }
//@after "let new_cycle ="
        let ghost nc = new_cycle;
//@before "Transition {"
        proof {
            let tours = eff_tours(updated_tours@, old_tours@);
            let k = new_cycle_idx as int;
            assert(cycles@ =~= self.cycles@.update(k, nc));
            // (a) the transition as the code builds it: empty_cycles taken from self again
            let nv = TView { cycles: cycles@, total_violation: total_maintenance_violation as int, total_counter: total_maintenance_counter as int,
                lookup: cycle_lookup@, empty: self.empty_cycles@ };
            lemma_add_at_end_wf(self@, nv, network, tours, vehicle, new_cycle_idx, nc);
            // (b) the transition with the locally edited list: this one is consistent
            let nv2 = TView { cycles: cycles@, total_violation: total_maintenance_violation as int, total_counter: total_maintenance_counter as int,
                lookup: cycle_lookup@, empty: empty_cycles@ };
            lemma_add_at_end_wf(self@, nv2, network, tours, vehicle, new_cycle_idx, nc);
            assert(nv2.wf_empty()) by {
                if self.cyc(k).len() > 0 { assert(!self.empty_cycles@.contains(new_cycle_idx)); }
            }
        }
//@end
//@item solution/src/transition/modifications.rs Transition::move_vehicle
//@retname r
//@sig
    requires
        self.wf(network, tours@),
        self.has_vehicle(vehicle),
        new_cycle_idx < self.n(),
    ensures
        r.wf_but_empty(network, tours@), // @obl C15.move_vehicle.wf
        r.wf_empty(), // @obl C15.move_vehicle.empty_cycles
        // remove, then add at the end of cycle new_cycle_idx
        r.cycle_lookup@ == self.cycle_lookup@.remove(vehicle).insert(vehicle, new_cycle_idx), // @obl C15.move_vehicle.lookup
        r.n() == self.n(),
        ({
            let k0 = self.cycle_of(vehicle);
            let c0 = self.cyc(k0).remove(self.cyc(k0).index_of(vehicle));
            &&& r.cyc(new_cycle_idx as int) == (if new_cycle_idx == k0 { c0 } else { self.cyc(new_cycle_idx as int) }).push(vehicle)
            &&& (new_cycle_idx != k0 ==> r.cyc(k0) == c0)
            &&& forall|i: int| 0 <= i < self.n() && i != k0 && i != new_cycle_idx ==> #[trigger] r.cyc(i) == self.cyc(i)
        }), // @obl C15.move_vehicle.cycles
        r.total_len() == self.total_len(),
//@first
        proof {
            assert(eff_tours(Map::<VehicleIdx, &Tour>::empty(), tours@) =~= tours@);
            let k0 = self.cycle_of(vehicle);
            assert(self.cyc(k0).contains(vehicle));
            assert(self.cyc(k0)[self.cyc(k0).index_of(vehicle)] == vehicle);
        }
//@end

} // mod tr
} // verus!
fn main() {}
