// slice `transition`: rotation-cycle bookkeeping (C15), cyclic successor (C05)
#![feature(allocator_api)]
use vstd::prelude::*;
use std::ops::Add;
use std::ops::Sub;
use std::collections::{BTreeMap, HashMap};
use std::sync::Arc;
//@include env/display_time.rs
//@include env/display_model.rs
verus! {
//@include env/std_specs.vs
//@include env/seqiter.vs
//@include env/time_types.vs
//@include-trusted env/time_ops.vs
//@include env/model_types.vs
//@include env/broadcast.vs
//@include env/model_network_types.vs
//@include env/model_spec.vs
//@include-trusted env/model_fns.vs
//@include env/solution_types.vs
//@include env/tour_spec.vs

//@item model/src/base_types/distance.rs Distance::in_meter
//@retname r
//@sig
    ensures
        self is Distance ==> r == Ok::<Meter, &str>(self->Distance_0),
        self is Infinity ==> r is Err,
//@end

pub mod tr {
use super::*;
use vstd::prelude::*;
use self::im::HashMap;
//@include env/im_shim.vs

//@item solution/src/transition.rs type CycleIdx : plain
//@end
//@item solution/src/transition/transition_cycle.rs struct TransitionCycle : plain
//@drop-derive Clone
//@end
impl Clone for TransitionCycle {
    #[verifier::external_body]
    fn clone(&self) -> (r: Self)
        ensures r == *self
    { unimplemented!() }
}
//@item solution/src/transition.rs struct Transition : plain
//@end
//@include env/transition_spec.vs

// ---- Tour: trusted stubs (verified in the tour slices) ----------------------------------------------
//@item solution/src/tour.rs Tour::maintenance_counter : trusted
//@retname r
//@sig
    requires -counter_bound() <= tour_counter(self) <= counter_bound(),
    ensures r == tour_counter(self),
//@end
//@item solution/src/tour.rs Tour::start_depot : trusted
//@retname r
//@sig
    requires self.wf(),
    ensures !self.is_dummy ==> r == Ok::<NodeIdx, String>(sp_start_depot(self)),
//@end
//@item solution/src/tour.rs Tour::end_depot : trusted
//@retname r
//@sig
    requires self.wf(),
    ensures !self.is_dummy ==> r == Ok::<NodeIdx, String>(sp_end_depot(self)),
//@end

// ---- TransitionCycle ---------------------------------------------------------------------------------
//@item solution/src/transition/transition_cycle.rs TransitionCycle::new
//@retname r
//@sig
    ensures r.cycle == cycle, r.maintenance_counter == maintenance_counter,
//@end
//@item solution/src/transition/transition_cycle.rs TransitionCycle::iter : trusted
//@ret SeqIter<VehicleIdx>
//@retname r
//@sig
    ensures r@ == self.cycle@,
//@end
//@item solution/src/transition/transition_cycle.rs TransitionCycle::get_vec
//@retname r
//@sig
    ensures *r == self.cycle,
//@end
//@item solution/src/transition/transition_cycle.rs TransitionCycle::len
//@retname r
//@sig
    ensures r == self.cycle@.len(),
//@end
//@item solution/src/transition/transition_cycle.rs TransitionCycle::is_empty
//@retname r
//@sig
    ensures r == (self.cycle@.len() == 0),
//@end
//@item solution/src/transition/transition_cycle.rs TransitionCycle::first
//@retname r
//@sig
    ensures r == (if self.cycle@.len() > 0 { Some(self.cycle@[0]) } else { None }),
//@end
//@item solution/src/transition/transition_cycle.rs TransitionCycle::last
//@retname r
//@sig
    ensures r == (if self.cycle@.len() > 0 { Some(self.cycle@[self.cycle@.len() - 1]) } else { None }),
//@end
//@item solution/src/transition/transition_cycle.rs TransitionCycle::get
//@retname r
//@sig
    ensures r == (if idx < self.cycle@.len() { Some(self.cycle@[idx as int]) } else { None }),
//@end
//@item solution/src/transition/transition_cycle.rs TransitionCycle::maintenance_counter
//@retname r
//@sig
    ensures r == self.maintenance_counter,
//@end

// ---- Transition --------------------------------------------------------------------------------------
//@item solution/src/transition.rs Transition::get_successor_of
//@retname r
//@sig
    requires self.wf_cycles(), self.wf_lookup(), self.has_vehicle(vehicle),
    ensures r == self.succ_of(vehicle), // @obl C05.get_successor_of.cyclic_successor
//@closure 0
    -> (b: bool) ensures b == (v == vehicle)
//@before "let successor_position"
        assert(cycle.cycle@.len() == cycle.cycle.len());
//@end
//@item solution/src/transition/modifications.rs Transition::maintenance_counter_of_tour_plus_dead_head_trips_before_and_after
//@retname r
//@sig
    requires tour_ok(network, tour), network.has(end_depot_of_predecessor), network.has(start_depot_of_successor),
    ensures r == tour_counter(tour) + dist_m(network, end_depot_of_predecessor, sp_start_depot(tour))
            + dist_m(network, sp_end_depot(tour), start_depot_of_successor),
//@first
        proof {
            lemma_tour_ok_depots(network, tour);
            lemma_dist_bound(network, end_depot_of_predecessor, sp_start_depot(tour));
            lemma_dist_bound(network, sp_end_depot(tour), start_depot_of_successor);
        }
//@end
//@item solution/src/transition/modifications.rs Transition::end_depot_of_predecessor_and_start_depot_of_successor
//@retname r
//@sig
    requires self.wf_cycles(), self.wf_lookup(), self.has_vehicle(vehicle),
        self.tours_real(eff_tours(updated_tours@, old_tours@)),
    ensures
        r.0 == sp_end_depot(&eff_tours(updated_tours@, old_tours@)[self.pred_of(vehicle)]),
        r.1 == sp_start_depot(&eff_tours(updated_tours@, old_tours@)[self.succ_of(vehicle)]),
//@closure 0
    -> (b: bool) ensures b == (v == vehicle)
//@closure 1
    -> (q: &Tour) requires old_tours@.contains_key(predecessor) ensures *q == old_tours@[predecessor]
//@closure 2
    -> (q: &Tour) requires old_tours@.contains_key(successor) ensures *q == old_tours@[successor]
//@before "let predecessor"
        proof {
            let c = self.cyc(*cycle_idx as int);
            assert(c.len() == self.cycles@[*cycle_idx as int].cycle.len());
            assert(c.index_of(vehicle) == vehicle_idx);
            lemma_mod_next(vehicle_idx as int, c.len() as int);
            lemma_mod_prev(vehicle_idx as int, c.len() as int);
        }
//@end
//@item solution/src/transition/modifications.rs Transition::replace_cycle
//@retname r
//@sig
    requires
        cycle_idx < self.n(),
        // caller obligation: the new cycle is a rearrangement of the old one and its counter is exact
        is_permutation_of(new_cycle.cycle@, self.cyc(cycle_idx as int)),
        exists|net: &Network, tours: Map<VehicleIdx, Tour>|
            self.wf(net, tours) && new_cycle.maintenance_counter == spec_cycle_counter(net, tours, new_cycle.cycle@),
    ensures
        forall|net: &Network, tours: Map<VehicleIdx, Tour>|
            self.wf(net, tours) && new_cycle.maintenance_counter == spec_cycle_counter(net, tours, new_cycle.cycle@)
            ==> #[trigger] r.wf(net, tours), // @obl C15.replace_cycle.wf
        r.cycles@ == self.cycles@.update(cycle_idx as int, new_cycle), // @obl C15.replace_cycle.membership
        r.cycle_lookup@ == self.cycle_lookup@,
        r.empty_cycles@ == self.empty_cycles@,
//@before "let total_maintenance_violation"
        proof {
            let (net, tours) = choose|net: &Network, tours: Map<VehicleIdx, Tour>|
                self.wf(net, tours) && new_cycle.maintenance_counter == spec_cycle_counter(net, tours, new_cycle.cycle@);
            self@.lemma_bounds(net, tours);
            lemma_perm_tours_ok(self@, net, tours, cycle_idx as int, new_cycle.cycle@);
            lemma_counter_bound(net, tours, new_cycle.cycle@);
            assert(self.cyc(cycle_idx as int).len() <= self.total_len());
        }
//@before "Transition {"
        proof {
            assert(cycles@ =~= self.cycles@.update(cycle_idx as int, new_cycle));
            let nv = TView { cycles: cycles@, total_violation: total_maintenance_violation as int, total_counter: total_maintenance_counter as int,
                lookup: self.cycle_lookup@, empty: self.empty_cycles@ };
            assert forall|net: &Network, tours: Map<VehicleIdx, Tour>|
                self.wf(net, tours) && new_cycle.maintenance_counter == spec_cycle_counter(net, tours, new_cycle.cycle@)
                implies #[trigger] nv.wf(net, tours) by {
                lemma_perm_tours_ok(self@, net, tours, cycle_idx as int, new_cycle.cycle@);
                lemma_frame(self@, nv, net, tours, tours, cycle_idx as int, new_cycle);
            }
        }
//@end

} // mod tr
} // verus!
fn main() {}
