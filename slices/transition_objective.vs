// slice `transition_objective`: the objectives of the two rotation-cycle searches (C15, last sentence: "The transition
// optimisation returns cycles over the same vehicles whose violation, then counter, is not worse than what it was
// given": here the step "WHICH order: maintenance violation first, then total maintenance counter, each read off the
// transition's own totals" -- that the totals equal their recomputation is slice transition; that rapid_solve's
// local search never returns something worse in this order is A-lib; the comparison itself is slice objective_eval).
// Verified verbatim: solver/src/transition_local_search/transition_objective.rs (two indicators + build),
// solver/src/transition_cycle_tsp/transition_cycle_objective.rs (one indicator + build), the accessors
// TransitionWithInfo::get_transition, TransitionCycleWithInfo::get_cycle, Transition::{maintenance_violation,
// maintenance_counter}, TransitionCycle::maintenance_counter, rapid_solve's LinearCombination::new / Objective::new.
//
// ASSUMPTIONS (env/transition_objective_shim.vs and below):
//   A-dyn   the trait `Indicator<S>` is declared by hand with `evaluate` only; axiom_dyn_*: a boxed indicator
//           evaluates like its impl (the right-hand side is the VERIFIED postcondition of that impl).
//   A-im    im::HashMap is an opaque type here (no operation on it is used).
//   The two source files define indicators of the same name; they live in the sub-modules `tls` and `tsp`.
#![feature(allocator_api)]
use vstd::prelude::*;
use std::ops::Add;
use std::ops::Sub;
use std::collections::{BTreeMap, HashMap};
use std::sync::Arc;
//@include env/display_time.rs
//@include env/display_model.rs
verus! {
//@include env/std_specs.vs
//@include env/seqiter.vs
//@include env/time_types.vs
//@include-trusted env/time_ops.vs
//@include env/model_types.vs
//@include env/broadcast_model.vs
//@include env/model_network_types.vs
//@include env/model_spec.vs

pub mod tr {
use super::*;
use vstd::prelude::*;
use self::im::HashMap;
//@include env/im_shim.vs

//@item solution/src/transition.rs type CycleIdx : plain
//@end
//@item solution/src/transition/transition_cycle.rs struct TransitionCycle : plain
//@end
//@item solution/src/transition.rs struct Transition : plain
//@end
//@item solver/src/transition_local_search/mod.rs struct TransitionWithInfo : plain
//@drop-derive Clone
//@drop-derive Ord
//@drop-derive PartialOrd
//@drop-derive Eq
//@drop-derive PartialEq
//@end
//@item solver/src/transition_cycle_tsp/mod.rs struct TransitionCycleWithInfo : plain
//@drop-derive Clone
//@drop-derive Ord
//@drop-derive PartialOrd
//@drop-derive Eq
//@drop-derive PartialEq
//@end

// ---- rapid_solve (pinned crate source) ---------------------------------------------------------------------
//@item @rapid_solve/src/objective/base_value.rs enum BaseValue : plain
//@end
//@item @rapid_solve/src/objective/coefficient.rs enum Coefficient : plain
//@end
//@item @rapid_solve/src/objective/linear_combination.rs struct LinearCombination : plain
//@attr verifier::reject_recursive_types(S)
//@end
//@item @rapid_solve/src/objective/mod.rs struct Objective : plain
//@attr verifier::reject_recursive_types(S)
//@end
//@include env/transition_objective_shim.vs
//@item @rapid_solve/src/objective/linear_combination.rs LinearCombination<S>::new
//@retname r
//@sig
    ensures r.summands == summands,
//@end
//@item @rapid_solve/src/objective/mod.rs Objective<S>::new
//@retname r
//@sig
    ensures r.hierarchy_levels == hierarchy_levels,
//@end

// ---- accessors (verbatim) -------------------------------------------------------------------------------------
//@item solver/src/transition_local_search/mod.rs TransitionWithInfo::get_transition
//@retname r
//@sig
    ensures *r == self.transition,
//@end
//@item solver/src/transition_cycle_tsp/mod.rs TransitionCycleWithInfo::get_cycle
//@retname r
//@sig
    ensures *r == self.cycle,
//@end
//@item solution/src/transition.rs Transition::maintenance_violation
//@retname r
//@sig
    ensures r == self.total_maintenance_violation,
//@end
//@item solution/src/transition.rs Transition::maintenance_counter
//@retname r
//@sig
    ensures r == self.total_maintenance_counter,
//@end
//@item solution/src/transition/transition_cycle.rs TransitionCycle::maintenance_counter
//@retname r
//@sig
    ensures r == self.maintenance_counter,
//@end

/// C15: "violation, then counter": the two components of a transition as the search sees them
pub open spec fn violation_value(t: TransitionWithInfo) -> BaseValue { BaseValue::Integer(t.transition.total_maintenance_violation) }
pub open spec fn counter_value(t: TransitionWithInfo) -> BaseValue { BaseValue::Integer(t.transition.total_maintenance_counter) }
/// the single component of one rotation cycle as the 3-opt search sees it
pub open spec fn cycle_counter_value(c: TransitionCycleWithInfo) -> BaseValue { BaseValue::Integer(c.cycle.maintenance_counter) }

// ================================================================ search over the cycles of a type
pub mod tls {
use super::*;
//@item solver/src/transition_local_search/transition_objective.rs struct MaintenanceViolationIndicator : plain
//@end
//@item solver/src/transition_local_search/transition_objective.rs struct MaintenanceCounterIndicator : plain
//@end
/// A-dyn: dynamic dispatch on a boxed indicator runs that type's `evaluate` (verified below with the same right-hand side)
pub axiom fn axiom_dyn_violation(t: TransitionWithInfo) ensures dyn_eval::<TransitionWithInfo>(Box::new(MaintenanceViolationIndicator), t) == violation_value(t);
pub axiom fn axiom_dyn_counter(t: TransitionWithInfo) ensures dyn_eval::<TransitionWithInfo>(Box::new(MaintenanceCounterIndicator), t) == counter_value(t);

//@item solver/src/transition_local_search/transition_objective.rs traitfn MaintenanceViolationIndicator::evaluate
//@keep-trait
//@retname r
//@sig
    ensures r == violation_value(*transition_with_info), // @obl C15.transition_objective.violation_indicator_reports_the_transitions_total
//@end
//@item solver/src/transition_local_search/transition_objective.rs traitfn MaintenanceCounterIndicator::evaluate
//@keep-trait
//@retname r
//@sig
    ensures r == counter_value(*transition_with_info), // @obl C15.transition_objective.counter_indicator_reports_the_transitions_total
//@end
//@item solver/src/transition_local_search/transition_objective.rs fn build
//@retname r
//@sig
    ensures
        r.hierarchy_levels@.len() == 2, // @obl C15.transition_objective.two_levels
        forall|k: int| 0 <= k < 2 ==> single_term(#[trigger] r.hierarchy_levels@[k]), // @obl C15.transition_objective.each_level_is_one_indicator_with_coefficient_one
        forall|t: TransitionWithInfo| #[trigger] level_value(r.hierarchy_levels@[0], t) == violation_value(t), // @obl C15.transition_objective.level0_is_maintenance_violation
        forall|t: TransitionWithInfo| #[trigger] level_value(r.hierarchy_levels@[1], t) == counter_value(t), // @obl C15.transition_objective.level1_is_maintenance_counter
//@before "Objective::new"
    proof {
        assert forall|t: TransitionWithInfo| #[trigger] level_value(maintenance_violation, t) == violation_value(t) by { axiom_dyn_violation(t); }
        assert forall|t: TransitionWithInfo| #[trigger] level_value(maintenance_counter, t) == counter_value(t) by { axiom_dyn_counter(t); }
    }
//@end
} // mod tls

// ================================================================ 3-opt search inside one cycle
pub mod tsp {
use super::*;
//@item solver/src/transition_cycle_tsp/transition_cycle_objective.rs struct MaintenanceCounterIndicator : plain
//@end
pub axiom fn axiom_dyn_cycle_counter(c: TransitionCycleWithInfo) ensures dyn_eval::<TransitionCycleWithInfo>(Box::new(MaintenanceCounterIndicator), c) == cycle_counter_value(c);

//@item solver/src/transition_cycle_tsp/transition_cycle_objective.rs traitfn MaintenanceCounterIndicator::evaluate
//@keep-trait
//@retname r
//@sig
    ensures r == cycle_counter_value(*transition_cycle_with_info), // @obl C15.transition_cycle_objective.indicator_reports_the_cycles_counter
//@end
//@item solver/src/transition_cycle_tsp/transition_cycle_objective.rs fn build
//@retname r
//@sig
    ensures
        r.hierarchy_levels@.len() == 1 && single_term(r.hierarchy_levels@[0]), // @obl C15.transition_cycle_objective.one_level_with_coefficient_one
        forall|c: TransitionCycleWithInfo| #[trigger] level_value(r.hierarchy_levels@[0], c) == cycle_counter_value(c), // @obl C15.transition_cycle_objective.level0_is_the_cycles_counter
//@before "Objective::new"
    proof {
        assert forall|c: TransitionCycleWithInfo| #[trigger] level_value(maintenance_counter, c) == cycle_counter_value(c) by { axiom_dyn_cycle_counter(c); }
    }
//@end
} // mod tsp

} // mod tr
} // verus!
fn main() {}
