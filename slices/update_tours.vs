// slice `update_tours`: Schedule::update_tours (solution/src/schedule/modifications.rs), the common bookkeeping of
// fit_reassign / override_reassign ("Reassign vehicles to the new tours … Updates all relevant data structures"),
// verbatim body.  It rewrites nine `&mut` structures; every one of them is under contract:
//   C13  "Each schedule modification has its documented effect and nothing else … a vehicle left without activities
//        disappears … all other vehicles' tours … stay untouched"
//   C10  "vehicle and dummy listings are sorted and match the stored tours"
//   C09  "cached aggregates equal recomputation" (costs, depot usage, unserved passengers)
// Contract (vocabulary in env/update_tours_shim.vs; p = provider, r = receiver; (a)-(d) hold on Ok AND on Err -- the
// eight other structures are rewritten before update_train_formation can refuse):
//   (a) C13.update_tours.provider_and_receiver_tours_replaced_everything_else_untouched:
//       vehicles1 == vehicles_after(vehicles0): p removed iff it is a real vehicle without new tour, else unchanged;
//       tours1 == tours_after(tours0) / dummy_tours1 == dummies_after(dummy_tours0): in the map of its kind p's entry is
//       the new provider tour or is removed, then r's entry is the new receiver tour; all other keys of the three maps
//       are untouched (map equality; lemma_frame spells the frame out per key);
//       lists_follow: the id of a deleted provider leaves exactly the list of its kind (ids_lose: one occurrence taken
//       out, order kept), every other list is unchanged;
//   (b) C10.update_tours.listings_still_sorted_and_matching: listings_ok(before) ==> listings_ok(after) (every type's list
//       and the dummy list sorted, duplicate-free and holding exactly the ids of the vehicles of that type / of the dummy
//       tours);
//   (c) C09.update_tours.costs_delta_exact: costs1 == costs0 - (old tours of p, r if real) + (new tours of p, r if real);
//   (d) C09.update_tours.depot_usage_exact_for_provider_and_receiver: the table is exact (usage_exact_for) for p and for r
//       w.r.t. the FINAL vehicles / tours, and the entries of all other vehicles are untouched (usage_same_except_two);
//       lemma_usage_exact_after: together with usage_exact before this is usage_exact (from-scratch value) after;
//   (e) C13.update_tours.formations_follow_update_train_formation: on Ok exactly the postcondition of
//       update_train_formation(p, self.vehicles.get(&r).cloned(), moved_nodes) (formations elsewhere untouched, moved
//       nodes get the replacement, grown formations within limits, unserved-passenger delta exact);
//   (f) C13.update_tours.err_iff_update_train_formation_refuses: Ok <==> all_ok (every replacement succeeds).
//
// ASSUMPTIONS introduced / used by this slice:
//   A-stub   none new: every callee is a trusted stub with EXACTLY the contract text of the slice that verifies its body
//            (Tour::costs, Schedule::{is_vehicle, is_dummy, tour_of, update_depot_usage, update_tour_and_costs}: slice
//            depot_usage; Schedule::vehicle_type_of: slice sched_guard; Schedule::update_train_formation: slice
//            train_formation_update) -- the contract hashes agree
//   A-im     NEW (env/update_tours_shim.vs): `map[&k]` on im::HashMap, `impl Index<&K>` / `impl IndexMut<&K>` as external_body
//            impls: index panics iff the key is absent (index_req == contains_key) and yields the stored value; index_mut
//            yields a `&mut V` INTO the map (final map == old map with the key bound to the final value of the reference)
//   A-im     im::HashMap {get, remove} (env/im_shim.vs, external_body shims); im::HashSet as the opaque value type of the
//            depot table (env/depot_usage_shim.vs)
//   A-std7   `<[T]>::binary_search` (assume_specification, text copied from env/remove_segment_shim.vs): on a slice sorted
//            w.r.t. Ord::cmp it returns Ok(i) with s[i] == x (cmp Equal) or Err(i) with everything before i Less and
//            everything from i on Greater; nothing is assumed for unsorted input
//   A-derive derived PartialOrd / Ord of VehicleIdx: variant order, then the index (spec impls, text copied from
//            env/remove_segment_shim.vs); Vehicle::clone is structural (external_body, env/depot_usage_shim.vs), used through
//            vstd's specification of Option::<&T>::cloned
//   A-iter / R12  the parameter `moved_nodes: impl Iterator<Item = NodeIdx>` is retyped to SeqIter<NodeIdx> (env/seqiter.vs)
//   included but not used by the code under contract (they come with env/depot_usage_shim.vs, env/im_shim.vs): im::HashSet
//            {new, len, insert, remove, clone}, im::HashMap {new, contains_key, insert, entry, keys, values, into_iter,
//            clone} + Entry::or_insert, axiom_key_seq, i32::unsigned_abs, Schedule::clone, Option::copied, Vec::extend,
//            Vec::retain, SeqIter::filter
//   plus the shared env: env/model_fns.vs, env/time_ops.vs, env/dist_ops.vs included trusted (verified in the slices that
//   include them untrusted: network, time, tour_ctor), env/broadcast_model.vs (key model of the index types).
//   env/update_tours_shim.vs copies (files that cannot be included next to env/depot_usage_shim.vs, or slices): the
//   Ord / binary_search text of env/remove_segment_shim.vs, `impl Schedule {sp_is_vehicle … real_tour_ok}` + tour_of_net of
//   slices/depot_usage.vs, the limits / formation vocabulary of slices/train_formation_update.vs.
//   vx rewrites applied to the body: R12 (parameter type), R2 (pub), R3 (clippy attribute dropped).
//
// PRECONDITIONS the caller must guarantee (Schedule::ut_pre + tfu_pre; each clause is commented in the shim):
//   * provider != Some(receiver): the depot bookkeeping runs once per vehicle (update_depot_usage requires the table to be
//     exact for the vehicle in the OLD schedule).  fit_reassign / override_reassign do not check it; their only
//     enumerator (Neighborhood::segment_exchange_iterator) "skip[s] provider as receiver", PathExchange::apply calls
//     fit_reassign with a fresh dummy as provider;
//   * C10 for the participants (participant_ok): provider and receiver each are a real vehicle or a dummy of `self`, not
//     both ("It is assumed that provider (if some) and receiver are part of self.vehicles"); a real one is stored under its
//     own id and has a real tour over the schedule's network (`tour_of(..).unwrap()`, `tours.get(..).unwrap()`);
//   * agrees_at: the maps handed in agree with the schedule's own maps AT provider and receiver (both callers hand in
//     clones; the body decides with `self.is_dummy` / `self.is_vehicle` but rewrites the maps handed in);
//   * C10 for the result: the new tour of a real vehicle is a real tour over the schedule's network;
//   * C09 before: the depot table is exact for provider and receiver in the old schedule;
//   * costs_arith_ok: the u64 arithmetic neither overflows nor underflows, step by step (weakest form);
//     lemma_costs_arith_from_totals gives the form a caller gets from C09 (costs >= the two old tours' costs) and a bound;
//   * listings, only as far as the body needs them: a deleted provider's list exists, is sorted and contains its id
//     (`[&provider_vehicle_type]`, `binary_search(..).unwrap()`);
//   * tfu_pre for (provider, self.vehicles.get(&receiver).cloned(), moved_nodes): see slices/train_formation_update.vs.
//
// NOT covered: on Err nothing is claimed about train_formations / unserved_passengers (the callers drop everything on Err);
//   that fit_reassign / override_reassign establish ut_pre / tfu_pre (no slice has them under contract yet); which of
//   several equal ids binary_search finds (irrelevant for duplicate-free lists: (b)); the relation of the new tours to the
//   old ones (they are parameters); rotation cycles / maintenance violation (not touched here:
//   update_transitions_and_violation_fast runs in the callers).
#![feature(allocator_api)]
use vstd::prelude::*;
use std::ops::Add;
use std::ops::Sub;
use std::collections::{BTreeMap, HashMap};
use std::sync::Arc;
//@include env/display_time.rs
//@include env/display_model.rs
verus! {
//@include env/std_specs.vs
//@include env/seqiter.vs
//@include env/time_types.vs
//@include-trusted env/time_ops.vs
//@include env/model_types.vs
//@include env/broadcast_model.vs
//@include env/model_network_types.vs
//@include env/model_spec.vs
//@include-trusted env/model_fns.vs
//@include env/solution_types.vs
//@include env/tour_spec.vs
//@include env/sums.vs
//@include-trusted env/dist_ops.vs
//@include env/vsum_impls.vs

pub mod tr {
use super::*;
use vstd::prelude::*;
use self::im::HashMap;
use self::im_set::HashSet;
//@include env/im_shim.vs
//@include env/depot_usage_shim.vs

//@item solution/src/transition.rs type CycleIdx : plain
//@end
//@item solution/src/transition/transition_cycle.rs struct TransitionCycle : plain
//@end
//@item solution/src/transition.rs struct Transition : plain
//@end
//@item solution/src/train_formation.rs struct TrainFormation : plain
//@end
//@item solution/src/schedule.rs type DepotUsage : plain
//@end
//@item solution/src/schedule.rs struct Schedule : plain
//@drop-derive Clone
//@end

//@include env/update_tours_shim.vs
//@include env/train_formation_update_shim.vs

// ---- callees: trusted stubs, contract text copied from the slice that verifies the body ------------------
// verified in slice depot_usage
//@item solution/src/tour.rs Tour::costs : trusted
//@retname r
//@sig
    ensures r == self.costs,
//@end
//@item solution/src/schedule.rs Schedule::is_vehicle : trusted
//@retname r
//@sig
    ensures r == self.sp_is_vehicle(vehicle),
//@end
//@item solution/src/schedule.rs Schedule::is_dummy : trusted
//@retname r
//@sig
    ensures r == self.sp_is_dummy(vehicle),
//@end
//@item solution/src/schedule.rs Schedule::tour_of : trusted
//@retname r
//@sig
    ensures
        self.tours@.contains_key(vehicle) ==> r is Ok && *r->Ok_0 == self.tours@[vehicle],
        !self.tours@.contains_key(vehicle) && self.dummy_tours@.contains_key(vehicle) ==> r is Ok && *r->Ok_0 == self.dummy_tours@[vehicle],
        !self.tours@.contains_key(vehicle) && !self.dummy_tours@.contains_key(vehicle) ==> r is Err,
//@end
// verified in slice sched_guard
//@item solution/src/schedule.rs Schedule::vehicle_type_of : trusted
//@retname r
//@sig
    ensures
        self.vehicles@.contains_key(vehicle) ==> r == Ok::<VehicleTypeIdx, String>(self.type_of(vehicle)),
        !self.vehicles@.contains_key(vehicle) ==> r is Err,
//@end
// verified in slice depot_usage
//@item solution/src/schedule/modifications.rs Schedule::update_depot_usage : trusted
//@sig
    requires
        // part of C10 for the old schedule and for the new maps: a vehicle is stored under its own id, a
        // real vehicle has a real tour, and an id keeps its vehicle type
        self.sp_is_vehicle(vehicle_idx) ==> self.vehicles@[vehicle_idx].idx == vehicle_idx && self.real_tour_ok(vehicle_idx),
        vehicles@.contains_key(vehicle_idx) ==> vehicles@[vehicle_idx].idx == vehicle_idx,
        vehicles@.contains_key(vehicle_idx) && tours@.contains_key(vehicle_idx) ==> tour_of_net(&self.network, &tours@[vehicle_idx]),
        vehicles@.contains_key(vehicle_idx) && self.sp_is_vehicle(vehicle_idx) ==>
            vehicles@[vehicle_idx].vehicle_type.idx == self.vehicles@[vehicle_idx].vehicle_type.idx,
        // C09 before the step: the table is exact for this vehicle in the OLD schedule (`self`); in
        // particular this bookkeeping step runs once per vehicle and modification
        usage_exact_for(old(depot_usage)@, &self.network, self.vehicles@, self.tours@, vehicle_idx),
    ensures
        usage_exact_for(final(depot_usage)@, &self.network, vehicles@, tours@, vehicle_idx), // @obl C09.depot_usage.exact_for_vehicle_in_new_schedule
        usage_same_except(old(depot_usage)@, final(depot_usage)@, vehicle_idx), // @obl C09.depot_usage.other_vehicles_untouched
//@end
//@item solution/src/schedule/modifications.rs Schedule::update_tour_and_costs : trusted
//@sig
    requires
        // a vehicle that is not a dummy of `self` must have a tour in `tours` (`tours.get(&vehicle).unwrap()`)
        !self.sp_is_dummy(vehicle) ==> old(tours)@.contains_key(vehicle),
        // `(*costs + new) - old` in u64: no overflow, no underflow.  The second bound follows from
        // `costs >= old tour's costs`, which is C09 for the schedule under construction (its costs are the
        // sum of its tours' costs plus non-negative terms, see `sched_ok` in env/schedule_shim.vs)
        !self.sp_is_dummy(vehicle) ==> *old(costs) + new_tour.costs <= u64::MAX
            && old(tours)@[vehicle].costs <= *old(costs) + new_tour.costs,
    ensures
        !self.sp_is_dummy(vehicle) ==> final(tours)@ == old(tours)@.insert(vehicle, new_tour)
            && final(dummy_tours)@ == old(dummy_tours)@, // @obl C09.update_tour_and_costs.real_tour_replaced
        !self.sp_is_dummy(vehicle) ==> *final(costs) == *old(costs) + new_tour.costs - old(tours)@[vehicle].costs, // @obl C09.update_tour_and_costs.costs_follow_tour
        self.sp_is_dummy(vehicle) ==> final(dummy_tours)@ == old(dummy_tours)@.insert(vehicle, new_tour)
            && final(tours)@ == old(tours)@ && *final(costs) == *old(costs), // @obl C09.update_tour_and_costs.dummy_costs_nothing
//@end
// verified in slice train_formation_update
//@item solution/src/schedule/modifications.rs Schedule::update_train_formation : trusted
//@param-type moved_nodes SeqIter<NodeIdx>
//@retname r
//@sig
    requires
        self.tfu_pre(old(train_formations)@, *old(unserved_passengers), provider, receiver_vehicle, moved_nodes@),
    ensures
        // C13: "Each schedule modification has its documented effect and nothing else … formations elsewhere … stay untouched"
        r is Ok ==> self.formations_elsewhere_untouched(moved_nodes@, old(train_formations)@, final(train_formations)@), // @obl C13.update_train_formation.formations_elsewhere_untouched
        // C13: "In a formation a replacing vehicle takes the replaced one's position, additions go to the tail and
        // removals keep the order": every moved non-depot node gets the replacement of its OLD formation
        r is Ok ==> self.moved_get_replacement(moved_nodes@, old(train_formations)@, final(train_formations)@, provider, receiver_vehicle), // @obl C13.update_train_formation.moved_nodes_get_the_replacement
        // C02 / C10: "formation, track and depot limits hold"
        r is Ok ==> self.grown_within_limits(moved_nodes@, final(train_formations)@, provider, receiver_vehicle), // @obl C02.update_train_formation.grown_formations_within_limits
        // C09: "cached aggregates equal recomputation": the delta is exact
        r is Ok ==> final(unserved_passengers).0 == old(unserved_passengers).0
            - self.un_sum(old(train_formations)@, provider, receiver_vehicle, moved_nodes@, moved_nodes@.len() as int, false, 0)
            + self.un_sum(old(train_formations)@, provider, receiver_vehicle, moved_nodes@, moved_nodes@.len() as int, true, 0)
          && final(unserved_passengers).1 == old(unserved_passengers).1
            - self.un_sum(old(train_formations)@, provider, receiver_vehicle, moved_nodes@, moved_nodes@.len() as int, false, 1)
            + self.un_sum(old(train_formations)@, provider, receiver_vehicle, moved_nodes@, moved_nodes@.len() as int, true, 1), // @obl C09.update_train_formation.unserved_passengers_delta_exact
        // the modification is refused iff the replacement fails for some moved non-depot node
        r is Ok <==> self.all_ok(old(train_formations)@, provider, receiver_vehicle, moved_nodes@, moved_nodes@.len() as int), // @obl C13.update_train_formation.refused_iff_a_replacement_fails
//@end

// ---- the function under contract ------------------------------------------------------------------------------
//@item solution/src/schedule/modifications.rs Schedule::update_tours
//@param-type moved_nodes SeqIter<NodeIdx>
//@retname r
//@sig
    requires
        self.ut_pre(old(vehicles)@, old(tours)@, old(depot_usage)@, old(dummy_tours)@, old(vehicle_ids_grouped_and_sorted)@,
            old(dummy_ids_sorted)@, *old(costs), provider, new_tour_provider, receiver, new_tour_receiver),
        self.tfu_pre(old(train_formations)@, *old(unserved_passengers), provider, self.sp_receiver_vehicle(receiver), moved_nodes@),
    ensures
        final(vehicles)@ == self.vehicles_after(old(vehicles)@, provider, new_tour_provider), // @obl C13.update_tours.provider_and_receiver_tours_replaced_everything_else_untouched
        final(tours)@ == self.tours_after(old(tours)@, provider, new_tour_provider, receiver, new_tour_receiver), // @obl C13.update_tours.provider_and_receiver_tours_replaced_everything_else_untouched
        final(dummy_tours)@ == self.dummies_after(old(dummy_tours)@, provider, new_tour_provider, receiver, new_tour_receiver), // @obl C13.update_tours.provider_and_receiver_tours_replaced_everything_else_untouched
        self.lists_follow(old(vehicle_ids_grouped_and_sorted)@, final(vehicle_ids_grouped_and_sorted)@, old(dummy_ids_sorted)@, final(dummy_ids_sorted)@,
            provider, new_tour_provider), // @obl C13.update_tours.provider_and_receiver_tours_replaced_everything_else_untouched
        listings_ok(old(vehicles)@, old(dummy_tours)@, old(vehicle_ids_grouped_and_sorted)@, old(dummy_ids_sorted)@)
            ==> listings_ok(final(vehicles)@, final(dummy_tours)@, final(vehicle_ids_grouped_and_sorted)@, final(dummy_ids_sorted)@), // @obl C10.update_tours.listings_still_sorted_and_matching
        *final(costs) == *old(costs)
            - self.cost_out_provider(old(tours)@, provider) - self.cost_out_receiver(old(tours)@, receiver)
            + self.cost_in_provider(provider, new_tour_provider) + self.cost_in_receiver(receiver, new_tour_receiver), // @obl C09.update_tours.costs_delta_exact
        usage_exact_for(final(depot_usage)@, &self.network, final(vehicles)@, final(tours)@, receiver), // @obl C09.update_tours.depot_usage_exact_for_provider_and_receiver
        provider is Some ==> usage_exact_for(final(depot_usage)@, &self.network, final(vehicles)@, final(tours)@, provider.unwrap()), // @obl C09.update_tours.depot_usage_exact_for_provider_and_receiver
        usage_same_except_two(old(depot_usage)@, final(depot_usage)@, provider, receiver), // @obl C09.update_tours.depot_usage_exact_for_provider_and_receiver
        r is Ok ==> self.formations_elsewhere_untouched(moved_nodes@, old(train_formations)@, final(train_formations)@), // @obl C13.update_tours.formations_follow_update_train_formation
        r is Ok ==> self.moved_get_replacement(moved_nodes@, old(train_formations)@, final(train_formations)@, provider, self.sp_receiver_vehicle(receiver)), // @obl C13.update_tours.formations_follow_update_train_formation
        r is Ok ==> self.grown_within_limits(moved_nodes@, final(train_formations)@, provider, self.sp_receiver_vehicle(receiver)), // @obl C13.update_tours.formations_follow_update_train_formation
        r is Ok ==> final(unserved_passengers).0 == old(unserved_passengers).0
            - self.un_sum(old(train_formations)@, provider, self.sp_receiver_vehicle(receiver), moved_nodes@, moved_nodes@.len() as int, false, 0)
            + self.un_sum(old(train_formations)@, provider, self.sp_receiver_vehicle(receiver), moved_nodes@, moved_nodes@.len() as int, true, 0)
          && final(unserved_passengers).1 == old(unserved_passengers).1
            - self.un_sum(old(train_formations)@, provider, self.sp_receiver_vehicle(receiver), moved_nodes@, moved_nodes@.len() as int, false, 1)
            + self.un_sum(old(train_formations)@, provider, self.sp_receiver_vehicle(receiver), moved_nodes@, moved_nodes@.len() as int, true, 1), // @obl C13.update_tours.formations_follow_update_train_formation
        r is Ok <==> self.all_ok(old(train_formations)@, provider, self.sp_receiver_vehicle(receiver), moved_nodes@, moved_nodes@.len() as int), // @obl C13.update_tours.err_iff_update_train_formation_refuses
//@first
        let ghost ntp = new_tour_provider;
        let ghost ntr = new_tour_receiver;
        let ghost v0 = vehicles@;
        let ghost d0 = dummy_tours@;
        let ghost g0 = vehicle_ids_grouped_and_sorted@;
        let ghost ids0 = dummy_ids_sorted@;
        let ghost du0 = depot_usage@;
        let ghost mut du1 = depot_usage@;
        let ghost mut v1 = vehicles@;
        let ghost mut t1 = tours@;
//@before "dummy_ids_sorted .remove("
                        proof {
                            // `binary_search(..).unwrap()`: the list is sorted and holds the id, so the search finds it
                            assert forall|res: Result<usize, usize>| #[trigger] bsearch_post(ids0, provider_id, res)
                                implies res is Ok && 0 <= res->Ok_0 < ids0.len() && ids0[res->Ok_0 as int] == provider_id by {
                                lemma_bsearch_finds(ids0, provider_id, res);
                            }
                        }
//@after "dummy_ids_sorted .remove("
                        proof {
                            // the position binary_search reports holds the provider's id
                            assert(ids_lose(ids0, dummy_ids_sorted@, provider_id)); // @obl C13.update_tours.provider_and_receiver_tours_replaced_everything_else_untouched
                        }
//@before "let position"
                        proof {
                            assert(provider_vehicle_type == self.type_of(provider_id));
                            assert forall|res: Result<usize, usize>| #[trigger] bsearch_post(g0[provider_vehicle_type]@, provider_id, res)
                                implies res is Ok && 0 <= res->Ok_0 < g0[provider_vehicle_type]@.len() && g0[provider_vehicle_type]@[res->Ok_0 as int] == provider_id by {
                                lemma_bsearch_finds(g0[provider_vehicle_type]@, provider_id, res);
                            }
                        }
//@after "vehicle_ids_grouped_and_sorted[&provider_vehicle_type].remove"
                        proof {
                            assert(g0[provider_vehicle_type]@[position as int] == provider_id); // @obl C13.update_tours.provider_and_receiver_tours_replaced_everything_else_untouched
                            assert(vehicle_ids_grouped_and_sorted@[provider_vehicle_type]@ == g0[provider_vehicle_type]@.remove(position as int)); // @obl C13.update_tours.provider_and_receiver_tours_replaced_everything_else_untouched
                            assert(ids_lose(g0[provider_vehicle_type]@, vehicle_ids_grouped_and_sorted@[provider_vehicle_type]@, provider_id)); // @obl C13.update_tours.provider_and_receiver_tours_replaced_everything_else_untouched
                            assert(vehicle_ids_grouped_and_sorted@.dom() =~= g0.dom()); // @obl C13.update_tours.provider_and_receiver_tours_replaced_everything_else_untouched
                        }
//@after "if let Some(provider_id) = provider"
        proof {
            // the state between the provider's and the receiver's bookkeeping
            du1 = depot_usage@; v1 = vehicles@; t1 = tours@;
            // the provider's step left the receiver's entries alone: the table still is exact for the receiver in the OLD schedule
            if provider is Some {
                lemma_exact_for_transfer(du0, du1, &self.network, self.vehicles@, self.tours@, self.vehicles@, self.tours@, receiver, provider.unwrap());
            }
        }
//@before "let receiver_vehicle"
        proof {
            // the receiver's step left the provider's entries alone, and the receiver's new tour is not the provider's
            if provider is Some {
                lemma_exact_for_transfer(du1, depot_usage@, &self.network, v1, t1, vehicles@, tours@, provider.unwrap(), receiver); // @obl C09.update_tours.depot_usage_exact_for_provider_and_receiver
            }
            lemma_same_except_two(du0, du1, depot_usage@, provider, receiver); // @obl C09.update_tours.depot_usage_exact_for_provider_and_receiver
            assert(self.lists_follow(g0, vehicle_ids_grouped_and_sorted@, ids0, dummy_ids_sorted@, provider, ntp)); // @obl C13.update_tours.provider_and_receiver_tours_replaced_everything_else_untouched
            if listings_ok(v0, d0, g0, ids0) {
                lemma_listings_preserved(self, v0, d0, g0, ids0, vehicle_ids_grouped_and_sorted@, dummy_ids_sorted@, provider, ntp, receiver, ntr); // @obl C10.update_tours.listings_still_sorted_and_matching
            }
        }
//@end

} // mod tr
} // verus!
fn main() {}
