#!/usr/bin/env python3
"""Consistency checks of the /verif tree itself (not a property check): every slice named in props.py exists,
MANIFEST.json and the evidence files validate against the schemas, evidence says discharged == obligations,
every claimed property has evidence, stub texts that differ from a verified contract are listed."""
import glob, json, os, subprocess, sys
here = os.path.dirname(os.path.abspath(__file__)); root = os.path.join(here, "..")
sys.path.insert(0, root)
import props
bad = 0
for k, v in props.PROPS.items():
    for s in set(v["slices"] + v.get("thorough_slices", [])):
        if not os.path.exists(os.path.join(root, "slices", s + ".vs")):
            print("MISSING slice", s, "of", k); bad += 1
try:
    import jsonschema
    m = json.load(open(os.path.join(root, "MANIFEST.json")))
    jsonschema.validate(m, json.load(open("/root/.vp/MANIFEST.schema.json")))
    claimed = {c["property"] if "property" in c else c.get("id") for c in m.get("checks", [])}
    es = json.load(open("/root/.vp/EVIDENCE.schema.json"))
    for k in props.PROPS:
        f = os.path.join(root, "evidence", k + ".json")
        if not os.path.exists(f):
            print("NO evidence for", k); bad += 1; continue
        e = json.load(open(f)); jsonschema.validate(e, es)
        c = e["coverage"]
        if c["obligations"] != c["discharged"] or e.get("violations"):
            print("evidence of", k, "not clean:", c["obligations"], c["discharged"], e.get("violations")); bad += 1
        have = [x["name"] if isinstance(x, dict) else x for x in c.get("slices", [])]
        missing = [s for s in props.PROPS[k]["slices"] if s not in have]
        if missing:
            print("evidence of", k, "is older than props.py: slices not covered:", missing); bad += 1
except ImportError:
    print("(jsonschema not available: run with python3-vt)")
# every file that some slice includes as `//@include-proved F` (lemma bodies not re-checked there) must be included PLAINLY
# (bodies checked) by a slice that belongs to a claimed property
import re
proved, plain = {}, {}
for f in glob.glob(os.path.join(root, "slices", "*.vs")):
    name = os.path.basename(f)[:-3]
    for l in open(f):
        m = re.match(r"\s*//@include(-proved)?(-trusted)? (\S+)", l)
        if m:
            (proved if m.group(1) else plain).setdefault(m.group(3), set()).add(name)
registered = set(sl for v in props.PROPS.values() for sl in v["slices"] + v.get("thorough_slices", []))
for inc, users in proved.items():
    homes = plain.get(inc, set()) & registered
    if not homes:
        print("include-proved", inc, "used by", sorted(users), "has NO registered home slice that proves it"); bad += 1
r = subprocess.run([sys.executable, os.path.join(here, "stub_sync.py")], capture_output=True, text=True)
diffs = [l for l in r.stdout.splitlines() if l.startswith("DIFF") and "pipeline_shim" not in l and "slices/swaps.vs" not in l]
for l in diffs:
    print("note:", l)
print("selfcheck:", "OK" if bad == 0 else "%d problem(s)" % bad)
sys.exit(1 if bad else 0)
