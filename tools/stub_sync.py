#!/usr/bin/env python3
"""Report (default) or repair (--write) stubs whose contract text differs from the contract under which another
slice verifies the same function.  A stub (`//@item F : trusted` + //@sig block) is R7a ("verified elsewhere with the
same contract") only if the two //@sig blocks are textually equal up to `// @obl` tags and white space; this tool
finds the others.  Only the //@sig block of the stub is rewritten; //@retname, //@ret, //@param-type stay."""
import glob, os, re, sys
here = os.path.dirname(os.path.abspath(__file__))
root = os.path.join(here, "..")
files = sorted(glob.glob(os.path.join(root, "slices", "*.vs")) + glob.glob(os.path.join(root, "env", "*.vs")))
item_re = re.compile(r"^//@item\?? (\S+) (.*?)( : (trusted|plain))?\s*$")
def norm(lines):
    t = " ".join(re.sub(r"//\s*@obl.*$", "", l) for l in lines)
    t = re.sub(r"//[^\n]*", "", t)  # comments inside contracts are stripped line-wise below
    return re.sub(r"\s+", " ", t).strip()
def strip_comments(lines):
    out = []
    for l in lines:
        l2 = re.sub(r"//\s*@obl.*$", "", l)
        l2 = re.sub(r"//.*$", "", l2)
        out.append(l2)
    return re.sub(r"\s+", " ", " ".join(out)).strip()
items = []  # (file, selector, mode, sig_start, sig_end, lines)
for f in files:
    L = open(f).read().split("\n")
    i = 0
    while i < len(L):
        m = item_re.match(L[i])
        if m:
            sel = (m.group(1), m.group(2).strip())
            mode = m.group(4) or "verify"
            j = i + 1
            sig_s = sig_e = None
            while j < len(L) and not L[j].startswith("//@end"):
                if L[j].startswith("//@sig"):
                    sig_s = j + 1
                    k = sig_s
                    while k < len(L) and not L[k].startswith("//@"):
                        k += 1
                    sig_e = k
                j += 1
            if sig_s is not None:
                items.append(dict(file=f, sel=sel, mode=mode, s=sig_s, e=sig_e, lines=L[sig_s:sig_e]))
            i = j
        i += 1
verified = {}
for it in items:
    if it["mode"] == "verify":
        verified.setdefault(it["sel"], []).append(it)
write = "--write" in sys.argv
src_pref = [a.split("=",1)[1] for a in sys.argv[1:] if a.startswith("--from=")]
only = [a for a in sys.argv[1:] if not a.startswith("--")]
bad = 0
edits = {}
for it in items:
    if it["mode"] != "trusted" or it["sel"] not in verified:
        continue
    if only and not any(o in it["file"] for o in only):
        continue
    vs = verified[it["sel"]]
    v = next((w for w in vs if any(p in w["file"] for p in src_pref)), vs[0])
    if all(strip_comments(it["lines"]) != strip_comments(w["lines"]) for w in vs):
        bad += 1
        print("DIFF %s %s: stub in %s differs from verified contract in %s" % (it["sel"][0], it["sel"][1], os.path.relpath(it["file"], root), os.path.relpath(v["file"], root)))
        if write:
            edits.setdefault(it["file"], []).append((it["s"], it["e"], v["lines"]))
for f, es in edits.items():
    L = open(f).read().split("\n")
    for s, e, new in sorted(es, reverse=True):
        L[s:e] = new
    open(f, "w").write("\n".join(L))
print("%d stub(s) differ from the contract they are verified under" % bad)
