//! vx — mechanical extractor / annotator for Verus slices.
//!
//! Reads a slice template (`slices/<name>.vs`).  Everything in the template is copied verbatim to
//! the output except `//@item … //@end` blocks, which are replaced by the *verbatim source text* of
//! the named item taken from the current working tree of the repository, with the fixed set of
//! rewrites documented in DESIGN.md §3.1 (R1–R8) and the ghost text given in the block spliced in.
//!
//! vx never edits an executable expression to make it verify; anything it cannot do mechanically
//! makes it fail with exit code 2 ("undecided: lost anchor / unsupported").
//!
//! Output: the slice (`--out`) and a JSON side-car (`--map`) describing, for every output line,
//! where it came from, plus per item: file, byte range, rewrites applied.

use proc_macro2::Span;
use serde_json::{json, Value};
use std::collections::BTreeMap;
use std::fmt::Write as _;
use std::path::{Path, PathBuf};
use syn::spanned::Spanned;
use syn::visit::Visit;

mod rewrite;

#[derive(Debug, Clone)]
pub struct Edit {
    pub start: usize,
    pub end: usize,
    pub text: String,
    pub kind: String, // "R1 drop", "R2 pub", "sig", "loop:<anchor>" …
    pub prio: i32,    // ordering among edits at the same offset (lower first)
}

fn die(msg: &str) -> ! {
    eprintln!("vx: error: {}", msg);
    std::process::exit(2);
}

#[derive(Default, Debug, Clone)]
struct ItemSpec {
    file: String,
    selector: String,
    mode: String, // verify | trusted | plain
    tmpl_line: usize,
    sig: Vec<String>,
    first: Vec<String>,
    retname: Option<String>,
    ret: Option<String>,
    loops: Vec<(String, Vec<String>)>,
    loop_firsts: Vec<(String, Vec<String>)>,
    optional_loops: Vec<String>,         // `//@loop? "prefix"`: invariants skipped when the loop is gone // ghost text as first statement of the loop body (anchor = loop prefix)
    befores: Vec<(String, Vec<String>)>,
    afters: Vec<(String, Vec<String>)>,
    closures: Vec<(String, Vec<String>)>, // closure anchor (ordinal `N` or key `callee#k`): text spliced between `|..|` and body
    optional_closures: Vec<String>,      // closure anchors whose directives are skipped when the closure is gone
    closure_params: Vec<(String, Vec<String>)>, // closure anchor: explicit parameter types
    drop_derive: Vec<String>,
    viter_skip: Vec<String>,
    forpat: bool,
    fmt_nonempty: bool,
    add_ufcs: bool,
    keep_trait: bool,
    optional_item: bool,                 // `//@item?`: skipped when the selector matches nothing                    // traitfn: emit inside `impl Trait for Type` (not as inherent method)
    param_types: Vec<(String, String)>,   // R12: parameter NAME gets the type TEXT (impl Iterator -> SeqIter)
    viter: bool,                         // apply R5 (iterator entry) to this item
    attrs: Vec<String>,                  // extra attributes (e.g. verifier::rlimit)
    replace_macros: Vec<(String, String)>, // R1b: statement macro -> nothing (named)
    fragment: Option<FragmentSpec>,
    body_only: bool,
}

#[derive(Default, Debug, Clone)]
struct FragmentSpec {
    // R8: lift the n-th closure / an expression with a given prefix into a named fn
    kind: String,   // "closure" | "expr"
    anchor: String, // closure ordinal or expression prefix
    name: String,
    params: String, // parameter list text of the lifted fn (incl. self if needed)
    ret: String,    // return type text
    tail: String,   // `stmt` fragments: tail expression appended after the lifted statement
}

struct Args {
    template: PathBuf,
    repo: PathBuf,
    crates: BTreeMap<String, PathBuf>,
    out: PathBuf,
    map: PathBuf,
    list: Option<(String, String)>,
    canary_out: Option<PathBuf>,
}

fn parse_args() -> Args {
    let mut a = Args {
        template: PathBuf::new(),
        repo: PathBuf::from("/repo"),
        crates: BTreeMap::new(),
        out: PathBuf::new(),
        map: PathBuf::new(),
        list: None,
        canary_out: None,
    };
    let v: Vec<String> = std::env::args().collect();
    let mut i = 1;
    while i < v.len() {
        match v[i].as_str() {
            "--repo" => {
                a.repo = PathBuf::from(&v[i + 1]);
                i += 2;
            }
            "--crate-dir" => {
                let (n, p) = v[i + 1].split_once('=').unwrap_or_else(|| die("--crate-dir name=path"));
                a.crates.insert(n.to_string(), PathBuf::from(p));
                i += 2;
            }
            "--out" => {
                a.out = PathBuf::from(&v[i + 1]);
                i += 2;
            }
            "--map" => {
                a.map = PathBuf::from(&v[i + 1]);
                i += 2;
            }
            "--canary-out" => {
                a.canary_out = Some(PathBuf::from(&v[i + 1]));
                i += 2;
            }
            "--list" => {
                a.list = Some((v[i + 1].clone(), v[i + 2].clone()));
                i += 3;
            }
            s if !s.starts_with("--") && a.template.as_os_str().is_empty() => {
                a.template = PathBuf::from(s);
                i += 1;
            }
            s => die(&format!("unknown argument {}", s)),
        }
    }
    a
}

fn resolve_file(args: &Args, file: &str) -> PathBuf {
    if let Some(rest) = file.strip_prefix('@') {
        let (krate, rel) = rest.split_once('/').unwrap_or_else(|| die("bad @crate path"));
        match args.crates.get(krate) {
            Some(p) => p.join(rel),
            None => die(&format!("no --crate-dir for {}", krate)),
        }
    } else {
        args.repo.join(file)
    }
}

pub fn norm(s: &str) -> String {
    s.split_whitespace().collect::<Vec<_>>().join(" ")
}

fn unquote(s: &str) -> String {
    let s = s.trim();
    if s.len() >= 2 && s.starts_with('"') && s.ends_with('"') {
        s[1..s.len() - 1].to_string()
    } else {
        s.to_string()
    }
}

/// What was found for a selector.
pub enum Found<'a> {
    Item(&'a syn::Item),
    ImplFn(&'a syn::ItemImpl, &'a syn::ImplItemFn),
    ImplConst(&'a syn::ItemImpl, &'a syn::ImplItemConst),
}

fn type_name(ty: &syn::Type) -> String {
    norm(&quote::ToTokens::to_token_stream(ty).to_string()).replace(' ', "")
}

fn find<'a>(file: &'a syn::File, selector: &str) -> Vec<Found<'a>> {
    let sel = norm(selector);
    let mut out = Vec::new();
    let words: Vec<&str> = sel.split(' ').collect();
    if words.len() == 2 && ["struct", "enum", "type", "const", "fn", "trait"].contains(&words[0]) {
        for it in &file.items {
            let ok = match (words[0], it) {
                ("struct", syn::Item::Struct(s)) => s.ident == words[1],
                ("enum", syn::Item::Enum(s)) => s.ident == words[1],
                ("type", syn::Item::Type(s)) => s.ident == words[1],
                ("const", syn::Item::Const(s)) => s.ident == words[1],
                ("fn", syn::Item::Fn(s)) => s.sig.ident == words[1],
                ("trait", syn::Item::Trait(s)) => s.ident == words[1],
                _ => false,
            };
            if ok {
                out.push(Found::Item(it));
            }
        }
        return out;
    }
    if words[0] == "impl" {
        // whole trait impl: `impl Add for Distance`, `impl Add<Duration> for DateTime`
        let want = sel["impl".len()..].replace(' ', "");
        for it in &file.items {
            if let syn::Item::Impl(im) = it {
                if let Some((_, path, _)) = &im.trait_ {
                    let t = norm(&quote::ToTokens::to_token_stream(path).to_string()).replace(' ', "");
                    let have = format!("{}for{}", t, type_name(&im.self_ty));
                    if have == want {
                        out.push(Found::Item(it));
                    }
                }
            }
        }
        return out;
    }
    // `traitfn Type::method` also looks into trait impls of the type
    let (sel, in_traits) = match sel.strip_prefix("traitfn ") {
        Some(r) => (r.to_string(), true),
        None => (sel.clone(), false),
    };
    if let Some((ty, name)) = sel.split_once("::") {
        for it in &file.items {
            if let syn::Item::Impl(im) = it {
                if (im.trait_.is_some() && !in_traits) || type_name(&im.self_ty) != ty {
                    continue;
                }
                for ii in &im.items {
                    match ii {
                        syn::ImplItem::Fn(f) if f.sig.ident == name => out.push(Found::ImplFn(im, f)),
                        syn::ImplItem::Const(c) if c.ident == name => out.push(Found::ImplConst(im, c)),
                        _ => {}
                    }
                }
            }
        }
        return out;
    }
    die(&format!("cannot parse selector `{}`", selector));
}

pub fn br(sp: Span) -> (usize, usize) {
    let r = sp.byte_range();
    (r.start, r.end)
}

fn parse_template(text: &str) -> Vec<Result<String, ItemSpec>> {
    // Ok(line) = verbatim template line; Err(spec) = item block
    let mut out = Vec::new();
    let mut cur: Option<ItemSpec> = None;
    #[derive(Clone)]
    enum Sec {
        None,
        Sig,
        First,
        Loop(usize),
        LoopFirst(usize),
        Before(usize),
        After(usize),
        Closure(usize),
        ClosureParams(usize),
    }
    let mut sec = Sec::None;
    for (ln, line) in text.lines().enumerate() {
        let t = line.trim_start();
        if let Some(rest) = t.strip_prefix("//@") {
            let rest = rest.trim();
            let (cmd, arg) = match rest.split_once(char::is_whitespace) {
                Some((c, a)) => (c, a.trim()),
                None => (rest, ""),
            };
            match cmd {
                "item" | "item?" => {
                    if cur.is_some() {
                        die(&format!("template line {}: nested //@item", ln + 1));
                    }
                    let mut spec = ItemSpec {
                        tmpl_line: ln + 1,
                        mode: "verify".into(),
                        ..Default::default()
                    };
                    let (main, mode) = match arg.rsplit_once(" : ") {
                        Some((m, md)) => (m.trim(), md.trim()),
                        None => (arg, "verify"),
                    };
                    let (file, selector) =
                        main.split_once(char::is_whitespace).unwrap_or_else(|| die("//@item file selector"));
                    spec.file = file.to_string();
                    spec.selector = selector.trim().to_string();
                    spec.mode = mode.to_string();
                    spec.optional_item = cmd == "item?";
                    if !["verify", "trusted", "plain"].contains(&spec.mode.as_str()) {
                        die(&format!("template line {}: unknown mode {}", ln + 1, spec.mode));
                    }
                    cur = Some(spec);
                    sec = Sec::None;
                }
                "frag" => {
                    if cur.is_some() {
                        die(&format!("template line {}: nested //@frag", ln + 1));
                    }
                    // //@frag <file> <selector> : <arg METHOD K | closure N | let NAME> as <name>
                    let (main, fr) = arg.rsplit_once(" : ").unwrap_or_else(|| die("//@frag file selector : kind anchor as name"));
                    let (file, selector) = main.trim().split_once(char::is_whitespace).unwrap_or_else(|| die("//@frag file selector"));
                    let (what, name) = fr.rsplit_once(" as ").unwrap_or_else(|| die("//@frag ... as name"));
                    let (kind, anchor) = what.trim().split_once(char::is_whitespace).unwrap_or_else(|| die("//@frag kind anchor"));
                    let mut spec = ItemSpec { tmpl_line: ln + 1, mode: "verify".into(), ..Default::default() };
                    spec.file = file.to_string();
                    spec.selector = selector.trim().to_string();
                    spec.fragment = Some(FragmentSpec { kind: kind.to_string(), anchor: anchor.trim().to_string(), name: name.trim().to_string(), params: String::new(), ret: String::new(), tail: String::new() });
                    cur = Some(spec);
                    sec = Sec::None;
                }
                "skeleton" => {
                    // //@skeleton <file> <selector> : hole; hole; ... = <hash>
                    let (main, rest) = arg.split_once(" : ").unwrap_or_else(|| die("//@skeleton file selector : holes = hash"));
                    let (holes, hash) = rest.rsplit_once(" = ").unwrap_or_else(|| die("//@skeleton ... = hash"));
                    let (file, selector) = main.trim().split_once(char::is_whitespace).unwrap_or_else(|| die("//@skeleton file selector"));
                    let mut spec = ItemSpec { tmpl_line: ln + 1, mode: "skeleton".into(), ..Default::default() };
                    spec.file = file.to_string();
                    spec.selector = selector.trim().to_string();
                    spec.sig = holes.split(';').map(|h| h.trim().to_string()).filter(|h| !h.is_empty()).collect();
                    spec.ret = Some(hash.trim().to_string());
                    out.push(Err(spec));
                }
                "end" => {
                    match cur.take() {
                        Some(s) => out.push(Err(s)),
                        None => die(&format!("template line {}: //@end without //@item", ln + 1)),
                    }
                    sec = Sec::None;
                }
                _ => {
                    let spec = cur
                        .as_mut()
                        .unwrap_or_else(|| die(&format!("template line {}: directive outside item", ln + 1)));
                    match cmd {
                        "sig" => sec = Sec::Sig,
                        "first" => sec = Sec::First,
                        "retname" => spec.retname = Some(arg.to_string()),
                        "params" => { if let Some(f) = spec.fragment.as_mut() { f.params = arg.to_string(); } else { die("//@params outside //@frag"); } }
                        "tail" => { if let Some(f) = spec.fragment.as_mut() { f.tail = arg.to_string(); } else { die("//@tail outside //@frag"); } }
                        "ret" => { if let Some(f) = spec.fragment.as_mut() { f.ret = arg.to_string(); } else { spec.ret = Some(arg.to_string()); } }
                        "viter" => spec.viter = true,
                        "viter-skip" => spec.viter_skip.push(arg.to_string()),
                        "forpat" => spec.forpat = true,
                        "fmt-nonempty" => spec.fmt_nonempty = true,
                        "add-ufcs" => spec.add_ufcs = true,
                        "keep-trait" => spec.keep_trait = true,
                        "param-type" => { let (n, t) = arg.split_once(char::is_whitespace).unwrap_or_else(|| die("//@param-type NAME TYPE")); spec.param_types.push((n.trim().to_string(), t.trim().to_string())); }
                        "drop-derive" => spec.drop_derive.push(arg.to_string()),
                        "attr" => spec.attrs.push(arg.to_string()),
                        "loop-first" => {
                            spec.loop_firsts.push((unquote(arg), Vec::new()));
                            sec = Sec::LoopFirst(spec.loop_firsts.len() - 1);
                        }
                        "loop" | "loop?" => {
                            if cmd == "loop?" { spec.optional_loops.push(unquote(arg)); }
                            spec.loops.push((unquote(arg), Vec::new()));
                            sec = Sec::Loop(spec.loops.len() - 1);
                        }
                        "before" => {
                            spec.befores.push((unquote(arg), Vec::new()));
                            sec = Sec::Before(spec.befores.len() - 1);
                        }
                        "after" => {
                            spec.afters.push((unquote(arg), Vec::new()));
                            sec = Sec::After(spec.afters.len() - 1);
                        }
                        "closure?" | "closure-params?" => {
                            let n: String = arg.to_string();
                            if !spec.optional_closures.contains(&n) { spec.optional_closures.push(n.clone()); }
                            if cmd == "closure?" {
                                spec.closures.push((n, Vec::new()));
                                sec = Sec::Closure(spec.closures.len() - 1);
                            } else {
                                spec.closure_params.push((n, Vec::new()));
                                sec = Sec::ClosureParams(spec.closure_params.len() - 1);
                            }
                        }
                        "closure" => {
                            let n: String = arg.to_string();
                            spec.closures.push((n, Vec::new()));
                            sec = Sec::Closure(spec.closures.len() - 1);
                        }
                        "closure-params" => {
                            let n: String = arg.to_string();
                            spec.closure_params.push((n, Vec::new()));
                            sec = Sec::ClosureParams(spec.closure_params.len() - 1);
                        }
                        "fragment" => {
                            // //@fragment closure 0 name | params | ret   or   expr "prefix" name | params | ret
                            let parts: Vec<&str> = arg.split('|').map(|s| s.trim()).collect();
                            if parts.len() != 3 {
                                die("//@fragment <closure n|expr \"prefix\"> <name> | <params> | <ret>");
                            }
                            let head = parts[0];
                            let (kind, rest) = head.split_once(char::is_whitespace).unwrap();
                            let rest = rest.trim();
                            let (anchor, name) = if kind == "expr" {
                                let end = rest[1..].find('"').unwrap_or_else(|| die("fragment expr needs quoted prefix")) + 1;
                                (rest[1..end].to_string(), rest[end + 1..].trim().to_string())
                            } else {
                                let (a, n) = rest.split_once(char::is_whitespace).unwrap();
                                (a.to_string(), n.trim().to_string())
                            };
                            spec.fragment = Some(FragmentSpec {
                                kind: kind.to_string(),
                                anchor,
                                name,
                                params: parts[1].to_string(),
                                ret: parts[2].to_string(),
                                tail: String::new(),
                            });
                        }
                        _ => die(&format!("template line {}: unknown directive {}", ln + 1, cmd)),
                    }
                }
            }
            continue;
        }
        match cur.as_mut() {
            None => out.push(Ok(line.to_string())),
            Some(spec) => match sec.clone() {
                Sec::None => {
                    if !t.is_empty() {
                        die(&format!("template line {}: text inside item before any section", ln + 1));
                    }
                }
                Sec::Sig => spec.sig.push(line.to_string()),
                Sec::First => spec.first.push(line.to_string()),
                Sec::Loop(i) => spec.loops[i].1.push(line.to_string()),
                Sec::LoopFirst(i) => spec.loop_firsts[i].1.push(line.to_string()),
                Sec::Before(i) => spec.befores[i].1.push(line.to_string()),
                Sec::After(i) => spec.afters[i].1.push(line.to_string()),
                Sec::Closure(i) => spec.closures[i].1.push(line.to_string()),
                Sec::ClosureParams(i) => spec.closure_params[i].1.push(line.to_string()),
            },
        }
    }
    if cur.is_some() {
        die("template: unterminated //@item");
    }
    out
}

struct Emit {
    text: String,
    line: usize, // next output line (1-based)
    segments: Vec<Value>,
    canaries: Vec<(usize, String, String)>, // byte offset in text, canary name, canary text
}

impl Emit {
    fn push(&mut self, s: &str, origin: Value) {
        if s.is_empty() {
            return;
        }
        let n = s.matches('\n').count();
        let mut o = origin;
        o["out_line"] = json!(self.line);
        o["n_lines"] = json!(n.max(1));
        self.segments.push(o);
        self.text.push_str(s);
        self.line += n;
    }
}

fn line_of(src: &str, off: usize) -> usize {
    src[..off].matches('\n').count() + 1
}

fn main() {
    let args = parse_args();
    if let Some((file, selector)) = &args.list {
        list_item(&args, file, selector);
        return;
    }
    let tmpl_text = std::fs::read_to_string(&args.template)
        .unwrap_or_else(|e| die(&format!("cannot read template {:?}: {}", args.template, e)));
    let inc_root = args.template.parent().and_then(|p| p.parent()).map(|p| p.to_path_buf()).unwrap_or_default();
    let tmpl_text = expand_includes(&tmpl_text, &inc_root, 0);
    let parts = parse_template(&tmpl_text);

    let mut cache: BTreeMap<PathBuf, (String, syn::File)> = BTreeMap::new();
    let mut em = Emit {
        text: String::new(),
        line: 1,
        segments: Vec::new(),
        canaries: Vec::new(),
    };
    let mut items_json = Vec::new();
    let mut tmpl_line = 0usize;
    for part in parts {
        match part {
            Ok(line) => {
                tmpl_line += 1;
                let _ = tmpl_line;
                em.push(&(line + "\n"), json!({"kind": "template"}));
            }
            Err(spec) => {
                let path = resolve_file(&args, &spec.file);
                if !cache.contains_key(&path) {
                    let src = std::fs::read_to_string(&path)
                        .unwrap_or_else(|e| die(&format!("cannot read {:?}: {}", path, e)));
                    let parsed = syn::parse_file(&src)
                        .unwrap_or_else(|e| die(&format!("cannot parse {:?}: {}", path, e)));
                    cache.insert(path.clone(), (src, parsed));
                }
                let (src, parsed) = cache.get(&path).unwrap();
                emit_item(&mut em, &spec, &path, src, parsed, &mut items_json);
            }
        }
    }
    std::fs::write(&args.out, &em.text).unwrap_or_else(|e| die(&format!("write {:?}: {}", args.out, e)));
    let mut canary_names = Vec::new();
    if let Some(cp) = &args.canary_out {
        let mut t = String::new();
        let mut pos = 0usize;
        for (off, name, text) in &em.canaries {
            t.push_str(&em.text[pos..*off]);
            t.push_str(text);
            pos = *off;
            canary_names.push(name.clone());
        }
        t.push_str(&em.text[pos..]);
        std::fs::write(cp, t).unwrap_or_else(|e| die(&format!("write {:?}: {}", cp, e)));
    }
    let map = json!({
        "canaries": canary_names,
        "template": args.template.to_string_lossy(),
        "items": items_json,
        "segments": em.segments,
    });
    std::fs::write(&args.map, serde_json::to_string_pretty(&map).unwrap())
        .unwrap_or_else(|e| die(&format!("write {:?}: {}", args.map, e)));
}

fn expand_includes(text: &str, root: &Path, depth: usize) -> String {
    expand_includes_mode(text, root, depth, false)
}

fn expand_includes_mode(text: &str, root: &Path, depth: usize, trusted: bool) -> String {
    if depth > 8 {
        die("//@include nesting too deep");
    }
    let mut out = String::new();
    for line in text.lines() {
        if let Some(rest) = line.trim_start().strip_prefix("//@include") {
            // `//@include-proved F`: the proof fns of F are proved in F's home slice (the one that includes F plainly);
            // here their bodies are not re-checked (external_body): smaller, more stable queries (R7a for lemmas)
            let (rest, proved) = match rest.strip_prefix("-proved") {
                Some(r) => (r, true),
                None => (rest, false),
            };
            let (rest, sub_trusted) = match rest.strip_prefix("-trusted") {
                Some(r) => (r, true),
                None => (rest, trusted),
            };
            let p = root.join(rest.trim());
            let mut inc = std::fs::read_to_string(&p).unwrap_or_else(|e| die(&format!("cannot include {:?}: {}", p, e)));
            if proved {
                let mut t = String::new();
                for l in inc.lines() {
                    if l.starts_with("pub proof fn ") || l.starts_with("pub broadcast proof fn ") || l.starts_with("proof fn ") {
                        t.push_str("#[verifier::external_body] /* include-proved: body proved in the home slice of this file */\n");
                    }
                    t.push_str(l);
                    t.push('\n');
                }
                inc = t;
            }
            out.push_str(&format!("// ---- begin include {} ----\n", rest.trim()));
            out.push_str(&expand_includes_mode(&inc, root, depth + 1, sub_trusted));
            out.push_str(&format!("// ---- end include {} ----\n", rest.trim()));
        } else if trusted && line.trim_start().starts_with("//@item") && !line.contains(" : ") {
            out.push_str(line.trim_end());
            out.push_str(" : trusted\n");
        } else {
            out.push_str(line);
            out.push('\n');
        }
    }
    out
}

fn list_item(args: &Args, file: &str, selector: &str) {
    let path = resolve_file(args, file);
    let src = std::fs::read_to_string(&path).unwrap_or_else(|e| die(&format!("{:?}: {}", path, e)));
    let parsed = syn::parse_file(&src).unwrap_or_else(|e| die(&format!("parse: {}", e)));
    let found = find(&parsed, selector);
    for f in found {
        let block: Option<&syn::Block> = match &f {
            Found::ImplFn(_, func) => Some(&func.block),
            Found::Item(syn::Item::Fn(func)) => Some(&*func.block),
            _ => None,
        };
        if let Some(block) = block {
            let mut c = rewrite::Collector::default();
            c.visit_block(block);
            for (i, s) in c.stmts.iter().enumerate() {
                let (a, b) = *s;
                println!("stmt {:3}: {}", i, norm(&src[a..b]).chars().take(100).collect::<String>());
            }
            for (i, s) in c.closures.iter().enumerate() {
                println!("closure {:3} [{}]: {}", i, c.closure_nodes[i].key, norm(&src[s.0..s.1]).chars().take(100).collect::<String>());
            }
        }
    }
}

fn apply_edits(src: &str, start: usize, end: usize, edits: &mut Vec<Edit>, em: &mut Emit, file: &str) {
    edits.sort_by(|a, b| (a.start, a.prio, a.end).cmp(&(b.start, b.prio, b.end)));
    let mut pos = start;
    for e in edits.iter() {
        if e.start < pos {
            die(&format!(
                "overlapping edits in {} at byte {} ({}): previous edit ends at {}",
                file, e.start, e.kind, pos
            ));
        }
        if e.end > end {
            die(&format!("edit beyond item end in {} ({})", file, e.kind));
        }
        if e.start > pos {
            em.push(
                &src[pos..e.start],
                json!({"kind": "verbatim", "file": file, "src_line": line_of(src, pos)}),
            );
        }
        if !e.text.is_empty() {
            em.push(
                &e.text,
                json!({"kind": e.kind, "file": file, "src_line": line_of(src, e.start)}),
            );
        }
        pos = e.end;
    }
    if pos < end {
        em.push(
            &src[pos..end],
            json!({"kind": "verbatim", "file": file, "src_line": line_of(src, pos)}),
        );
    }
}

fn fnv64(s: &str) -> String {
    let mut h: u64 = 0xcbf29ce484222325;
    for b in s.bytes() {
        h ^= b as u64;
        h = h.wrapping_mul(0x100000001b3);
    }
    format!("{:016x}", h)
}

/// locate a fragment inside a function body: returns its byte span
fn locate_fragment(c: &rewrite::Collector, src: &str, kind: &str, anchor: &str, sel: &str) -> (usize, usize) {
    match kind {
        "arg" => {
            let (m, k) = anchor.split_once(char::is_whitespace).unwrap_or_else(|| die("fragment: arg METHOD K"));
            let k: usize = k.trim().parse().unwrap_or_else(|_| die("fragment: arg METHOD K"));
            let hits: Vec<&(String, Vec<(usize, usize)>)> = c.method_calls.iter().filter(|(n, _)| n == m).collect();
            if hits.len() != 1 || hits[0].1.len() <= k {
                die(&format!("lost anchor: {} has {} calls of `.{}` (need exactly one with > {} arguments)", sel, hits.len(), m, k));
            }
            hits[0].1[k]
        }
        "recv" => {
            // receiver of the K-th (pre-order) call of `.METHOD(..)`
            let (m, k) = anchor.split_once(char::is_whitespace).unwrap_or_else(|| die("fragment: recv METHOD K"));
            let k: usize = k.trim().parse().unwrap_or_else(|_| die("fragment: recv METHOD K"));
            let hits: Vec<&(String, (usize, usize))> = c.method_recvs.iter().filter(|(n, _)| n == m).collect();
            if hits.len() <= k {
                die(&format!("lost anchor: {} has {} calls of `.{}` (need > {})", sel, hits.len(), m, k));
            }
            hits[k].1
        }
        "closure" => {
            let found = match anchor.parse::<usize>() {
                Ok(n) => c.closure_nodes.get(n),
                Err(_) => c.closure_nodes.iter().find(|cl| cl.key == anchor),
            };
            match found {
                Some(cl) => cl.body,
                None => die(&format!("lost anchor: {} has no closure {}", sel, anchor)),
            }
        }
        "let" => {
            // `let NAME` (must be unique) or `let NAME K` (K-th `let NAME = …` in pre-order)
            let (name, k) = match anchor.split_once(char::is_whitespace) {
                Some((n, k)) => (n, Some(k.trim().parse::<usize>().unwrap_or_else(|_| die("fragment: let NAME K")))),
                None => (anchor, None),
            };
            let hits: Vec<&(String, (usize, usize))> = c.lets.iter().filter(|(n, _)| n == name).collect();
            match k {
                Some(k) if k < hits.len() => hits[k].1,
                None if hits.len() == 1 => hits[0].1,
                _ => die(&format!("lost anchor: {} has {} `let {} = ...` statements", sel, hits.len(), name)),
            }
        }
        "stmt" => {
            // `stmt "PREFIX"`: the unique statement whose normalised text starts with PREFIX (R8 for a statement:
            // the lifted fn takes the variables it writes as `mut` parameters and returns them via //@tail)
            let a = unquote(anchor);
            let hits: Vec<&(usize, usize)> = c.stmts.iter().filter(|(s, e)| norm(&src[*s..*e]).starts_with(&norm(&a))).collect();
            if hits.len() != 1 {
                die(&format!("lost anchor: {} has {} statements starting with `{}`", sel, hits.len(), a));
            }
            *hits[0]
        }
        _ => die(&format!("unknown fragment kind {}", kind)),
    }
}

fn emit_fragment(em: &mut Emit, spec: &ItemSpec, src: &str, parsed: &syn::File, items_json: &mut Vec<Value>) {
    let found = find(parsed, &spec.selector);
    if found.len() != 1 {
        die(&format!("lost anchor: selector `{}` matches {} items (template line {})", spec.selector, found.len(), spec.tmpl_line));
    }
    let (impl_ty, f_sig, f_block, f_span): (Option<String>, &syn::Signature, &syn::Block, proc_macro2::Span) = match &found[0] {
        Found::ImplFn(im, f) => (Some(type_name(&im.self_ty)), &f.sig, &f.block, f.span()),
        Found::Item(syn::Item::Fn(f)) => (None, &f.sig, &*f.block, f.span()),
        _ => die("fragments are only supported for functions and methods"),
    };
    let mut c = rewrite::Collector::default();
    c.visit_block(f_block);
    if spec.mode == "skeleton" {
        let mut holes: Vec<(usize, usize)> = Vec::new();
        for h in &spec.sig {
            let (kind, anchor) = h.split_once(char::is_whitespace).unwrap_or_else(|| die("skeleton hole: kind anchor"));
            let (a, b) = locate_fragment(&c, src, kind, anchor.trim(), &spec.selector);
            // a `let` hole also covers `: TYPE =` (the annotation, if there is one, is compared with the
            // fragment's return type when the fragment is emitted), so `let x: T = e` and `let x = e as T`
            // have the same skeleton
            let a = if kind == "let" {
                c.lets.iter().position(|(_, sp)| *sp == (a, b)).map(|i| c.let_heads[i].0).unwrap_or(a)
            } else { a };
            holes.push((a, b));
        }
        holes.sort();
        let (_, fe) = br(f_span);
        let fs = br(f_sig.span()).0; // doc comments / attributes / visibility are not part of the skeleton
        let mut t = String::new();
        let mut pos = fs;
        for (a, b) in &holes {
            if *a < pos { die("skeleton: overlapping holes"); }
            t.push_str(&src[pos..*a]);
            t.push_str(" __VX_HOLE__ ");
            pos = *b;
        }
        t.push_str(&src[pos..fe]);
        // hash the token stream, not the text: comments and layout are not part of the skeleton
        let t = match t.parse::<proc_macro2::TokenStream>() {
            Ok(ts) => ts.to_string().replace("__VX_HOLE__", "<HOLE>"),
            Err(_) => norm(&t).replace("__VX_HOLE__", "<HOLE>"),
        };
        let h = fnv64(&norm(&t));
        let want = spec.ret.clone().unwrap_or_default();
        if h != want {
            die(&format!("lost anchor: skeleton of {} changed (plumbing around the lifted fragments): recorded {} actual {}\n{}", spec.selector, want, h, norm(&t)));
        }
        em.push(&format!("// skeleton of {} {} unchanged ({}): {}\n", spec.file, spec.selector, h, norm(&t)), json!({"kind": "marker"}));
        items_json.push(json!({"file": spec.file, "path": "", "selector": format!("{} [skeleton]", spec.selector), "mode": "skeleton",
            "byte_start": fs, "byte_end": fe, "src_line_start": line_of(src, fs), "src_line_end": line_of(src, fe),
            "out_line_start": em.line - 1, "out_line_end": em.line - 1, "rewrites": [format!("R8 skeleton hash {}", h)], "template_line": spec.tmpl_line}));
        return;
    }
    let fr = spec.fragment.as_ref().unwrap();
    let (s, e) = locate_fragment(&c, src, &fr.kind, &fr.anchor, &spec.selector);
    if fr.kind == "let" {
        // the type annotation of the real `let` (outside the lifted span) must be the fragment's return type
        if let Some(i) = c.lets.iter().position(|(_, sp)| *sp == (s, e)) {
            if let Some((ts, te)) = c.let_heads[i].1 {
                let ann = norm(&src[ts..te]).replace(' ', "");
                let ret = fr.ret.trim().trim_start_matches('(').trim_end_matches(')');
                let ret = ret.split_once(':').map(|(_, t)| t).unwrap_or(ret);
                let ret = norm(ret).replace(' ', "");
                if ann != ret {
                    die(&format!("lost anchor: `let {}` of {} is annotated `{}`, the fragment returns `{}`", fr.anchor, spec.selector, ann, ret));
                }
            }
        }
    }
    let out_start = em.line;
    em.push(&format!("//@begin-fragment {} {} [{} {}] as {} src_lines={}-{}\n", spec.file, spec.selector, fr.kind, fr.anchor, fr.name, line_of(src, s), line_of(src, e)), json!({"kind": "marker"}));
    let mut head = match &impl_ty {
        Some(t) => format!("impl {} {{\n", t),
        None => String::new(),
    };
    for a in &spec.attrs {
        let _ = writeln!(head, "#[{}]", a);
    }
    let _ = write!(head, "pub fn {}({}) -> {}\n", fr.name, fr.params, fr.ret);
    em.push(&head, json!({"kind": "R8 fragment head"}));
    let mut t = String::new();
    for l in &spec.sig { t.push_str(l); t.push('\n'); }
    em.push(&t, json!({"kind": "sig"}));
    em.push("{\n", json!({"kind": "wrap"}));
    let mut t = String::new();
    for l in &spec.first { t.push_str(l); t.push('\n'); }
    em.push(&t, json!({"kind": "first"}));
    // rewrites inside the lifted span: closure contracts / parameter types (anchors refer to the closures of
    // the HOST function), R5 iterator entry, R6 for-patterns, R9
    let mut frag_edits: Vec<Edit> = Vec::new();
    let mut frag_rewrites: Vec<String> = Vec::new();
    // closure anchors `local#K`: the K-th closure INSIDE the lifted span (independent of closures elsewhere in the host)
    let mut lspec = spec.clone();
    let inside: Vec<usize> = c.closure_nodes.iter().enumerate().filter(|(_, cl)| cl.span.0 >= s && cl.span.1 <= e).map(|(i, _)| i).collect();
    let tr = |k: &String| -> String {
        match k.strip_prefix("local#").and_then(|n| n.parse::<usize>().ok()) {
            Some(n) => match inside.get(n) { Some(g) => g.to_string(), None => format!("{} (no such closure inside the fragment)", k) },
            None => k.clone(),
        }
    };
    for (k, _) in lspec.closures.iter_mut() { *k = tr(k); }
    for (k, _) in lspec.closure_params.iter_mut() { *k = tr(k); }
    for k in lspec.optional_closures.iter_mut() { *k = tr(k); }
    let spec = &lspec;
    hint_edits(spec, src, &c, &mut frag_edits);
    rewrite::drop_print_stmts(f_block, src, &mut frag_edits, &mut frag_rewrites); // R1 inside the lifted span
    inner_edits(spec, src, f_block, &c, &mut frag_edits, &mut frag_rewrites);
    frag_edits.retain(|ed| ed.start >= s && ed.end <= e);
    apply_edits(src, s, e, &mut frag_edits, em, &spec.file);
    if !fr.tail.is_empty() {
        em.push(&format!("\n{}\n", fr.tail), json!({"kind": "R8 tail"}));
    }
    em.push(if impl_ty.is_some() { "\n}\n}\n//@end\n" } else { "\n}\n//@end\n" }, json!({"kind": "wrap"}));
    items_json.push(json!({"file": spec.file, "path": "", "selector": format!("{} [{} {}]", spec.selector, fr.kind, fr.anchor), "mode": "fragment",
        "byte_start": s, "byte_end": e, "src_line_start": line_of(src, s), "src_line_end": line_of(src, e),
        "out_line_start": out_start, "out_line_end": em.line - 1,
        "rewrites": [format!("R8 fragment `{}` lifted into fn {}({}) -> {}", norm(&src[s..e]).chars().take(80).collect::<String>(), fr.name, fr.params, fr.ret)],
        "template_line": spec.tmpl_line}));
}

fn emit_item(
    em: &mut Emit,
    spec: &ItemSpec,
    path: &Path,
    src: &str,
    parsed: &syn::File,
    items_json: &mut Vec<Value>,
) {
    if spec.fragment.is_some() || spec.mode == "skeleton" {
        emit_fragment(em, spec, src, parsed, items_json);
        let n = items_json.len();
        items_json[n - 1]["path"] = json!(path.to_string_lossy());
        return;
    }
    let file = spec.file.as_str();
    rewrite::DROP_DERIVES.with(|d| *d.borrow_mut() = spec.drop_derive.clone());
    rewrite::VITER_SKIP.with(|d| *d.borrow_mut() = spec.viter_skip.clone());
    let found = find(parsed, &spec.selector);
    if found.is_empty() && spec.optional_item {
        em.push(&format!("// optional item {} {} not present in the source: skipped\n", spec.file, spec.selector), json!({"kind": "marker"}));
        return;
    }
    if found.len() != 1 {
        die(&format!(
            "lost anchor: selector `{}` matches {} items in {:?} (template line {})",
            spec.selector,
            found.len(),
            path,
            spec.tmpl_line
        ));
    }
    let mut edits: Vec<Edit> = Vec::new();
    let mut rewrites: Vec<String> = Vec::new();
    let (start, end, wrap): (usize, usize, Option<String>) = match &found[0] {
        Found::Item(it) => {
            let (s, e) = br(it.span());
            rewrite::item_rewrites(it, src, spec_mode(spec), &mut edits, &mut rewrites);
            if let syn::Item::Fn(f) = it {
                fn_edits(spec, src, &f.sig, &f.block, &mut edits, &mut rewrites, false);
                let mut pre = String::new();
                for a in &spec.attrs {
                    let _ = writeln!(pre, "#[{}]", a);
                }
                if spec.mode == "trusted" {
                    pre.push_str("#[verifier::external_body]\n");
                }
                if !pre.is_empty() {
                    edits.push(Edit { start: s, end: s, text: pre, kind: "attr".into(), prio: -10 });
                }
            } else if !spec.attrs.is_empty() {
                let mut pre = String::new();
                for a in &spec.attrs {
                    let _ = writeln!(pre, "#[{}]", a);
                }
                edits.push(Edit { start: s, end: s, text: pre, kind: "attr".into(), prio: -10 });
            }
            (s, e, None)
        }
        Found::ImplFn(im, f) => {
            let (s, e) = br(f.span());
            rewrite::attr_edits(&f.attrs, src, &mut edits, &mut rewrites);
            let as_trait = spec.keep_trait && im.trait_.is_some();
            if !as_trait {
                rewrite::vis_edit(&f.vis, br(f.sig.span()).0, &mut edits, &mut rewrites);
            }
            if spec.mode != "trusted" {
                rewrite::drop_print_stmts(&f.block, src, &mut edits, &mut rewrites);
            }
            fn_edits(spec, src, &f.sig, &f.block, &mut edits, &mut rewrites, true);
            let mut pre = String::new();
            for a in &spec.attrs {
                let _ = writeln!(pre, "#[{}]", a);
            }
            if spec.mode == "trusted" {
                pre.push_str("#[verifier::external_body]\n");
            }
            if !pre.is_empty() {
                edits.push(Edit { start: s, end: s, text: pre, kind: "attr".into(), prio: -10 });
            }
            let generics = quote::ToTokens::to_token_stream(&im.generics).to_string();
            if as_trait {
                let tp = norm(&quote::ToTokens::to_token_stream(&im.trait_.as_ref().unwrap().1).to_string()).replace(" < ", "<").replace(" >", ">");
                (s, e, Some(format!("impl{} {} for {} {{\n", generics, tp, type_name(&im.self_ty))))
            } else {
                (s, e, Some(format!("impl{} {} {{\n", generics, type_name(&im.self_ty))))
            }
        }
        Found::ImplConst(im, c) => {
            let (s, e) = br(c.span());
            rewrite::attr_edits(&c.attrs, src, &mut edits, &mut rewrites);
            rewrite::vis_edit(&c.vis, br(c.const_token.span()).0, &mut edits, &mut rewrites);
            (s, e, Some(format!("impl {} {{\n", type_name(&im.self_ty))))
        }
    };
    let out_start = em.line;
    em.push(
        &format!(
            "//@begin {} {} mode={} src_lines={}-{}\n",
            spec.file,
            spec.selector,
            spec.mode,
            line_of(src, start),
            line_of(src, end)
        ),
        json!({"kind": "marker"}),
    );
    if let Some(w) = &wrap {
        em.push(w, json!({"kind": "wrap"}));
    }
    apply_edits(src, start, end, &mut edits, em, file);
    em.push("\n", json!({"kind": "wrap"}));
    if wrap.is_some() {
        em.push("}\n", json!({"kind": "wrap"}));
    }
    em.push("//@end\n", json!({"kind": "marker"}));
    if let Some((name, text)) = canary_for(spec, src, &found[0], items_json.len()) {
        em.canaries.push((em.text.len(), name, text));
    }
    items_json.push(json!({
        "file": spec.file,
        "path": path.to_string_lossy(),
        "selector": spec.selector,
        "mode": spec.mode,
        "byte_start": start,
        "byte_end": end,
        "src_line_start": line_of(src, start),
        "src_line_end": line_of(src, end),
        "out_line_start": out_start,
        "out_line_end": em.line - 1,
        "rewrites": rewrites,
        "template_line": spec.tmpl_line,
        "contract": fnv64(&norm(&spec.sig.iter().map(|l| match l.find("// @obl") { Some(i) => l[..i].to_string(), None => l.clone() }).collect::<Vec<_>>().join(" "))),
        "contract_req": fnv64(&norm(&split_contract(&spec.sig).0)),
        "contract_ens_lines": split_contract(&spec.sig).1.lines().map(|l| norm(l)).filter(|l| !l.is_empty()).map(|l| fnv64(&l)).collect::<Vec<_>>(),
    }));
}

fn spec_mode(spec: &ItemSpec) -> &str {
    spec.mode.as_str()
}

/// Edits that apply to a function: contract splice, return naming, loop invariants, proof blocks,
/// stub body replacement.
fn fn_edits(
    spec: &ItemSpec,
    src: &str,
    sig: &syn::Signature,
    block: &syn::Block,
    edits: &mut Vec<Edit>,
    rewrites: &mut Vec<String>,
    _in_impl: bool,
) {
    let (bstart, bend) = br(block.span());
    // return naming / replacement
    if let syn::ReturnType::Type(_, ty) = &sig.output {
        let (ts, te) = br(ty.span());
        if let Some(r) = &spec.ret {
            let name = spec.retname.clone().unwrap_or_else(|| "r".into());
            edits.push(Edit { start: ts, end: te, text: format!("({}: {})", name, r), kind: "R7 ret".into(), prio: 0 });
            rewrites.push(format!("R7 return type `{}` -> `{}`", norm(&src[ts..te]), r));
        } else if let Some(name) = &spec.retname {
            edits.push(Edit { start: ts, end: ts, text: format!("({}: ", name), kind: "R4 retname".into(), prio: 0 });
            edits.push(Edit { start: te, end: te, text: ")".into(), kind: "R4 retname".into(), prio: 0 });
        }
    } else if spec.retname.is_some() || spec.ret.is_some() {
        die(&format!("{}: //@retname on a function without return type", spec.selector));
    }
    // R12: parameter type replacement (only `impl Iterator<..>` parameters, A-iter)
    for (pname, pty) in &spec.param_types {
        let mut found = false;
        for inp in sig.inputs.iter() {
            if let syn::FnArg::Typed(pt) = inp {
                if let syn::Pat::Ident(pi) = &*pt.pat {
                    if pi.ident == pname {
                        let (ts, te) = br(pt.ty.span());
                        if !matches!(&*pt.ty, syn::Type::ImplTrait(_)) {
                            die(&format!("{}: //@param-type {}: only `impl Trait` parameters may be retyped", spec.selector, pname));
                        }
                        edits.push(Edit { start: ts, end: te, text: pty.clone(), kind: "R12 param type".into(), prio: 0 });
                        rewrites.push(format!("R12 parameter `{}: {}` -> `{}`", pname, norm(&src[ts..te]), pty));
                        found = true;
                    }
                }
            }
        }
        if !found { die(&format!("lost anchor: parameter {} in {}", pname, spec.selector)); }
    }
    // contract
    if !spec.sig.is_empty() {
        let mut t = String::from("\n");
        for l in &spec.sig {
            t.push_str(l);
            t.push('\n');
        }
        edits.push(Edit { start: bstart, end: bstart, text: t, kind: "sig".into(), prio: 5 });
    }
    if spec.mode == "trusted" {
        edits.push(Edit { start: bstart, end: bend, text: "{ unimplemented!() }".into(), kind: "R7 stub".into(), prio: 6 });
        rewrites.push("R7 body replaced by unimplemented!() under external_body".into());
        return;
    }
    if !spec.first.is_empty() {
        let mut t = String::from("\n");
        for l in &spec.first {
            t.push_str(l);
            t.push('\n');
        }
        edits.push(Edit { start: bstart + 1, end: bstart + 1, text: t, kind: "first".into(), prio: 3 });
    }
    let mut c = rewrite::Collector::default();
    c.visit_block(block);
    hint_edits(spec, src, &c, edits);
    inner_edits(spec, src, block, &c, edits, rewrites);
}

/// loop invariants and before/after hints (shared by whole functions and lifted fragments)
fn hint_edits(spec: &ItemSpec, src: &str, c: &rewrite::Collector, edits: &mut Vec<Edit>) {
    // loops
    for (anchor, lines) in &spec.loops {
        let hits: Vec<&(usize, usize, usize)> = c
            .loops
            .iter()
            .filter(|(s, e, _)| norm(&src[*s..*e]).starts_with(&norm(anchor)))
            .collect();
        if hits.is_empty() && spec.optional_loops.contains(anchor) {
            continue; // the loop is gone: the function is verified without the invariant
        }
        if hits.len() != 1 {
            die(&format!("lost anchor: loop `{}` in {} matches {} loops", anchor, spec.selector, hits.len()));
        }
        let body_start = hits[0].2;
        let mut t = String::from("\n");
        for l in lines {
            t.push_str(l);
            t.push('\n');
        }
        edits.push(Edit { start: body_start, end: body_start, text: t, kind: format!("loop:{}", anchor), prio: 5 });
        // a `for` loop under contract gets its ghost iterator named `it` (ghost-only, R4)
        if let Some((_, es)) = c.for_exprs.iter().find(|(ls, _)| *ls == hits[0].0) {
            edits.push(Edit { start: *es, end: *es, text: "it: ".into(), kind: "R4 for-iterator name".into(), prio: 0 });
        }
    }
    for (anchor, lines) in &spec.loop_firsts {
        let hits: Vec<&(usize, usize, usize)> = c.loops.iter().filter(|(s, e, _)| norm(&src[*s..*e]).starts_with(&norm(anchor))).collect();
        if hits.len() != 1 {
            die(&format!("lost anchor: loop `{}` in {} matches {} loops", anchor, spec.selector, hits.len()));
        }
        let mut t = String::from("\n");
        for l in lines { t.push_str(l); t.push('\n'); }
        edits.push(Edit { start: hits[0].2 + 1, end: hits[0].2 + 1, text: t, kind: format!("loop-first:{}", anchor), prio: 4 });
    }
    for (is_before, list) in [(true, &spec.befores), (false, &spec.afters)] {
        for (anchor, lines) in list {
            let hits: Vec<&(usize, usize)> = c
                .stmts
                .iter()
                .filter(|(s, e)| norm(&src[*s..*e]).starts_with(&norm(anchor)))
                .collect();
            if hits.len() != 1 {
                die(&format!(
                    "lost anchor: statement `{}` in {} matches {} statements",
                    anchor,
                    spec.selector,
                    hits.len()
                ));
            }
            let at = if is_before { hits[0].0 } else { hits[0].1 };
            let mut t = String::new();
            if !is_before {
                t.push('\n');
            }
            for l in lines {
                t.push_str(l);
                t.push('\n');
            }
            edits.push(Edit {
                start: at,
                end: at,
                text: t,
                kind: format!("{}:{}", if is_before { "before" } else { "after" }, anchor),
                prio: if is_before { 4 } else { -4 },
            });
        }
    }
}

/// closure contracts / parameter typing (R6), iterator entry (R5), for-patterns (R6), R9 — shared by whole
/// functions and by lifted fragments
fn inner_edits(spec: &ItemSpec, src: &str, block: &syn::Block, c: &rewrite::Collector, edits: &mut Vec<Edit>, rewrites: &mut Vec<String>) {
    // closures: contract splice + explicit parameter typing (R6)
    let find_closure = |n: &String| -> Option<&rewrite::ClosureInfo> {
        match n.parse::<usize>() {
            Ok(i) => c.closure_nodes.get(i),
            Err(_) => c.closure_nodes.iter().find(|cl| &cl.key == n),
        }
    };
    for (n, lines) in &spec.closures {
        if spec.optional_closures.contains(n) && find_closure(n).is_none() {
            rewrites.push(format!("optional contract of closure {} skipped: no such closure in the function any more", n));
            continue;
        }
        let cl = find_closure(n).unwrap_or_else(|| {
            die(&format!("lost anchor: closure {} in {} (only {} closures)", n, spec.selector, c.closure_nodes.len()))
        });
        let mut t = String::from(" ");
        for l in lines {
            t.push_str(l.trim());
            t.push(' ');
        }
        // body must be a block for Verus closure contracts; if it is not, wrap it (ghost-neutral)
        if cl.body_is_block {
            edits.push(Edit { start: cl.body.0, end: cl.body.0, text: t, kind: format!("closure:{}", n), prio: 5 });
        } else {
            t.push_str("{ ");
            edits.push(Edit { start: cl.body.0, end: cl.body.0, text: t, kind: format!("closure:{}", n), prio: 5 });
            edits.push(Edit { start: cl.body.1, end: cl.body.1, text: " }".into(), kind: format!("closure:{}", n), prio: -5 });
            rewrites.push(format!("R4 closure {} body wrapped in a block to carry its contract", n));
        }
    }
    for (n, lines) in &spec.closure_params {
        if spec.optional_closures.contains(n) && find_closure(n).is_none() {
            continue;
        }
        let cl = find_closure(n).unwrap_or_else(|| {
            die(&format!("lost anchor: closure {} in {} (only {} closures)", n, spec.selector, c.closure_nodes.len()))
        });
        let types: Vec<String> = lines.iter().map(|l| l.trim().to_string()).filter(|l| !l.is_empty()).collect();
        if types.len() != cl.params.len() {
            die(&format!("closure {} in {}: {} parameter types given, closure has {}", n, spec.selector, types.len(), cl.params.len()));
        }
        let mut lets = String::new();
        for (i, (ps, pe, simple)) in cl.params.iter().enumerate() {
            let pat = &src[*ps..*pe];
            if *simple {
                edits.push(Edit { start: *pe, end: *pe, text: format!(": {}", types[i]), kind: "R6 closure param".into(), prio: 0 });
                rewrites.push(format!("R6 closure {} parameter `{}` typed `{}`", n, pat, types[i]));
            } else {
                edits.push(Edit { start: *ps, end: *pe, text: format!("p{}: {}", i, types[i]), kind: "R6 closure param".into(), prio: 0 });
                match &cl.deref_names[i] {
                    // `|&v|` : Verus has no reference patterns; `let v = *p;` is the same binding for Copy items
                    Some(name) => { let _ = write!(lets, "let {} = *p{}; ", name, i); }
                    None => { let _ = write!(lets, "let {} = p{}; ", pat, i); }
                }
                rewrites.push(format!("R6 closure {} parameter pattern `{}` -> `p{}: {}` + let", n, pat, i, types[i]));
            }
        }
        if !lets.is_empty() {
            if cl.body_is_block {
                // insert after the opening brace
                edits.push(Edit { start: cl.body.0 + 1, end: cl.body.0 + 1, text: format!(" {}", lets), kind: "R6 closure param".into(), prio: 0 });
            } else {
                let has_contract = spec.closures.iter().any(|(m, _)| m == n);
                if has_contract {
                    edits.push(Edit { start: cl.body.0, end: cl.body.0, text: lets, kind: "R6 closure param".into(), prio: 6 });
                } else {
                    edits.push(Edit { start: cl.body.0, end: cl.body.0, text: format!("{{ {}", lets), kind: "R6 closure param".into(), prio: 6 });
                    edits.push(Edit { start: cl.body.1, end: cl.body.1, text: " }".into(), kind: "R6 closure param".into(), prio: -5 });
                }
            }
        }
    }
    if spec.viter {
        rewrite::viter_edits(block, src, edits, rewrites);
    }
    if spec.forpat {
        rewrite::forpat_edits(block, src, edits, rewrites);
    }
    if spec.fmt_nonempty {
        rewrite::fmt_edits(block, src, edits, rewrites);
    }
    if spec.add_ufcs {
        rewrite::add_ufcs_edits(block, src, edits, rewrites);
    }
    rewrite::continue_edits(block, src, edits, rewrites);
}

pub fn die_pub(msg: &str) -> ! {
    die(msg)
}

/// split contract lines into (requires, ensures) clause text by the leading keyword of each line
fn split_contract(lines: &[String]) -> (String, String) {
    let mut req = String::new();
    let mut ens = String::new();
    let mut cur = 0; // 0 none, 1 requires, 2 ensures, 3 other
    for l in lines {
        let t = l.trim();
        let (kw, rest) = match t.split_once(char::is_whitespace) {
            Some((k, r)) => (k, r),
            None => (t, ""),
        };
        let body = match kw {
            "requires" => { cur = 1; rest }
            "ensures" => { cur = 2; rest }
            "decreases" | "returns" | "recommends" | "no_unwind" | "opens_invariants" => { cur = 3; rest }
            _ => t,
        };
        // strip trailing line comments
        let body = match body.find("//") { Some(i) => &body[..i], None => body };
        match cur {
            1 => { req.push_str(body); req.push('\n'); }
            2 => { ens.push_str(body); ens.push('\n'); }
            _ => {}
        }
    }
    (req, ens)
}

/// Vacuity canary for one item: a proof fn with the item's parameters, its precondition (for stubs
/// also its postcondition over an arbitrary result) as `requires`, and `ensures false`.  It must
/// FAIL to verify; if it verifies the contract is contradictory.
fn canary_for(spec: &ItemSpec, src: &str, found: &Found, n: usize) -> Option<(String, String)> {
    let (sig, wrap): (&syn::Signature, Option<String>) = match found {
        Found::ImplFn(im, f) => {
            let generics = quote::ToTokens::to_token_stream(&im.generics).to_string();
            (&f.sig, Some(format!("impl{} {} {{\n", generics, type_name(&im.self_ty))))
        }
        Found::Item(syn::Item::Fn(f)) => (&f.sig, None),
        _ => return None,
    };
    let (req, ens) = split_contract(&spec.sig);
    let trusted = spec.mode == "trusted";
    if req.trim().is_empty() && !(trusted && !ens.trim().is_empty()) {
        return None;
    }
    let mut params = Vec::new();
    for inp in &sig.inputs {
        let (a, b) = br(inp.span());
        let t = src[a..b].to_string();
        if t.contains("&mut") || t.contains("impl ") || t.starts_with("mut ") {
            return None;
        }
        params.push(t);
    }
    let mut clauses = req.clone();
    if trusted && !ens.trim().is_empty() {
        if ens.contains("old(") || ens.contains("final(") {
            return None;
        }
        if let syn::ReturnType::Type(_, ty) = &sig.output {
            let name = spec.retname.clone().unwrap_or_else(|| "r".into());
            let tytext = match &spec.ret {
                Some(r) => r.clone(),
                None => { let (a, b) = br(ty.span()); src[a..b].to_string() }
            };
            if tytext.contains("impl ") {
                return None;
            }
            params.push(format!("{}: {}", name, tytext));
        }
        clauses.push_str(&ens);
    }
    let generics = {
        let g = quote::ToTokens::to_token_stream(&sig.generics).to_string();
        g
    };
    let name = format!("canary_{}_{}", n, sig.ident);
    let mut t = String::new();
    if let Some(w) = &wrap { t.push_str(w); }
    let _ = write!(t, "pub proof fn {}{}({})\n    requires\n{}    ensures false,\n{{}}\n", name, generics, params.join(", "), clauses);
    if wrap.is_some() { t.push_str("}\n"); }
    Some((name, t))
}
