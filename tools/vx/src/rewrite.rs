//! The fixed rewrites R1–R3, R5 and the collectors used for anchors.

use crate::{br, norm, Edit};
use syn::spanned::Spanned;
use syn::visit::Visit;

const KEEP_DERIVES: &[&str] = &["Clone", "Copy", "PartialEq", "Eq", "PartialOrd", "Ord", "Hash"];
const PRINT_MACROS: &[&str] = &["println", "print", "eprintln", "eprint"];
/// adapter / terminal methods that make `.iter()` an *iterator chain entry* (R5)
const ADAPTERS: &[&str] = &[
    "map", "filter", "filter_map", "any", "all", "position", "find", "sum", "collect", "copied", "cloned",
    "chain", "rev", "skip", "take", "take_while", "enumerate", "tuple_windows", "circular_tuple_windows",
    "last", "count", "max", "min", "flat_map", "zip", "fold",
];

thread_local! {
    /// derives to drop for the item being emitted (`//@drop-derive Clone`): the trait impl is then
    /// supplied, with a specification, by the environment (A-clone)
    pub static DROP_DERIVES: std::cell::RefCell<Vec<String>> = std::cell::RefCell::new(Vec::new());
    /// receivers whose `.iter()` is a user method already returning the shim type (`//@viter-skip path`)
    pub static VITER_SKIP: std::cell::RefCell<Vec<String>> = std::cell::RefCell::new(Vec::new());
}

pub struct ClosureInfo {
    pub span: (usize, usize),
    pub body: (usize, usize),
    pub body_is_block: bool,
    pub params: Vec<(usize, usize, bool)>, // span of pattern, is simple identifier
    pub deref_names: Vec<Option<String>>,  // `&name` patterns: Some(name)
    pub key: String,                       // `<callee>#<k>`: k-th closure passed directly to a call of <callee>
}

#[derive(Default)]
pub struct Collector {
    pub stmts: Vec<(usize, usize)>,
    pub loops: Vec<(usize, usize, usize)>, // span start, span end, body `{` offset
    pub for_exprs: Vec<(usize, usize)>,    // for loops: loop span start, start of the iterated expression
    pub closures: Vec<(usize, usize)>,
    pub closure_nodes: Vec<ClosureInfo>,
    pub method_calls: Vec<(String, Vec<(usize, usize)>)>, // method name, argument spans
    pub method_recvs: Vec<(String, (usize, usize))>,      // method name, receiver span
    pub macros: Vec<(String, (usize, usize))>,
    pub lets: Vec<(String, (usize, usize))>, // `let NAME = <init>`: name, init span
    pub let_heads: Vec<(usize, Option<(usize, usize)>)>, // parallel to `lets`: end of the bound name, span of the type annotation
    pub closure_callee: std::collections::HashMap<usize, String>, // closure span start -> callee name
    pub key_counts: std::collections::HashMap<String, usize>,
}

impl<'ast> Visit<'ast> for Collector {
    fn visit_stmt(&mut self, s: &'ast syn::Stmt) {
        if let syn::Stmt::Local(l) = s {
            let name = match &l.pat {
                syn::Pat::Ident(pi) => Some(pi.ident.to_string()),
                syn::Pat::Type(pt) => match &*pt.pat { syn::Pat::Ident(pi) => Some(pi.ident.to_string()), _ => None },
                _ => None,
            };
            if let (Some(n), Some(init)) = (name, &l.init) {
                self.lets.push((n, br(init.expr.span())));
                let head = match &l.pat {
                    syn::Pat::Type(pt) => (br(pt.pat.span()).1, Some(br(pt.ty.span()))),
                    p => (br(p.span()).1, None),
                };
                self.let_heads.push(head);
            }
        }
        self.stmts.push(br(s.span()));
        syn::visit::visit_stmt(self, s);
    }
    fn visit_expr_while(&mut self, e: &'ast syn::ExprWhile) {
        let (s, en) = br(e.span());
        self.loops.push((s, en, br(e.body.span()).0));
        syn::visit::visit_expr_while(self, e);
    }
    fn visit_expr_for_loop(&mut self, e: &'ast syn::ExprForLoop) {
        let (s, en) = br(e.span());
        self.loops.push((s, en, br(e.body.span()).0));
        self.for_exprs.push((s, br(e.expr.span()).0));
        syn::visit::visit_expr_for_loop(self, e);
    }
    fn visit_expr_loop(&mut self, e: &'ast syn::ExprLoop) {
        let (s, en) = br(e.span());
        self.loops.push((s, en, br(e.body.span()).0));
        syn::visit::visit_expr_loop(self, e);
    }
    fn visit_expr_method_call(&mut self, e: &'ast syn::ExprMethodCall) {
        for a in e.args.iter() {
            if let syn::Expr::Closure(c) = a {
                self.closure_callee.insert(br(c.span()).0, e.method.to_string());
            }
        }
        self.method_calls.push((e.method.to_string(), e.args.iter().map(|a| br(a.span())).collect()));
        self.method_recvs.push((e.method.to_string(), br(e.receiver.span())));
        syn::visit::visit_expr_method_call(self, e);
    }
    fn visit_expr_closure(&mut self, e: &'ast syn::ExprClosure) {
        let sp = br(e.span());
        self.closures.push(sp);
        let params = e
            .inputs
            .iter()
            .map(|p| {
                let (s, en) = br(p.span());
                let simple = matches!(p, syn::Pat::Ident(pi) if pi.by_ref.is_none() && pi.subpat.is_none());
                (s, en, simple)
            })
            .collect();
        let deref_names = e
            .inputs
            .iter()
            .map(|p| match p {
                syn::Pat::Reference(r) if r.mutability.is_none() => match &*r.pat {
                    syn::Pat::Ident(pi) if pi.by_ref.is_none() && pi.subpat.is_none() => Some(pi.ident.to_string()),
                    _ => None,
                },
                _ => None,
            })
            .collect();
        let callee = self.closure_callee.get(&sp.0).cloned().unwrap_or_else(|| "_".to_string());
        let k = self.key_counts.entry(callee.clone()).or_insert(0);
        let key = format!("{}#{}", callee, *k);
        *k += 1;
        self.closure_nodes.push(ClosureInfo {
            key,
            deref_names,
            span: sp,
            body: br(e.body.span()),
            body_is_block: matches!(&*e.body, syn::Expr::Block(_)),
            params,
        });
        syn::visit::visit_expr_closure(self, e);
    }
}

pub fn attr_edits(attrs: &[syn::Attribute], src: &str, edits: &mut Vec<Edit>, rewrites: &mut Vec<String>) {
    for a in attrs {
        let (s, e) = br(a.span());
        let name = a.path().segments.last().map(|x| x.ident.to_string()).unwrap_or_default();
        if name == "doc" {
            continue;
        }
        if name == "derive" {
            let mut kept = Vec::new();
            let mut dropped = Vec::new();
            let _ = a.parse_nested_meta(|m| {
                let n = m.path.segments.last().map(|x| x.ident.to_string()).unwrap_or_default();
                let extra_drop = DROP_DERIVES.with(|d| d.borrow().contains(&n));
                if KEEP_DERIVES.contains(&n.as_str()) && !extra_drop {
                    kept.push(n);
                } else {
                    dropped.push(n);
                }
                Ok(())
            });
            if dropped.is_empty() {
                continue;
            }
            let text = if kept.is_empty() { String::new() } else { format!("#[derive({})]", kept.join(", ")) };
            edits.push(Edit { start: s, end: e, text, kind: "R3 derive".into(), prio: 0 });
            rewrites.push(format!("R3 derive: dropped {}", dropped.join(", ")));
        } else {
            edits.push(Edit { start: s, end: e, text: String::new(), kind: "R3 attr".into(), prio: 0 });
            rewrites.push(format!("R3 attribute dropped: {}", norm(&src[s..e])));
        }
    }
}

pub fn vis_edit(vis: &syn::Visibility, next_tok_start: usize, edits: &mut Vec<Edit>, rewrites: &mut Vec<String>) {
    match vis {
        syn::Visibility::Public(_) => {}
        syn::Visibility::Inherited => {
            edits.push(Edit { start: next_tok_start, end: next_tok_start, text: "pub ".into(), kind: "R2 pub".into(), prio: 1 });
            rewrites.push("R2 private -> pub".into());
        }
        syn::Visibility::Restricted(r) => {
            let (s, e) = br(r.span());
            edits.push(Edit { start: s, end: e, text: "pub".into(), kind: "R2 pub".into(), prio: 1 });
            rewrites.push("R2 restricted -> pub".into());
        }
    }
}

struct PrintDropper<'a> {
    src: &'a str,
    edits: &'a mut Vec<Edit>,
    rewrites: &'a mut Vec<String>,
}

impl<'ast, 'a> Visit<'ast> for PrintDropper<'a> {
    fn visit_stmt(&mut self, s: &'ast syn::Stmt) {
        if let syn::Stmt::Macro(m) = s {
            let name = m.mac.path.segments.last().map(|x| x.ident.to_string()).unwrap_or_default();
            if PRINT_MACROS.contains(&name.as_str()) {
                let (a, b) = br(s.span());
                self.edits.push(Edit { start: a, end: b, text: String::new(), kind: "R1 drop".into(), prio: 0 });
                self.rewrites.push(format!("R1 dropped: {}", norm(&self.src[a..b]).chars().take(60).collect::<String>()));
                return;
            }
        }
        syn::visit::visit_stmt(self, s);
    }
}

pub fn drop_print_stmts(block: &syn::Block, src: &str, edits: &mut Vec<Edit>, rewrites: &mut Vec<String>) {
    let mut d = PrintDropper { src, edits, rewrites };
    d.visit_block(block);
}

fn fields_edits(fields: &syn::Fields, src: &str, edits: &mut Vec<Edit>, rewrites: &mut Vec<String>, with_vis: bool) {
    for f in fields.iter() {
        attr_edits(&f.attrs, src, edits, rewrites);
        if with_vis {
            let next = match &f.ident {
                Some(id) => br(id.span()).0,
                None => br(f.ty.span()).0,
            };
            vis_edit(&f.vis, next, edits, rewrites);
        }
    }
}

/// Rewrites for a top-level item (struct / enum / type / const / fn / whole trait impl).
pub fn item_rewrites(it: &syn::Item, src: &str, _mode: &str, edits: &mut Vec<Edit>, rewrites: &mut Vec<String>) {
    match it {
        syn::Item::Struct(s) => {
            attr_edits(&s.attrs, src, edits, rewrites);
            vis_edit(&s.vis, br(s.struct_token.span()).0, edits, rewrites);
            fields_edits(&s.fields, src, edits, rewrites, true);
        }
        syn::Item::Enum(e) => {
            attr_edits(&e.attrs, src, edits, rewrites);
            vis_edit(&e.vis, br(e.enum_token.span()).0, edits, rewrites);
            for v in &e.variants {
                attr_edits(&v.attrs, src, edits, rewrites);
                fields_edits(&v.fields, src, edits, rewrites, false);
            }
        }
        syn::Item::Type(t) => {
            attr_edits(&t.attrs, src, edits, rewrites);
            vis_edit(&t.vis, br(t.type_token.span()).0, edits, rewrites);
        }
        syn::Item::Const(c) => {
            attr_edits(&c.attrs, src, edits, rewrites);
            vis_edit(&c.vis, br(c.const_token.span()).0, edits, rewrites);
        }
        syn::Item::Fn(f) => {
            attr_edits(&f.attrs, src, edits, rewrites);
            vis_edit(&f.vis, br(f.sig.span()).0, edits, rewrites);
            if _mode != "trusted" {
                drop_print_stmts(&f.block, src, edits, rewrites);
            }
        }
        syn::Item::Impl(im) => {
            attr_edits(&im.attrs, src, edits, rewrites);
            for ii in &im.items {
                if let syn::ImplItem::Fn(f) = ii {
                    attr_edits(&f.attrs, src, edits, rewrites);
                    if _mode == "trusted" {
                        let (s, _) = br(f.span());
                        let (bs, be) = br(f.block.span());
                        edits.push(Edit { start: s, end: s, text: "#[verifier::external_body]\n".into(), kind: "R7 stub".into(), prio: -10 });
                        edits.push(Edit { start: bs, end: be, text: "{ unimplemented!() }".into(), kind: "R7 stub".into(), prio: 6 });
                        rewrites.push("R7 body replaced by unimplemented!() under external_body".into());
                    } else {
                        drop_print_stmts(&f.block, src, edits, rewrites);
                    }
                }
            }
        }
        _ => crate::die_pub("unsupported item kind for extraction"),
    }
}

struct ViterVisitor<'a> {
    src: &'a str,
    edits: &'a mut Vec<Edit>,
    rewrites: &'a mut Vec<String>,
}

impl<'ast, 'a> Visit<'ast> for ViterVisitor<'a> {
    fn visit_expr_method_call(&mut self, e: &'ast syn::ExprMethodCall) {
        let outer = e.method.to_string();
        // R5b: `recv.splice(a..b, w).collect()` -> `vx_splice(&mut recv, a, b, w)`
        if outer == "collect" && e.args.is_empty() {
            if let syn::Expr::MethodCall(inner) = &*e.receiver {
                if inner.method == "splice" && inner.args.len() == 2 {
                    if let syn::Expr::Range(r) = &inner.args[0] {
                        if let (Some(a), Some(b), syn::RangeLimits::HalfOpen(_)) = (&r.start, &r.end, &r.limits) {
                            let (s, en) = br(e.span());
                            let t = |x: (usize, usize)| self.src[x.0..x.1].to_string();
                            let text = format!("vx_splice(&mut {}, {}, {}, {})", t(br(inner.receiver.span())), t(br(a.span())), t(br(b.span())), t(br(inner.args[1].span())));
                            self.rewrites.push(format!("R5b `{}` -> `{}`", norm(&self.src[s..en]), norm(&text)));
                            self.edits.push(Edit { start: s, end: en, text, kind: "R5b splice".into(), prio: 0 });
                            return;
                        }
                    }
                }
            }
        }
        if ADAPTERS.contains(&outer.as_str()) {
            // receiver `.iter()` / `.into_iter()` with no arguments -> `.viter()`
            match &*e.receiver {
                syn::Expr::MethodCall(inner)
                    if (inner.method == "iter" || inner.method == "into_iter") && inner.args.is_empty()
                        && !VITER_SKIP.with(|v| { let (a, b) = br(inner.receiver.span()); v.borrow().contains(&norm(&self.src[a..b])) }) =>
                {
                    let (s, en) = br(inner.method.span());
                    self.edits.push(Edit { start: s, end: en, text: "viter".into(), kind: "R5 viter".into(), prio: 0 });
                    self.rewrites.push(format!("R5 `.{}()` -> `.viter()` before `.{}`", inner.method, outer));
                }
                syn::Expr::Paren(p) => {
                    if let syn::Expr::Range(r) = &*p.expr {
                        if let (Some(a), Some(b)) = (&r.start, &r.end) {
                            if matches!(r.limits, syn::RangeLimits::HalfOpen(_)) {
                                let (ps, pe) = br(p.span());
                                let (as_, ae) = br(a.span());
                                let (bs, be) = br(b.span());
                                let text = format!("vrange({}, {})", &self.src[as_..ae], &self.src[bs..be]);
                                self.rewrites.push(format!("R5 `{}` -> `{}` before `.{}`", norm(&self.src[ps..pe]), norm(&text), outer));
                                self.edits.push(Edit { start: ps, end: pe, text, kind: "R5 vrange".into(), prio: 0 });
                                // do not descend into the range operands (they were copied verbatim)
                                for a in &e.args {
                                    self.visit_expr(a);
                                }
                                return;
                            }
                        }
                    }
                }
                _ => {}
            }
        }
        syn::visit::visit_expr_method_call(self, e);
    }
}

pub fn viter_edits(block: &syn::Block, src: &str, edits: &mut Vec<Edit>, rewrites: &mut Vec<String>) {
    let mut v = ViterVisitor { src, edits, rewrites };
    v.visit_block(block);
}

/// R6 for `for` patterns: `for (&a, &b) in E { body }` -> `for p0 in E { let a = *p0.0; let b = *p0.1; body }`,
/// `for &a in E` -> `for p0 in E { let a = *p0; … }` (Verus has no reference patterns; same bindings for Copy items)
struct ForPat<'a> {
    src: &'a str,
    edits: &'a mut Vec<Edit>,
    rewrites: &'a mut Vec<String>,
}
fn deref_ident(p: &syn::Pat) -> Option<String> {
    match p {
        syn::Pat::Reference(r) if r.mutability.is_none() => match &*r.pat {
            syn::Pat::Ident(pi) if pi.by_ref.is_none() && pi.subpat.is_none() => Some(pi.ident.to_string()),
            _ => None,
        },
        _ => None,
    }
}
impl<'ast, 'a> Visit<'ast> for ForPat<'a> {
    fn visit_expr_for_loop(&mut self, e: &'ast syn::ExprForLoop) {
        let (ps, pe) = br(e.pat.span());
        let mut lets = String::new();
        match &*e.pat {
            syn::Pat::Tuple(t) => {
                let names: Vec<Option<String>> = t.elems.iter().map(deref_ident).collect();
                if !names.is_empty() && names.iter().all(|n| n.is_some()) {
                    for (i, n) in names.iter().enumerate() {
                        lets.push_str(&format!("let {} = *p0.{}; ", n.as_ref().unwrap(), i));
                    }
                }
            }
            p => {
                if let Some(n) = deref_ident(p) {
                    lets.push_str(&format!("let {} = *p0; ", n));
                }
            }
        }
        if !lets.is_empty() {
            let body_open = br(e.body.span()).0;
            self.rewrites.push(format!("R6 for pattern `{}` -> `p0` + `{}`", norm(&self.src[ps..pe]), lets.trim()));
            self.edits.push(Edit { start: ps, end: pe, text: "p0".into(), kind: "R6 for pattern".into(), prio: 0 });
            self.edits.push(Edit { start: body_open + 1, end: body_open + 1, text: format!(" {}", lets), kind: "R6 for pattern".into(), prio: 2 });
        }
        syn::visit::visit_expr_for_loop(self, e);
    }
}
pub fn forpat_edits(block: &syn::Block, src: &str, edits: &mut Vec<Edit>, rewrites: &mut Vec<String>) {
    let mut v = ForPat { src, edits, rewrites };
    v.visit_block(block);
}

/// R9: `format!(LIT, ..)` whose literal contains at least one literal character is wrapped as
/// `vx_nonempty(format!(LIT, ..))`; `vx_nonempty` is the identity with the assumed postcondition that
/// the string is not empty (A-fmt).  Arguments are still evaluated.
struct FmtWrap<'a> {
    src: &'a str,
    edits: &'a mut Vec<Edit>,
    rewrites: &'a mut Vec<String>,
}
fn literal_has_text(lit: &str) -> bool {
    let mut depth = 0;
    let cs: Vec<char> = lit.chars().collect();
    let mut i = 0;
    while i < cs.len() {
        let c = cs[i];
        if c == '{' {
            if i + 1 < cs.len() && cs[i + 1] == '{' { return true; }
            depth += 1;
        } else if c == '}' {
            if depth > 0 { depth -= 1; } else if i + 1 < cs.len() && cs[i + 1] == '}' { return true; }
        } else if depth == 0 {
            return true;
        }
        i += 1;
    }
    false
}
impl<'ast, 'a> Visit<'ast> for FmtWrap<'a> {
    fn visit_expr_macro(&mut self, e: &'ast syn::ExprMacro) {
        let name = e.mac.path.segments.last().map(|x| x.ident.to_string()).unwrap_or_default();
        if name == "format" {
            let mut it = e.mac.tokens.clone().into_iter();
            if let Some(proc_macro2::TokenTree::Literal(l)) = it.next() {
                if let Ok(ls) = syn::parse_str::<syn::LitStr>(&l.to_string()) {
                    if literal_has_text(&ls.value()) {
                        let (s, en) = br(e.span());
                        self.edits.push(Edit { start: s, end: s, text: "vx_nonempty(".into(), kind: "R9 fmt".into(), prio: 0 });
                        self.edits.push(Edit { start: en, end: en, text: ")".into(), kind: "R9 fmt".into(), prio: -1 });
                        self.rewrites.push(format!("R9 `{}` wrapped in vx_nonempty(..)", norm(&self.src[s..en]).chars().take(50).collect::<String>()));
                    }
                }
            }
        }
    }
}
pub fn fmt_edits(block: &syn::Block, src: &str, edits: &mut Vec<Edit>, rewrites: &mut Vec<String>) {
    let mut v = FmtWrap { src, edits, rewrites };
    v.visit_block(block);
}

/// R10: `A + &B` -> `std::ops::Add::add(A, &B)` (definitional desugaring of the operator; the installed Verus
/// crashes on binary `+` with a reference right-hand side)
struct AddUfcs<'a> {
    src: &'a str,
    edits: &'a mut Vec<Edit>,
    rewrites: &'a mut Vec<String>,
}
impl<'ast, 'a> Visit<'ast> for AddUfcs<'a> {
    fn visit_expr_binary(&mut self, e: &'ast syn::ExprBinary) {
        if matches!(e.op, syn::BinOp::Add(_)) && matches!(&*e.right, syn::Expr::Reference(_)) {
            let (ls, le) = br(e.left.span());
            let (rs, re) = br(e.right.span());
            // only rewrite when the left operand is not itself rewritten (no nested `+ &`)
            let mut inner = AddUfcs { src: self.src, edits: &mut Vec::new(), rewrites: &mut Vec::new() };
            inner.visit_expr(&e.left);
            if inner.edits.is_empty() {
                self.edits.push(Edit { start: ls, end: ls, text: "std::ops::Add::add(".into(), kind: "R10 add".into(), prio: -2 });
                self.edits.push(Edit { start: le, end: rs, text: ", ".into(), kind: "R10 add".into(), prio: 0 });
                self.edits.push(Edit { start: re, end: re, text: ")".into(), kind: "R10 add".into(), prio: -6 });
                self.rewrites.push(format!("R10 `{}` -> `std::ops::Add::add(.., ..)`", norm(&self.src[ls..re]).chars().take(60).collect::<String>()));
                self.visit_expr(&e.right);
                return;
            }
        }
        syn::visit::visit_expr_binary(self, e);
    }
}
pub fn add_ufcs_edits(block: &syn::Block, src: &str, edits: &mut Vec<Edit>, rewrites: &mut Vec<String>) {
    let mut v = AddUfcs { src, edits, rewrites };
    v.visit_block(block);
}

/// R11: in a `for` body, a top-level statement `if C { continue; }` followed by the statements S becomes
/// `if C { } else { S }` (same control flow; the installed Verus rejects `continue` inside `for`)
struct ContinueElse<'a> {
    src: &'a str,
    edits: &'a mut Vec<Edit>,
    rewrites: &'a mut Vec<String>,
}
fn is_bare_continue_block(b: &syn::Block) -> bool {
    if b.stmts.len() != 1 { return false; }
    match &b.stmts[0] {
        syn::Stmt::Expr(syn::Expr::Continue(c), _) => c.label.is_none(),
        _ => false,
    }
}
impl<'ast, 'a> Visit<'ast> for ContinueElse<'a> {
    fn visit_expr_for_loop(&mut self, e: &'ast syn::ExprForLoop) {
        let body_close = br(e.body.span()).1 - 1;
        let n = e.body.stmts.len();
        for (i, st) in e.body.stmts.iter().enumerate() {
            if let syn::Stmt::Expr(syn::Expr::If(ife), _) = st {
                if ife.else_branch.is_none() && is_bare_continue_block(&ife.then_branch) && i + 1 < n {
                    let (bs, be) = br(ife.then_branch.span());
                    let (_, ie) = br(st.span());
                    self.edits.push(Edit { start: bs, end: be, text: "{ }".into(), kind: "R11 continue".into(), prio: 0 });
                    self.edits.push(Edit { start: ie, end: ie, text: " else {".into(), kind: "R11 continue".into(), prio: -3 });
                    self.edits.push(Edit { start: body_close, end: body_close, text: "} ".into(), kind: "R11 continue".into(), prio: 3 });
                    self.rewrites.push(format!("R11 `{}` + rest of the for body -> `if .. {{ }} else {{ rest }}`", norm(&self.src[br(st.span()).0..ie]).chars().take(70).collect::<String>()));
                }
            }
        }
        syn::visit::visit_expr_for_loop(self, e);
    }
}
pub fn continue_edits(block: &syn::Block, src: &str, edits: &mut Vec<Edit>, rewrites: &mut Vec<String>) {
    let mut v = ContinueElse { src, edits, rewrites };
    v.visit_block(block);
}
