#!/bin/sh
# helper for development: ./vxrun.sh <slice> [verus args]
RT=$(ls -d ~/.cargo/registry/src/*/rapid_time-0.1.2)
RS=$(ls -d ~/.cargo/registry/src/*/rapid_solve-0.1.7)
s=$1; shift
/verif/build/vx-target/release/vx /verif/slices/$s.vs --crate-dir rapid_time=$RT --crate-dir rapid_solve=$RS --out /verif/build/$s.rs --map /verif/build/$s.map.json || exit 2
verus /verif/build/$s.rs --multiple-errors 20 --rlimit 60 "$@" 2>&1 | grep -v "autoderive" 
